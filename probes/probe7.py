from dataclasses import dataclass
from typing import *
from adaptix import Retort, loader, DebugTrail
@dataclass
class M:
    a: int
    b: int
def bad(x): raise ValueError("user bug")
for dt in DebugTrail:
    try:
        Retort(debug_trail=dt, recipe=[loader(P_ := int, bad)]).load({'a': 1, 'b': 2}, M)
    except BaseException as e:
        print(dt, type(e).__mro__[:3], getattr(e, 'exceptions', None))
    try:
        Retort(debug_trail=dt, recipe=[loader(int, bad)]).load([1,2], List[int])
    except BaseException as e:
        print(dt, 'list', type(e).__name__, getattr(e, 'exceptions', None))
