from enum import Enum
from typing import Union, Literal, List
from adaptix._internal.type_tools.normalize_type import normalize_type
def mk():
    class A(Enum):
        X = 1
    return A
A1, A2 = mk(), mk()
n1 = normalize_type(Union[List[Literal[A1.X]], List[Literal[A2.X]]])
n2 = normalize_type(Union[List[Literal[A2.X]], list[Literal[A1.X]]])
f=lambda n:[id(type(a.args[0].args[0]))==id(A1) for a in n.args]
print(n1 == n2, hash(n1)==hash(n2), f(n1), f(n2))
