from enum import IntEnum
from typing import Literal
from adaptix import Retort
class IntE(IntEnum):
    A = 1
    B = 2
for strict in (True, False):
    r = Retort(strict_coercion=strict)
    for d in (1, 2, True, 0):
        try:
            print(strict, d, repr(r.load(d, Literal[True, IntE.B])))
        except Exception as e:
            print(strict, d, type(e).__name__)
