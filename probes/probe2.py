import traceback
from dataclasses import dataclass, field
from decimal import Decimal
from fractions import Fraction
from typing import *
from enum import Enum, Flag, IntEnum, auto
from adaptix import Retort, loader, dumper, Chain, P, DebugTrail, name_mapping, flag_by_member_names
from adaptix.load_error import LoadError

def t(label, f):
    try:
        r = f()
        print(f"[{label}] OK ->", repr(r))
    except LoadError as e:
        print(f"[{label}] LoadError {type(e).__name__}")
    except BaseException as e:
        print(f"[{label}] !!! {type(e).__name__}: {e}")

# C09 router duplicate
calls = []
def f(x):
    calls.append('f'); return x
@dataclass
class Foo:
    x: int
r = Retort(recipe=[loader(int, f, Chain.FIRST), loader(P[Foo].nonexistent, lambda x: x)])
calls.clear(); r.load(5, int); print("C09 chain FIRST calls (expect ['f']):", calls)
from adaptix._internal.retort.routers import create_router_for_located_request
from adaptix._internal.provider.located_request import LocatedRequestChecker
from adaptix._internal.provider.loc_stack_filtering import ExactOriginLSC, AnyLocStackChecker
items = create_router_for_located_request([
  (LocatedRequestChecker(ExactOriginLSC(int)), 'h1'),
  (LocatedRequestChecker(AnyLocStackChecker()), 'h2'),
])._items
print("C09 router items:", items)

# C08
class IE(IntEnum):
    A = 1
@dataclass
class D:
    a: int
    d: Decimal = Decimal('1')
    e: IE = IE.A
    c: complex = 1+0j
    fr: Fraction = Fraction(0)
x = Retort().load({'a': 1}, D)
print("C08 defaults:", x, type(x.d), type(x.e))

# C11
r = Retort()
t("C11 fresh Literal[False,True] load 0", lambda: Retort().load(0, Literal[False, True]))
r.load(0, Literal[0, 1])
t("C11 warmed Literal[False,True] load 0", lambda: r.load(0, Literal[False, True]))
t("C11 warmed Literal[False,True] load False", lambda: r.load(False, Literal[False, True]))

# C15
from adaptix._internal.type_tools import normalize_type
n = normalize_type(Union[Literal[0], Literal[False]])
print("C15 Union[Literal[0],Literal[False]] ->", n)
n = normalize_type(Union[Literal[0, 2], Literal[False, 3]])
print("C15 ->", n)
print("C15 Literal[0]==Literal[False] norm:", normalize_type(Literal[0]) == normalize_type(Literal[False]))

# C18
class F0(Flag):
    NONE = 0
    A = 1
    B = 2
t("C18 flag zero member dumper", lambda: Retort(recipe=[flag_by_member_names(F0)]).dump(F0.A, F0))
t("C18 flag zero member loader no-compound", lambda: Retort(recipe=[flag_by_member_names(F0, allow_compound=False)]).load(['A'], F0))
t("C18 flag exact zero member", lambda: Retort().load(1, F0))
class F1(Flag):
    A = 1
    B = 2
t("C04 flag no dup unhashable", lambda: Retort(recipe=[flag_by_member_names(F1, allow_duplicates=False)]).load([[]], F1))

# C03 omit_default with list default NamedTuple
class NT(NamedTuple):
    a: int
    b: list = []
t("C03 omit_default list default", lambda: Retort(recipe=[name_mapping(NT, omit_default=True)]).dump(NT(1, []), NT))
