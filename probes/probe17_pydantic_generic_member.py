from typing import Generic, TypeVar, List
from dataclasses import dataclass
from pydantic import BaseModel
from adaptix import Retort
T = TypeVar('T'); K = TypeVar('K')
class Inner(BaseModel, Generic[T]):
    v: T
@dataclass
class Outer(Generic[K]):
    inner: Inner[K]
class POuter(BaseModel, Generic[K]):
    inner: Inner[K]
@dataclass
class DInner(Generic[T]):
    v: T
@dataclass
class DOuter(Generic[K]):
    inner: DInner[K]
r = Retort()
for tp, d in ((DOuter[int], {"inner": {"v": 1}}), (Outer[int], {"inner": {"v": 1}}), (POuter[int], {"inner": {"v": 1}})):
    try:
        print(tp, r.load(d, tp))
    except Exception as e:
        print(tp, type(e).__name__)
class PChild(Inner[T], Generic[T]):
    c: int
for tp, d in ((PChild[int], {"v": 1, "c": 2}), (Inner, {"v": "x"}), (Inner[str], {"v": "x"})):
    try:
        print(tp, r.load(d, tp), r.dump(r.load(d, tp), tp))
    except Exception as e:
        print(tp, type(e).__name__, e)
@dataclass
class LOuter(Generic[K]):
    many: List[Inner[K]]
print(r.load({"many": [{"v": 1}]}, LOuter[int]))
try:
    r.load({"many": [{"v": "a"}]}, LOuter[int]); print("accepted wrong")
except Exception as e: print("rejected", type(e).__name__)
