from dataclasses import dataclass
from typing import NewType, Annotated
from adaptix import Retort, loader, Chain, P
UserId = NewType('UserId', int)
calls = []
def f(x):
    calls.append(x); return x + 1
@dataclass
class M:
    uid: UserId
    a: Annotated[int, 'meta']
    b: int
r = Retort(recipe=[loader(P[M].uid | P[M].a | P[M].b, f, Chain.FIRST)])
print(r.load({"uid": 1, "a": 1, "b": 1}, M), calls)
calls.clear()
r = Retort(recipe=[loader(P[M].uid | P[M].a | P[M].b, f, Chain.LAST)])
print(r.load({"uid": 1, "a": 1, "b": 1}, M), calls)
