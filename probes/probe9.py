from enum import Enum
from typing import *
from decimal import Decimal
from adaptix import Retort
from adaptix.load_error import LoadError
class E(Enum):
    A = 5
def t(label, f):
    try:
        print(f"[{label}] OK ->", repr(f()))
    except LoadError as e:
        print(f"[{label}] LoadError {type(e).__name__}")
    except BaseException as e:
        print(f"[{label}] !!! {type(e).__name__}: {str(e)[:200]}")
t("Literal[E.A, 7] load 5", lambda: Retort().load(5, Literal[E.A, 7]))
t("Literal[E.A, 0] load 5 strict", lambda: Retort().load(5, Literal[E.A, 0]))
t("Literal[E.A, 0] load 5 lax", lambda: Retort(strict_coercion=False).load(5, Literal[E.A, 0]))
t("Literal[E.A, True] load 5 strict", lambda: Retort().load(5, Literal[E.A, True]))
t("dump Decimal(1) as Union[Literal[1], Decimal]", lambda: Retort().dump(Decimal('1'), Union[Literal[1], Decimal]))
t("dump Decimal(2) as Union[Literal[1], Decimal]", lambda: Retort().dump(Decimal('2'), Union[Literal[1], Decimal]))
t("dump True as Union[Literal[1], bool, str]", lambda: Retort().dump(True, Union[Literal[1], bool, str]))
