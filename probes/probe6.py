import threading, time
from dataclasses import dataclass
from typing import *
from adaptix import Retort, Provider
from adaptix._internal.provider.located_request import LocatedRequestChecker
from adaptix._internal.provider.loc_stack_filtering import create_loc_stack_checker
from adaptix._internal.morphing.request_cls import LoaderRequest

class Marker: pass
MK = lambda x: Marker()

@dataclass
class A:
    b: Optional["B"]
    m: Marker
@dataclass
class B:
    a: Optional[A]
    m: Marker

gate = threading.Event()
first = threading.Event()
count = [0]
class Blocker(Provider):
    def get_request_handlers(self):
        def handler(mediator, request):
            count[0] += 1
            if count[0] == 2:
                first.set()
                gate.wait(5)
            return MK
        return [(LoaderRequest, LocatedRequestChecker(create_loc_stack_checker(Marker)), handler)]

r = Retort(recipe=[Blocker()])
data = {'b': {'a': {'b': {'a': None, 'm': 0}, 'm': 0}, 'm': 0}, 'm': 0}
res = {}
def run(name):
    try:
        res[name] = r.load(data, A)
    except BaseException as e:
        res[name] = repr(e)
a = threading.Thread(target=run, args=('t1',)); a.start()
first.wait(5)
b = threading.Thread(target=run, args=('t2',)); b.start(); b.join()
gate.set(); a.join()
print(res)
print("single-threaded:", Retort(recipe=[Blocker()]).load(data, A))
