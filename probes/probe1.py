import traceback
from dataclasses import dataclass, field
from decimal import Decimal
from fractions import Fraction
from typing import *
from uuid import UUID
from datetime import timedelta
from enum import Enum, Flag, IntEnum
from adaptix import Retort, loader, dumper, Chain, P, DebugTrail, name_mapping
from adaptix.load_error import LoadError

def t(label, f):
    try:
        r = f()
        print(f"[{label}] OK ->", repr(r))
    except LoadError as e:
        print(f"[{label}] LoadError {type(e).__name__}")
    except BaseException as e:
        print(f"[{label}] !!! {type(e).__name__}: {e}")

r = Retort()
lax = Retort(strict_coercion=False)
t("C04 float strict 10**400", lambda: r.load(10**400, float))
t("C04 float lax 10**400", lambda: lax.load(10**400, float))
t("C04 int lax inf", lambda: lax.load(float('inf'), int))
t("C04 timedelta nan", lambda: r.load(float('nan'), timedelta))
t("C04 timedelta inf", lambda: r.load(float('inf'), timedelta))
t("C04 Fraction 1/0", lambda: r.load('1/0', Fraction))
t("C04 UUID 123", lambda: r.load(123, UUID))
t("C04 UUID 'zz'", lambda: r.load('zz', UUID))
t("C04 Literal large unhashable", lambda: r.load([], Literal[1,2,3,4,5,6]))
t("C04 Literal small unhashable", lambda: r.load([], Literal[1,2]))
t("C04 Set[int] ok", lambda: r.load([1,2], Set[int]))
t("C04 Decimal lax list", lambda: lax.load([1], Decimal))
t("C04 Decimal lax tuple bad", lambda: lax.load((1,2,3,4), Decimal))
t("C04 complex lax", lambda: lax.load([], complex))
t("C04 str lax", lambda: lax.load(b'\xff', str))
t("C04 bytes nonascii", lambda: r.load('é', bytes))
t("C04 dict int keyed vs list", lambda: r.load({0:1}, List[int]))

@dataclass
class M:
    a: int
    b: str = 'x'
t("C04 model list layout int-keyed mapping", lambda: Retort(recipe=[name_mapping(M, as_list=True)]).load({0: 1, 1: 'x'}, M))
for dt in DebugTrail:
    t(f"C04 model aslist {dt} dict", lambda: Retort(debug_trail=dt, recipe=[name_mapping(M, as_list=True)]).load({0: 1}, M))
    t(f"C04 model {dt} data=5", lambda: Retort(debug_trail=dt).load(5, M))
    t(f"C04 model {dt} data=[]", lambda: Retort(debug_trail=dt).load([], M))
    t(f"C04 model {dt} data='ab'", lambda: Retort(debug_trail=dt).load('ab', M))
