import itertools, re
from abc import ABC, abstractmethod
from typing import *
from dataclasses import dataclass
from adaptix import P, create_loc_stack_checker
from adaptix._internal.provider.loc_stack_filtering import LocStack
from adaptix._internal.provider.location import TypeHintLoc, FieldLoc, GenericParamLoc, InputFieldLoc
from adaptix._internal.model_tools.definitions import NoDefault
class A: pass
class B: pass
class Ab(ABC):
    @abstractmethod
    def f(self): ...
class Impl(Ab):
    def f(self): pass
@runtime_checkable
class Pr(Protocol):
    def g(self): ...
class HasG:
    def g(self): pass
def fl(tp, name): return FieldLoc(type=tp, field_id=name, default=NoDefault(), metadata={})
types = [A, B, Impl, HasG, int, List[int], list]
names = ['n', 'm', 'a_b']
locs = [TypeHintLoc(type=t) for t in types] + [fl(t, n) for t in types[:4] for n in names] + [GenericParamLoc(type=t, generic_pos=i) for t in types[:3] for i in (0,1)]
stacks = [LocStack(*c) for k in (1,2,3) for c in itertools.product(locs, repeat=k)] if False else []
import random
random.seed(1)
stacks = [LocStack(*[random.choice(locs) for _ in range(k)]) for k in (1,2,3,4) for _ in range(400)]
def chk(p, s):
    return create_loc_stack_checker(p).check_loc_stack(None, s)
def same(p1, p2, label):
    bad = [s for s in stacks if chk(p1, s) != chk(p2, s)]
    print(label, "OK" if not bad else f"DIFF {len(bad)} e.g. {bad[0]}")
same(P['n'], P.n, "P['n']==P.n")
same(P[A], A, "P[A]==A")
same(P[A] + P.n, P[A].n, "P[A]+P.n==P[A].n")
same(P[A, B], P[A] | P[B], "P[A,B]==P[A]|P[B]")
same(~(P[A] | P.n), ~P[A] & ~P.n, "demorgan")
same(P[A] ^ P.n, (P[A] | P.n) & ~(P[A] & P.n), "xor")
same(P[A] ^ P.n ^ P[B], (P[A] ^ P.n) ^ P[B], "xor assoc 3")
same(A | P.n, P[A] | P.n, "ror") if False else None
same(P[Ab], Impl, "abstract matches impl (expect DIFF only where Impl exact differs?)")
print("Ab matches Impl:", chk(Ab, LocStack(TypeHintLoc(type=Impl))), "Pr matches HasG:", chk(Pr, LocStack(TypeHintLoc(type=HasG))), "A matches subclass:", chk(A, LocStack(TypeHintLoc(type=type('SubA',(A,),{})))))
print("str regex full:", chk('a.*', LocStack(fl(A, 'a_b'))), chk('_b', LocStack(fl(A, 'a_b'))), chk('a', LocStack(fl(A, 'a_b'))))
# generator in P[...]
p = P[(x for x in (A, B))]
s = LocStack(TypeHintLoc(type=B))
print("generator item twice:", chk(p, s), chk(p, s))
