from dataclasses import dataclass
from typing import List
from adaptix import Retort, loader, bound, P
import adaptix; print(adaptix.__file__)
@dataclass
class Node:
    v: int
    children: List['Node']
inner = Retort(recipe=[loader(int, lambda x: x*10)])
outer = Retort(recipe=[bound(P[List].generic_arg(0, Node), inner)])
d = {"v":1,"children":[{"v":2,"children":[{"v":3,"children":[]}]}]}
print(outer.load(d, Node))
print(outer.dump(outer.load(d, Node), Node))
print(Retort().load(d, Node))
