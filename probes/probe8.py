from datetime import datetime, date, timezone, timedelta
import re, sys
def t(label, f):
    try:
        r = f(); print(f"[{label}] OK", repr(r)[:60])
    except BaseException as e:
        print(f"[{label}] {type(e).__mro__[0].__name__}/{type(e).__mro__[1].__name__}: {str(e)[:80]}")
for v in [1e10, 1e12, 1e14, 1e17, 1e18, 1e19, 1e30, -1e10, -1e12,-1e14, -1e17, -1e19, float('nan'), float('inf'), 10**30, -10**30, True, '1', None, 2**62, -2**62, 2**63, 253402300800, 253402300799, -62135596800, -62135596801]:
    t(f"dt.fromtimestamp({v!r}, utc)", lambda: datetime.fromtimestamp(v, tz=timezone.utc))
    t(f"dt.fromtimestamp({v!r}, None)", lambda: datetime.fromtimestamp(v, tz=None))
    t(f"date.fromtimestamp({v!r})", lambda: date.fromtimestamp(v))
t("re deep", lambda: re.compile("(" * 5000 + ")" * 5000))
t("re deep2", lambda: re.compile("(?:" * 100000 + "a" + ")" * 100000))
t("re big rep", lambda: re.compile("a{99999999999}"))
t("re big rep2", lambda: re.compile("(a{65535}){65535}"))
t("timedelta big", lambda: timedelta(seconds=int(1e30)))
t("timedelta big2", lambda: timedelta(seconds=10**12))
import decimal
t("Decimal big", lambda: decimal.Decimal('1e999999999999999999'))
t("Decimal nan str", lambda: decimal.Decimal('sNaN'))
t("int of Decimal nan", lambda: int(decimal.Decimal('NaN')))
t("int of Decimal inf", lambda: int(decimal.Decimal('Infinity')))
t("Decimal nan % 1", lambda: decimal.Decimal('NaN') % 1)
t("Decimal sNaN % 1", lambda: decimal.Decimal('sNaN') % 1)
t("Decimal inf % 1", lambda: decimal.Decimal('Infinity') % 1)
t("Decimal huge %1", lambda: decimal.Decimal('1e400') % 1)
t("int huge str", lambda: int('1'*5000))
t("float('1e400')", lambda: float('1e400'))
t("complex huge", lambda: complex(10**400))
t("complex('1e400')", lambda: complex('1e400'))
from fractions import Fraction
t("Fraction nan", lambda: Fraction(float('nan')))
t("Fraction('nan')", lambda: Fraction('nan'))
t("Fraction inf", lambda: Fraction(float('inf')))
t("Fraction (1,2) tuple", lambda: Fraction((1,2)))
t("int bytes", lambda: int(b'12'))
t("int [ ]", lambda: int([]))
t("float b", lambda: float(b'1.5'))
from uuid import UUID
for v in [None, 1, 1.5, [], b'x', 'x', '{'*40]:
    t(f"UUID({v!r})", lambda: UUID(v))
from ipaddress import *
for cls in (IPv4Address, IPv6Address, IPv4Network, IPv6Network, IPv4Interface, IPv6Interface):
    for v in [None, -1, 2**200, 1.5, [], b'x', b'abcd', 'x', (1,2), ('1.1.1.1', 99), ('1.1.1.1',), True, {}]:
        try:
            cls(v)
        except (ValueError,) as e:
            pass
        except BaseException as e:
            print(cls.__name__, repr(v), type(e).__name__, str(e)[:60])
from pathlib import *
for cls in (PurePath, Path, PurePosixPath, PosixPath, PureWindowsPath):
    for v in [None, 1, 1.5, [], b'x', 'x\0', ('a',), {}]:
        try:
            cls(v)
        except BaseException as e:
            print(cls.__name__, repr(v), type(e).__name__, str(e)[:60])
try:
    WindowsPath('x')
except BaseException as e:
    print("WindowsPath", type(e).__name__, e)
