from dataclasses import dataclass, field
from typing import *
from adaptix import Retort, DebugTrail, name_mapping, ExtraKwargs, ExtraForbid
from adaptix.load_error import LoadError
def t(label, f):
    try:
        print(f"[{label}] OK ->", repr(f()))
    except LoadError as e:
        print(f"[{label}] LoadError {type(e).__name__} {e}")
    except BaseException as e:
        print(f"[{label}] !!! {type(e).__name__}: {str(e)[:200]}")
class K:
    def __init__(self, a: int, b: int, **kwargs):
        self.a, self.b, self.kwargs = a, b, kwargs
    def __repr__(self): return f"K({self.a},{self.b},{self.kwargs})"
r = Retort(recipe=[name_mapping(K, map={'b': ('n', 'b')}, extra_in=ExtraKwargs())])
t("kwargs nested no extras", lambda: r.load({'a': 1, 'n': {'b': 2}}, K))
t("kwargs nested extras", lambda: r.load({'a': 1, 'n': {'b': 2, 'z': 3}, 'q': 4}, K))
@dataclass
class E:
    a: int
    b: int
    extra: dict
r = Retort(recipe=[name_mapping(E, map={'b': ('n', 'b')}, extra_in='extra', extra_out='extra')])
t("target nested no extras", lambda: r.load({'a': 1, 'n': {'b': 2}}, E))
t("target nested extras", lambda: r.load({'a': 1, 'n': {'b': 2, 'z': 3}, 'q': 4}, E))
x = r.load({'a': 1, 'n': {'b': 2, 'z': 3}, 'q': 4}, E)
t("target nested dump", lambda: r.dump(x, E))
t("roundtrip", lambda: r.load(r.dump(x, E), E))
# forbid nested
r = Retort(recipe=[name_mapping(E, map={'b': ('n', 'b')}, extra_in=ExtraForbid())])
@dataclass
class F:
    a: int
    b: int
r = Retort(recipe=[name_mapping(F, map={'b': ('n', 'b')}, extra_in=ExtraForbid())])
t("forbid nested", lambda: r.load({'a': 1, 'n': {'b': 2, 'z': 3}, 'q': 4}, F))
