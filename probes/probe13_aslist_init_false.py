from dataclasses import dataclass, field
from adaptix import Retort, name_mapping
@dataclass
class A:
    a: int
    b: int = field(init=False, default=0)
    c: int = field(kw_only=True)
r = Retort(recipe=[name_mapping(A, as_list=True)])
x = A(5, c=7)
d = r.dump(x)
print(d)
try:
    print(r.load(d, A))
except Exception as e:
    print(type(e).__name__, e)
@dataclass
class B:
    a: int
    b: int = field(init=False, default=0)
    c: int = 3
r = Retort(recipe=[name_mapping(B, as_list=True)])
x = B(5, c=7)
d = r.dump(x); print(d, r.load(d, B), r.load(d, B) == x)
