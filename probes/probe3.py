import traceback
from dataclasses import dataclass, field, make_dataclass
from decimal import Decimal
from typing import *
from enum import Enum
from adaptix import Retort, P, DebugTrail, name_mapping
from adaptix.conversion import get_converter, impl_converter, link_constant, coercer, link
from adaptix.load_error import LoadError

def t(label, f):
    try:
        r = f()
        print(f"[{label}] OK ->", repr(r))
    except LoadError as e:
        print(f"[{label}] LoadError {type(e).__name__}")
    except BaseException as e:
        print(f"[{label}] !!! {type(e).__name__}: {str(e)[:200]}")

# C14
@dataclass
class S1:
    a: List[int]
@dataclass
class D1:
    a: Optional[List[str]]
t("C14 List[int] -> Optional[List[str]]", lambda: get_converter(S1, D1)(S1([1])))
@dataclass
class D2:
    a: Union[List[str], int]
t("C14 List[int] -> Union[List[str], int]", lambda: get_converter(S1, D2)(S1([1])))
@dataclass
class D3:
    a: List[str]
t("C14 List[int] -> List[str]", lambda: get_converter(S1, D3)(S1([1])))

# C19
@dataclass
class A:
    x: int
@dataclass
class B:
    x: int
import builtins
flag = []
builtins.__dict__['_canary'] = lambda: flag.append(1)
t("C19 converter name injection", lambda: get_converter(A, B, name="f(src, /): pass\n_canary()\ndef g")(A(1)))
print("  canary fired:", flag)
class E(Enum):
    X = 1
def mk():
    @impl_converter
    def conv(a: A, e: E = E.X) -> B: ...
    return conv(A(1))
t("C19 impl_converter default enum", mk)
class Evil:
    def __repr__(self): return "_canary()"
flag.clear()
def mk2():
    @impl_converter
    def conv(a: A, e: Any = Evil()) -> B: ...
    return conv(A(1))
t("C19 impl_converter evil default repr", mk2)
print("  canary fired:", flag)

# keyword class name
KW = make_dataclass('class', [('x', int)])
t("C19 dst class named 'class'", lambda: get_converter(A, KW)(A(1)))
t("C19 loader class named 'class'", lambda: Retort().load({'x': 1}, KW))
# TypedDict with keyword key
TD = TypedDict('TD', {'class': int, 'x': int})
t("C19 TypedDict keyword key loader", lambda: Retort().load({'class': 1, 'x': 2}, TD))
t("C19 TypedDict keyword key dumper", lambda: Retort().dump({'class': 1, 'x': 2}, TD))
# hostile keys
@dataclass
class H:
    data: int
    errors: int
    sentinel: int
    constructor: int
    loader_data: int = 0
t("C19 hostile field names load", lambda: Retort().load({'data': 1, 'errors': 2, 'sentinel': 3, 'constructor': 4}, H))
t("C19 hostile field names dump", lambda: Retort().dump(H(1,2,3,4), H))
t("C19 hostile mapped keys", lambda: Retort(recipe=[name_mapping(H, map={'data': "a'\"\\\n{}$x${y}", 'errors': ('k"', 0, "z\n")})]).dump(H(1,2,3,4), H))
r = Retort(recipe=[name_mapping(H, map={'data': "a'\"\\\n{}$x${y}", 'errors': ('k"', 0, "z\n")})])
t("C19 hostile mapped keys roundtrip", lambda: r.load(r.dump(H(1,2,3,4), H), H))
# link_constant Decimal
@dataclass
class B2:
    x: int
    d: Decimal
t("C13 link_constant Decimal(1)", lambda: get_converter(A, B2, recipe=[link_constant(P[B2].d, value=Decimal('1'))])(A(1)))
