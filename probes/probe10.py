from dataclasses import dataclass, field
from typing import *
from adaptix import Retort, DebugTrail, name_mapping, ExtraForbid
from adaptix.load_error import LoadError
from adaptix.struct_trail import get_trail, ItemKey

@dataclass
class In:
    x: int
    y: int = 0
@dataclass
class M:
    a: int
    items: List[In]
    d: Dict[int, In]
    t: Tuple[int, In]
    o: Optional[In] = None

def leaves(e, prefix=()):
    tr = prefix + tuple(get_trail(e))
    if hasattr(e, 'exceptions'):
        out = []
        for s in e.exceptions:
            out += leaves(s, tr)
        return out
    return [(tr, type(e).__name__)]

data = {'a': 'bad', 'items': [{'x': 1}, {'x': 'q'}, {'y': 2}, 5], 'd': {'k': {'x': 1}, 3: {'x': 'z'}}, 't': ['w', {'x': []}], 'o': {'x': None}}
for nm in (None, name_mapping(M, map={'items': ('nest', 'its'), 'a': ('nest', 'l', 1), 'd': 'D'}), name_mapping(In, as_list=True)):
    for dt in (DebugTrail.ALL, DebugTrail.FIRST, DebugTrail.DISABLE):
        r = Retort(debug_trail=dt, recipe=[nm] if nm else [])
        dd = data
        if nm is not None and dt == DebugTrail.ALL:
            pass
        try:
            r.load(dd, M)
        except Exception as e:
            for l in leaves(e): print(dt.name, 'nm' if nm else '--', l)
    print()
