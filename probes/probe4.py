import threading, time
from dataclasses import dataclass, field
from typing import *
from adaptix import Retort, P, DebugTrail, name_mapping, loader, Provider
from adaptix.load_error import LoadError

def t(label, f):
    try:
        r = f()
        print(f"[{label}] OK ->", repr(r))
    except LoadError as e:
        print(f"[{label}] LoadError {type(e).__name__}")
    except BaseException as e:
        print(f"[{label}] !!! {type(e).__name__}: {str(e)[:200]}")

# C06 tuple iterator across modes
for dt in DebugTrail:
    for sc in (True, False):
        t(f"C06 Tuple[int,int] gen dt={dt.name} sc={sc}", lambda: Retort(debug_trail=dt, strict_coercion=sc).load((i for i in (1,2)), Tuple[int,int]))
for dt in DebugTrail:
    t(f"C06 List[int] gen dt={dt.name}", lambda: Retort(debug_trail=dt).load((i for i in (1,2)), List[int]))
    t(f"C06 Tuple[int,int] set dt={dt.name}", lambda: Retort(debug_trail=dt).load({1,2}, Tuple[int,int]))

# C17 sqlalchemy key vs name
from sqlalchemy.orm import DeclarativeBase, Mapped, mapped_column
class Base(DeclarativeBase): pass
class U(Base):
    __tablename__ = 'u'
    id: Mapped[int] = mapped_column("user_id", primary_key=True)
    name: Mapped[str] = mapped_column("user_name")
from adaptix._internal.model_tools.introspection.sqlalchemy import get_sqlalchemy_shape
sh = get_sqlalchemy_shape(U)
print("C17 sqlalchemy input ids:", [f.id for f in sh.input.fields], "output ids:", [f.id for f in sh.output.fields])
t("C17 sqlalchemy dump", lambda: Retort().dump(U(id=1, name='x'), U))
t("C17 sqlalchemy load", lambda: Retort().load({'id': 1, 'name': 'x'}, U))

# Annotated cache
from adaptix._internal.type_tools import normalize_type
a = normalize_type(Annotated[int, 0]); b = normalize_type(Annotated[int, False])
print("C15 Annotated[int,0] / Annotated[int,False]:", a.args, b.args, Annotated[int,0] == Annotated[int, False])
print("C15 Literal hint eq:", Literal[0] == Literal[False], List[Literal[0]] == List[Literal[False]])
