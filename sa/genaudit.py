"""Static audit of programs emitted by the model code generators (tier G).

The emitted text is parsed and walked in program order with a small def-use state; nothing is executed.  The
summaries are compared with the crown / shape the harness handed to the generator (translation validation).
"""
from __future__ import annotations

import ast
from dataclasses import dataclass, field
from typing import Any, Dict, List, Optional, Set, Tuple

from .core import AnalysisError, norm

Path = Tuple[Any, ...]


# ---------------------------------------------------------------------------------------------- crown helpers
def crown_fields(c: dict, path: Path = ()) -> Dict[str, Path]:
    out: Dict[str, Path] = {}
    if c["t"] == "field":
        out[c["id"]] = path
    elif c["t"] == "dict":
        for k, v in c["map"].items():
            out.update(crown_fields(v, path + (k,)))
    elif c["t"] == "list":
        for i, v in enumerate(c["map"]):
            out.update(crown_fields(v, path + (i,)))
    return out


def crown_nodes(c: dict, path: Path = ()) -> Dict[Path, dict]:
    out: Dict[Path, dict] = {}
    if c["t"] in ("dict", "list"):
        out[path] = c
        items = c["map"].items() if c["t"] == "dict" else enumerate(c["map"])
        for k, v in items:
            out.update(crown_nodes(v, path + (k,)))
    return out


def crown_nones(c: dict, path: Path = ()) -> Dict[Path, dict]:
    out: Dict[Path, dict] = {}
    if c["t"] == "none":
        out[path] = c
    elif c["t"] in ("dict", "list"):
        items = c["map"].items() if c["t"] == "dict" else enumerate(c["map"])
        for k, v in items:
            out.update(crown_nones(v, path + (k,)))
    return out


# ---------------------------------------------------------------------------------------------- loader audit
@dataclass
class FieldRead:
    field_id: str
    path: Optional[Path]
    via: str                 # 'loader' | 'as-is' | 'extra' | 'const'
    target: str              # 'f_<id>' | "packed:<name>"
    lineno: int
    trail: Optional[Tuple[str, Any]] = None   # (append|extend|none, path) annotation of the handler around it
    in_try: bool = False


@dataclass
class LoaderSummary:
    node_vars: Dict[str, Path] = field(default_factory=dict)          # data var -> path
    reads: List[FieldRead] = field(default_factory=list)
    defaults: Dict[str, List[str]] = field(default_factory=dict)       # field id -> default expressions assigned
    rejects: List[Tuple[str, Optional[Path], Optional[Tuple[str, Any]], int, str]] = field(default_factory=list)
    # (error class, node path, trail, lineno, construct)
    extra_inits: Dict[str, str] = field(default_factory=dict)          # extra var -> init expr
    extra_copies: List[Tuple[str, str, str, int]] = field(default_factory=list)   # (extra var, data var, keyset expr, line)
    extra_links: List[Tuple[str, Any, str, bool, int]] = field(default_factory=list)  # (parent extra, key, child, conditional, line)
    forbid_checks: List[Tuple[str, str, int]] = field(default_factory=list)       # (data var, keyset expr, line)
    len_checks: List[Tuple[str, str, int, int]] = field(default_factory=list)      # (data var, op, N, line)
    type_checks: List[Tuple[str, str, int]] = field(default_factory=list)          # (data var, test text, line)
    ctor_calls: List[ast.Call] = field(default_factory=list)
    ctor_in_return: bool = False
    saturator_calls: List[ast.Call] = field(default_factory=list)
    stores_into_data: List[Tuple[str, int]] = field(default_factory=list)
    containers_created: Dict[str, str] = field(default_factory=dict)    # var -> creating expression text
    problems: List[Tuple[str, int]] = field(default_factory=list)
    absence: List[Tuple[Optional[Path], str, int]] = field(default_factory=list)   # (looked-up path, decision, line)
    # how the presence of an OPTIONAL key is probed: 'contains' (`k in data`), 'subscript' (try data[k] / except KeyError without
    # a rejection), 'get' (.get(k, sentinel)); the three differ on mappings with __missing__ (defaultdict, Counter)
    probes: List[Tuple[Optional[Path], str, int]] = field(default_factory=list)
    forbid_guards: List[Tuple[str, List[str], Optional[str], int]] = field(default_factory=list)
    # (data var, tests of the ifs that enclose the unknown-key computation, test guarding the rejection, line)


def access_try_scopes(fn: ast.FunctionDef, prefixes=("loader_", "dumper_")) -> List[Tuple[str, str, int]]:
    """(handler classes, field function called in the guarded body, line) for every field-function call that is exposed to a
    handler catching a specific access error (KeyError/AttributeError/IndexError/TypeLoadError...): such a handler means
    'the field/node is absent or ill-typed' and may see exceptions of the access only, never of the field function.  A call is
    exposed to the handlers of an enclosing try when no try in between catches Exception."""
    parents: Dict[int, ast.AST] = {}
    for p in ast.walk(fn):
        for c in ast.iter_child_nodes(p):
            parents[id(c)] = p
    out = []
    for c in ast.walk(fn):
        if not (isinstance(c, ast.Call) and isinstance(c.func, ast.Name) and c.func.id.startswith(prefixes)):
            continue
        child: ast.AST = c
        p = parents.get(id(c))
        while p is not None and p is not fn:
            if isinstance(p, ast.Try) and any(child is b for b in p.body):
                names = [norm(h.type).split(".")[-1] if h.type is not None else "bare" for h in p.handlers]
                flat = []
                for h in p.handlers:
                    if h.type is None:
                        flat.append("bare")
                    elif isinstance(h.type, ast.Tuple):
                        flat += [norm(e).split(".")[-1] for e in h.type.elts]
                    else:
                        flat.append(norm(h.type).split(".")[-1])
                specific = [n for n in flat if n not in ("Exception", "BaseException", "LoadError", "bare")]
                if specific:
                    out.append((", ".join(specific), c.func.id, c.lineno))
                if any(n in ("Exception", "BaseException", "bare") for n in flat):
                    break
            child = p
            p = parents.get(id(p))
    return out


def _const(e: ast.expr):
    if isinstance(e, ast.Constant):
        return e.value
    raise KeyError


def _trail_of(call: ast.expr) -> Tuple[Optional[Tuple[str, Any]], ast.expr]:
    """unwrap append_trail(x, k) / extend_trail(x, (..)) -> ((kind, path), inner)"""
    if isinstance(call, ast.Call) and isinstance(call.func, ast.Name) and call.func.id in ("append_trail", "extend_trail") \
            and len(call.args) == 2:
        try:
            v = ast.literal_eval(call.args[1])
        except Exception:
            v = norm(call.args[1])
        kind = "append" if call.func.id == "append_trail" else "extend"
        return (kind, v), call.args[0]
    return None, call


def audit_loader(fn: ast.FunctionDef) -> LoaderSummary:
    S = LoaderSummary()
    var_path: Dict[str, Path] = {"data": ()}
    getter_of: Optional[str] = None
    parents: Dict[int, ast.AST] = {}
    for p in ast.walk(fn):
        for c in ast.iter_child_nodes(p):
            parents[id(c)] = p

    def src_path(e: ast.expr) -> Optional[Path]:
        if isinstance(e, ast.Name) and e.id in var_path:
            return var_path[e.id]
        if isinstance(e, ast.Subscript) and isinstance(e.value, ast.Name) and e.value.id in var_path:
            try:
                return var_path[e.value.id] + (_const(e.slice),)
            except KeyError:
                return None
        return None

    def handler_trail(node: ast.AST) -> Tuple[bool, Optional[Tuple[str, Any]]]:
        """is node inside a try body, and which trail do its `except Exception` handlers attach"""
        p = parents.get(id(node))
        child = node
        while p is not None and p is not fn:
            if isinstance(p, ast.Try) and any(child is s for s in p.body):
                for h in p.handlers:
                    for c in ast.walk(h):
                        t, inner = _trail_of(c) if isinstance(c, ast.Call) else (None, c)
                        if t is not None and isinstance(inner, ast.Name) and inner.id == h.name:
                            return True, t
                    # handler that uses the exception without trail
                    if h.type is not None and "Exception" in norm(h.type):
                        return True, ("none", None)
                return True, None
            child = p
            p = parents.get(id(p))
        return False, None

    stmts = sorted([n for n in ast.walk(fn) if isinstance(n, ast.stmt) and n is not fn], key=lambda n: (n.lineno, n.col_offset))
    for st in stmts:
        if isinstance(st, ast.Assign) and len(st.targets) == 1:
            tgt, val = st.targets[0], st.value
            # node / raw value extraction
            if isinstance(tgt, ast.Name):
                name = tgt.id
                sp = src_path(val) if isinstance(val, ast.Subscript) else None
                if isinstance(val, ast.Attribute) and val.attr == "get" and isinstance(val.value, ast.Name) and name == "getter":
                    getter_of = val.value.id
                    continue
                if isinstance(val, ast.Call) and isinstance(val.func, ast.Name) and val.func.id == "getter" and val.args:
                    if getter_of is not None and getter_of in var_path:
                        try:
                            var_path[name] = var_path[getter_of] + (_const(val.args[0]),)
                        except KeyError:
                            S.problems.append((f"getter call with non constant key: {norm(val)}", st.lineno))
                    # how absence of the key is decided: .get(key, sentinel) followed by an identity test with the sentinel
                    dflt = norm(val.args[1]) if len(val.args) > 1 else None
                    blk = _block_of(parents.get(id(st)), st)
                    nxt = blk[blk.index(st) + 1] if blk and blk.index(st) + 1 < len(blk) else None
                    par = parents.get(id(st))
                    if nxt is None and isinstance(par, ast.Try) and par.body == [st] and par.orelse:
                        nxt = par.orelse[0]     # try: value = getter(..) except <unexpected>: ... else: if value is sentinel
                    test = norm(nxt.test) if isinstance(nxt, ast.If) else None
                    if dflt == "sentinel" and test in (f"{name} is sentinel", f"{name} is not sentinel"):
                        S.absence.append((var_path.get(name), "key-missing", st.lineno))
                    else:
                        S.absence.append((var_path.get(name), f"other: {norm(val)} / {test}", st.lineno))
                    continue
                if sp is not None and (name.startswith("data_") or name.startswith("r_") or name == "value"):
                    var_path[name] = sp
                    tr = parents.get(id(st))
                    if isinstance(tr, ast.Try) and any(st is b for b in tr.body):
                        hs = sorted({norm(h.type) if h.type is not None else "bare" for h in tr.handlers})
                        only = len(tr.body) == 1
                        if name == "value":
                            S.absence.append((sp, "key-missing" if (hs == ["KeyError"] and only) else f"other: except {hs} over {len(tr.body)} stmts",
                                              st.lineno))
                    if name.startswith("data_"):
                        S.node_vars[name] = sp
                    continue
                if name.startswith("extra") and not name.endswith("_set"):
                    S.extra_inits[name] = norm(val)
                    S.containers_created[name] = norm(val)
                    continue
                if name.endswith("_set") and name.startswith("extra"):
                    # extra_k_set = set(data_k) - known_keys_k
                    if isinstance(val, ast.BinOp) and isinstance(val.op, ast.Sub) and isinstance(val.left, ast.Call) \
                            and norm(val.left.func) == "set" and val.left.args:
                        S.forbid_checks.append((norm(val.left.args[0]), norm(val.right), st.lineno))
                        encl = []
                        p_ = parents.get(id(st))
                        while p_ is not None and p_ is not fn:
                            if isinstance(p_, ast.If):
                                encl.append(norm(p_.test))
                            p_ = parents.get(id(p_))
                        # the statement that uses the set: `if <set>: raise/collect ExtraFieldsLoadError(<set>, data)`
                        blk = _block_of(parents.get(id(st)), st)
                        nxt = blk[blk.index(st) + 1] if blk and blk.index(st) + 1 < len(blk) else None
                        guard = norm(nxt.test) if isinstance(nxt, ast.If) and "ExtraFieldsLoadError" in norm(nxt) else (
                            "<unconditional>" if nxt is not None and "ExtraFieldsLoadError" in norm(nxt) else None)
                        S.forbid_guards.append((name, encl, guard, st.lineno))
                    else:
                        S.problems.append((f"unrecognised extra-set computation: {norm(st)}", st.lineno))
                    continue
                if name in ("errors", "packed_fields", "opt_fields", "result"):
                    S.containers_created[name] = norm(val)
                    if name != "result":
                        continue
                if name.startswith("f_"):
                    fid = name[2:]
                    _record_field_assign(S, fid, f"f_{fid}", val, st, src_path, handler_trail)
                    continue
                if name == "result" and isinstance(val, ast.Call) and isinstance(val.func, ast.Name) and val.func.id == "constructor":
                    S.ctor_calls.append(val)
                    continue
            elif isinstance(tgt, ast.Subscript) and isinstance(tgt.value, ast.Name):
                base = tgt.value.id
                if base == "packed_fields":
                    try:
                        pname = _const(tgt.slice)
                    except KeyError:
                        S.problems.append((f"packed_fields with non constant key: {norm(st)}", st.lineno))
                        continue
                    _record_field_assign(S, None, f"packed:{pname}", val, st, src_path, handler_trail)
                    continue
                if base.startswith("extra"):
                    # extra_k[key] = data_k[key]   |   parent_extra['n'] = extra_child
                    if isinstance(tgt.slice, ast.Name) and isinstance(val, ast.Subscript) and isinstance(val.value, ast.Name) \
                            and norm(val.slice) == tgt.slice.id:
                        loop = parents.get(id(st))
                        ks = norm(loop.iter) if isinstance(loop, ast.For) else "?"
                        S.extra_copies.append((base, val.value.id, ks, st.lineno))
                    elif isinstance(val, ast.Name) and val.id.startswith("extra"):
                        try:
                            key = _const(tgt.slice)
                        except KeyError:
                            key = norm(tgt.slice)
                        cond = isinstance(parents.get(id(st)), ast.If)
                        S.extra_links.append((base, key, val.id, cond, st.lineno))
                    else:
                        S.problems.append((f"unrecognised store into extras: {norm(st)}", st.lineno))
                    continue
                if base in var_path or base == "data":
                    S.stores_into_data.append((norm(st), st.lineno))
                    continue
        elif isinstance(st, ast.If):
            t = st.test
            txt = norm(t)
            # len checks
            for c in ast.walk(t):
                if isinstance(c, ast.Compare) and isinstance(c.left, ast.Call) and norm(c.left.func) == "len" and c.left.args \
                        and isinstance(c.comparators[0], ast.Constant):
                    S.len_checks.append((norm(c.left.args[0]), type(c.ops[0]).__name__, c.comparators[0].value, st.lineno))
            if "isinstance(" in txt or txt.startswith("type("):
                names = [n.id for n in ast.walk(t) if isinstance(n, ast.Name) and (n.id in var_path)]
                if names:
                    S.type_checks.append((names[0], txt, st.lineno))
        elif isinstance(st, ast.Return):
            if isinstance(st.value, ast.Call) and isinstance(st.value.func, ast.Name) and st.value.func.id == "constructor":
                S.ctor_calls.append(st.value)
                S.ctor_in_return = True
        elif isinstance(st, ast.Expr) and isinstance(st.value, ast.Call):
            c = st.value
            if isinstance(c.func, ast.Name) and c.func.id == "saturator":
                S.saturator_calls.append(c)
            if isinstance(c.func, ast.Attribute) and isinstance(c.func.value, ast.Name) and c.func.value.id in var_path \
                    and c.func.attr in ("pop", "popitem", "clear", "update", "setdefault", "append", "remove", "sort", "reverse"):
                S.stores_into_data.append((norm(st), st.lineno))
        elif isinstance(st, ast.Delete):
            for t in st.targets:
                if isinstance(t, ast.Subscript) and isinstance(t.value, ast.Name) and t.value.id in var_path:
                    S.stores_into_data.append((norm(st), st.lineno))
        # rejects: raise X(...) / errors.append(X(...)) possibly wrapped in trail calls / AggregateLoadError([...])
        for node in ([st] if isinstance(st, (ast.Raise, ast.Expr)) else []):
            expr = node.exc if isinstance(node, ast.Raise) else node.value
            if expr is None:
                continue
            if isinstance(node, ast.Expr):
                if not (isinstance(expr, ast.Call) and norm(expr.func) == "errors.append" and expr.args):
                    continue
                expr = expr.args[0]
            _record_reject(S, expr, st.lineno, var_path)
    # probes of optional keys
    for node in ast.walk(fn):
        if isinstance(node, ast.If) and isinstance(node.test, ast.Compare) and len(node.test.ops) == 1 \
                and isinstance(node.test.ops[0], (ast.In, ast.NotIn)) and isinstance(node.test.left, ast.Constant) \
                and isinstance(node.test.comparators[0], ast.Name) and node.test.comparators[0].id in var_path:
            S.probes.append((var_path[node.test.comparators[0].id] + (node.test.left.value,), "contains", node.lineno))
        elif isinstance(node, ast.Try) and len(node.body) == 1 and isinstance(node.body[0], ast.Assign):
            v = node.body[0].value
            if isinstance(v, ast.Subscript) and isinstance(v.value, ast.Name) and v.value.id in var_path and isinstance(v.slice, ast.Constant):
                for h in node.handlers:
                    hn = norm(h.type) if h.type is not None else "bare"
                    rejects = any(isinstance(x, ast.Raise) for x in ast.walk(h)) or any(
                        isinstance(x, ast.Call) and isinstance(x.func, ast.Attribute) and x.func.attr == "append"
                        and norm(x.func.value) == "errors" for x in ast.walk(h))
                    if hn in ("KeyError", "LookupError") and not rejects:
                        S.probes.append((var_path[v.value.id] + (v.slice.value,), "subscript", node.lineno))
    for pth, dec, line in S.absence:
        if dec == "key-missing" and pth is not None and not any(p == pth for p, _k, _l in S.probes):
            S.probes.append((pth, "get", line))
    return S


def _block_of(parent: Optional[ast.AST], st: ast.stmt) -> Optional[List[ast.stmt]]:
    if parent is None:
        return None
    for attr in ("body", "orelse", "finalbody"):
        blk = getattr(parent, attr, None)
        if isinstance(blk, list) and any(st is b for b in blk):
            return blk
    if isinstance(parent, ast.Try):
        for h in parent.handlers:
            if any(st is b for b in h.body):
                return h.body
    return None


def _record_field_assign(S: LoaderSummary, fid, target: str, val: ast.expr, st: ast.stmt, src_path, handler_trail) -> None:
    in_try, trail = handler_trail(st)
    if isinstance(val, ast.Call) and isinstance(val.func, ast.Name) and val.func.id.startswith("loader_") and len(val.args) == 1:
        lf = val.func.id[len("loader_"):]
        arg = val.args[0]
        if isinstance(arg, ast.Name) and arg.id.startswith("extra"):
            S.reads.append(FieldRead(lf, None, "extra", target, st.lineno, trail, in_try))
        elif isinstance(arg, ast.Dict) and not arg.keys:
            S.reads.append(FieldRead(lf, None, "const", target, st.lineno, trail, in_try))
        else:
            S.reads.append(FieldRead(lf, src_path(arg), "loader", target, st.lineno, trail, in_try))
        if fid is not None and lf != fid:
            S.problems.append((f"variable {target} is filled by the loader of field `{lf}`", st.lineno))
        return
    sp = src_path(val)
    if sp is not None and fid is not None:
        S.reads.append(FieldRead(fid, sp, "as-is", target, st.lineno, trail, in_try))
        return
    if sp is not None and fid is None:
        S.reads.append(FieldRead("?", sp, "as-is", target, st.lineno, trail, in_try))
        return
    if fid is not None:
        S.defaults.setdefault(fid, []).append(norm(val))
    elif target.startswith("packed:"):
        S.defaults.setdefault(target, []).append(norm(val))


def _record_reject(S: LoaderSummary, expr: ast.expr, lineno: int, var_path: Dict[str, Path]) -> None:
    trail, inner = _trail_of(expr)
    if isinstance(inner, ast.Call) and isinstance(inner.func, ast.Name) and inner.func.id in ("AggregateLoadError", "CompatExceptionGroup"):
        # group raised immediately with one rendered error inside
        for c in ast.walk(inner):
            if isinstance(c, ast.Call) and isinstance(c.func, ast.Name) and c.func.id == "render_trail_as_note" and c.args:
                t2, in2 = _trail_of(c.args[0])
                if isinstance(in2, ast.Call):
                    _record_reject(S, c.args[0], lineno, var_path)
        return
    if isinstance(inner, ast.Call) and isinstance(inner.func, ast.Name) and inner.func.id.endswith("LoadError"):
        node_path: Optional[Path] = None
        for a in reversed(inner.args):
            if isinstance(a, ast.Name) and a.id in var_path:
                node_path = var_path[a.id]
                break
        S.rejects.append((inner.func.id, node_path, trail, lineno, norm(inner)))


# ---------------------------------------------------------------------------------------------- dumper audit
@dataclass
class DumperSummary:
    field_sources: Dict[str, Tuple[str, str, int, bool]] = field(default_factory=dict)
    # f var / opt key -> (field id, access expr, line, passed through its dumper)
    tree: Dict[Path, Tuple[str, Any, Optional[str], int]] = field(default_factory=dict)
    # path -> (kind: field|opt-field|node|placeholder|expr, payload, condition text, lineno)
    node_kinds: Dict[Path, str] = field(default_factory=dict)            # path -> dict | list
    node_conds: Dict[Path, str] = field(default_factory=dict)            # path of a nested node written only when <cond>
    return_expr: Optional[str] = None
    extra_source: Optional[str] = None
    stores_into_data: List[Tuple[str, int]] = field(default_factory=list)
    containers_created: Dict[str, str] = field(default_factory=dict)
    extra_stack_sources: List[Tuple[Optional[str], str, bool, int]] = field(default_factory=list)  # (field, access, dumped, line)
    trails: List[Tuple[str, Any, int]] = field(default_factory=list)
    problems: List[Tuple[str, int]] = field(default_factory=list)


def audit_dumper(fn: ast.FunctionDef) -> DumperSummary:
    S = DumperSummary()
    parents: Dict[int, ast.AST] = {}
    for p in ast.walk(fn):
        for c in ast.iter_child_nodes(p):
            parents[id(c)] = p
    var_node: Dict[str, Dict[Any, Tuple[str, Any, Optional[str], int]]] = {}   # result var -> {key: entry}
    var_kind: Dict[str, str] = {}
    field_of_var: Dict[str, str] = {}
    value_is: Optional[Tuple[str, Any]] = None
    last_dumped = False
    raw_dumped: Dict[str, bool] = {}

    def access_field(e: ast.expr) -> Optional[Tuple[str, str]]:
        """(field id guess, access text) for dumper_x(data.attr) / data.attr / data['k'] / r_x / accessor_getter_x(data)"""
        inner = e
        fid = None
        nonlocal last_dumped
        last_dumped = False
        if isinstance(e, ast.Call) and isinstance(e.func, ast.Name) and e.func.id.startswith("dumper_") and len(e.args) == 1:
            fid = e.func.id[len("dumper_"):]
            inner = e.args[0]
            last_dumped = True
        if isinstance(inner, ast.Name) and inner.id.startswith("r_"):
            return fid or inner.id[2:], "raw:" + inner.id[2:]
        if isinstance(inner, ast.Attribute) and isinstance(inner.value, ast.Name) and inner.value.id == "data":
            return fid, "attr:" + inner.attr
        if isinstance(inner, ast.Subscript) and isinstance(inner.value, ast.Name) and inner.value.id == "data":
            return fid, "item:" + norm(inner.slice)
        if isinstance(inner, ast.Call) and isinstance(inner.func, ast.Name) and inner.func.id == "getattr" and inner.args \
                and norm(inner.args[0]) == "data":
            return fid, "attr:" + str(ast.literal_eval(inner.args[1]))
        if isinstance(inner, ast.Call) and isinstance(inner.func, ast.Name) and inner.func.id.startswith("accessor_getter_"):
            return fid or inner.func.id[len("accessor_getter_"):], "getter:" + inner.func.id
        return None

    def entry_for(e: ast.expr, cond: Optional[str], line: int) -> Tuple[str, Any, Optional[str], int]:
        if isinstance(e, ast.Name):
            if e.id.startswith("f_"):
                return ("field", e.id[2:], cond, line)
            if e.id.startswith("result"):
                return ("node", e.id, cond, line)
            if e.id == "value" and value_is is not None:
                return (value_is[0], value_is[1], cond, line)
            if e.id.startswith("placeholder"):
                return ("placeholder", e.id, cond, line)
        if isinstance(e, ast.Call) and isinstance(e.func, ast.Name) and e.func.id.startswith("placeholder"):
            return ("placeholder", norm(e), cond, line)
        if isinstance(e, (ast.Constant, ast.List, ast.Dict, ast.Tuple, ast.Set)) or (
                isinstance(e, ast.Call) and isinstance(e.func, ast.Name) and e.func.id in ("set", "frozenset", "bytearray")):
            return ("placeholder", norm(e), cond, line)
        return ("expr", norm(e), cond, line)

    stmts = sorted([n for n in ast.walk(fn) if isinstance(n, ast.stmt) and n is not fn], key=lambda n: (n.lineno, n.col_offset))
    for st in stmts:
        if isinstance(st, ast.Assign) and len(st.targets) == 1:
            tgt, val = st.targets[0], st.value
            if isinstance(tgt, ast.Name):
                name = tgt.id
                if name.startswith("f_") or name.startswith("r_") or name == "extra":
                    af = access_field(val)
                    if af is not None:
                        fid = af[0] or name[2:]
                        if name.startswith("f_"):
                            field_of_var[name] = fid
                            S.field_sources[name] = (fid, af[1], st.lineno, last_dumped)
                        elif name.startswith("r_"):
                            S.field_sources[name] = (name[2:], af[1], st.lineno, last_dumped)
                        else:
                            S.extra_source = f"field:{fid}:{af[1]}"
                        continue
                    if name == "extra":
                        S.extra_source = norm(val)
                        S.containers_created["extra"] = norm(val)
                        continue
                if name in ("errors", "opt_fields", "extra_stack"):
                    S.containers_created[name] = norm(val)
                    continue
                if name.startswith("result"):
                    S.containers_created[name] = type(val).__name__
                    if isinstance(val, ast.Dict):
                        var_kind[name] = "dict"
                        var_node[name] = {}
                        for k, v in zip(val.keys, val.values):
                            if k is None:
                                S.problems.append((f"dict unpacking inside node display {norm(st)[:60]}", st.lineno))
                                continue
                            try:
                                key = _const(k)
                            except KeyError:
                                S.problems.append((f"non constant key in node display: {norm(k)}", st.lineno))
                                continue
                            if key in var_node[name]:
                                S.problems.append((f"key {key!r} written twice into {name}", st.lineno))
                            var_node[name][key] = entry_for(v, None, st.lineno)
                    elif isinstance(val, ast.List):
                        var_kind[name] = "list"
                        var_node[name] = {i: entry_for(v, None, st.lineno) for i, v in enumerate(val.elts)}
                    else:
                        S.problems.append((f"node variable built by unexpected expression: {norm(st)[:80]}", st.lineno))
                    continue
                if name == "value":
                    # value = opt_fields['x']  |  value = placeholder_k()
                    if isinstance(val, ast.Subscript) and norm(val.value) == "opt_fields":
                        value_is = ("opt-field", ast.literal_eval(val.slice))
                    else:
                        e = entry_for(val, None, st.lineno)
                        value_is = (e[0], e[1])
                    continue
            elif isinstance(tgt, ast.Subscript) and isinstance(tgt.value, ast.Name):
                base = tgt.value.id
                if base == "opt_fields":
                    af = access_field(val)
                    key = ast.literal_eval(tgt.slice)
                    if af is not None:
                        S.field_sources[f"opt:{key}"] = (af[0] or key, af[1], st.lineno, last_dumped)
                    else:
                        S.problems.append((f"unrecognised optional field extraction {norm(st)[:80]}", st.lineno))
                    continue
                if base.startswith("result"):
                    try:
                        key = _const(tgt.slice)
                    except KeyError:
                        S.problems.append((f"non constant key store {norm(st)[:80]}", st.lineno))
                        continue
                    # enclosing condition (sieve)
                    cond = None
                    p = parents.get(id(st))
                    while p is not None and p is not fn:
                        if isinstance(p, ast.If) and any(st is s for s in p.body):
                            cond = norm(p.test)
                            break
                        p = parents.get(id(p))
                    var_node.setdefault(base, {})
                    if key in var_node[base]:
                        S.problems.append((f"key {key!r} written twice into {base}", st.lineno))
                    var_node[base][key] = entry_for(val, cond, st.lineno)
                    continue
                if base == "data":
                    S.stores_into_data.append((norm(st), st.lineno))
                    continue
            elif isinstance(tgt, ast.Attribute) and norm(tgt.value) == "data":
                S.stores_into_data.append((norm(st), st.lineno))
        elif isinstance(st, ast.Return) and st.value is not None:
            S.return_expr = norm(st.value)
        elif isinstance(st, ast.Expr) and isinstance(st.value, ast.Call):
            c = st.value
            if isinstance(c.func, ast.Attribute) and norm(c.func.value) == "extra_stack":
                if c.func.attr != "append" or len(c.args) != 1:
                    S.problems.append((f"unexpected operation on extra_stack: {norm(st)[:80]}", st.lineno))
                else:
                    af = access_field(c.args[0])
                    if af is None:
                        S.problems.append((f"unrecognised extras extraction {norm(st)[:80]}", st.lineno))
                    else:
                        S.extra_stack_sources.append((af[0], af[1], last_dumped, st.lineno))
            if isinstance(c.func, ast.Attribute) and norm(c.func.value) == "data" and c.func.attr in (
                    "pop", "popitem", "clear", "update", "setdefault", "append", "remove", "sort", "reverse", "__setitem__"):
                S.stores_into_data.append((norm(st), st.lineno))
        for c in (ast.walk(st) if isinstance(st, (ast.Expr, ast.Raise)) else []):
            if isinstance(c, ast.Call):
                t, inner = _trail_of(c)
                if t is not None:
                    S.trails.append((t[0], t[1], st.lineno))

    # assemble the tree from the root variable
    def build(var: str, path: Path, seen: Set[str]) -> None:
        if var in seen:
            S.problems.append((f"node variable {var} used twice", 0))
            return
        seen.add(var)
        S.node_kinds[path] = var_kind.get(var, "dict")
        for key, ent in var_node.get(var, {}).items():
            if ent[0] == "node":
                if ent[2] is not None:
                    S.node_conds[path + (key,)] = ent[2]
                build(ent[1], path + (key,), seen)
            else:
                S.tree[path + (key,)] = ent
    if "result" in var_node:
        build("result", (), set())
    else:
        S.problems.append(("no root result node", 0))
    # resolve field entries to field ids
    for p, ent in list(S.tree.items()):
        if ent[0] == "field":
            fid = field_of_var.get("f_" + ent[1], ent[1])
            S.tree[p] = ("field", fid, ent[2], ent[3])
    return S
