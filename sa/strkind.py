"""String-kind inference for generator templates (C19): what kind of text does an expression evaluate to?

Kinds (a set of them is returned; the hole is safe only if every member is allowed at that position):
  CONST      string constant written in the generator
  CODE       code text assembled from constants and safe holes (results of naming helpers, nested templates)
  INT        integer or its decimal text
  REPR       repr()-produced literal of a key-like value
  LITERAL    result of the audited literal renderers (get_literal_expr & co)
  SANITIZED  result of NameSanitizer.sanitize
  IDENT      validated python identifier (field id, Param.name): isidentifier() only, may be a keyword
  IDENT_KW   identifier that also cannot be a keyword (inspect.Parameter names)
  KEY        external key / path element / attribute name: arbitrary user text
  KEYTUPLE   tuple of KEYs (crown path)
  USER       other user controlled text (function names, str(Signature), str(type))
  OBJ        not a string at all (field object, crown, ...) – only meaningful under attribute access
  UNKNOWN    engine cannot tell
"""
from __future__ import annotations

import ast
from typing import Dict, FrozenSet, List, Optional, Sequence, Set, Tuple

from .core import ClassInfo, ModuleInfo, Repo, func_params, norm, walk_no_nested
from .values import FnCtx, Resolver, ctx_for

Kinds = FrozenSet[str]


def K(*names: str) -> Kinds:
    return frozenset(names)


KEY_ANNOTATIONS = {"CrownPathElem": "KEY", "CrownPath": "KEYTUPLE", "int": "INT", "bool": "INT"}
IDENT_ATTRS = {"id", "field_id"}
KEY_ATTRS = {"attr_name", "key", "_attr_name"}
PATH_ATTRS = {"path", "_path", "parent_path", "_parent_path"}
LITERAL_FUNCS = {"get_literal_expr", "get_literal_from_factory", "_provide_lit_expr", "_get_complex_literal_expr",
                 "_parenthesize"}
SAFE_TEXT = {"CONST", "CODE", "INT", "REPR", "LITERAL", "SANITIZED"}
LOSSY_METHODS = {"sub", "subn", "replace", "translate", "lower", "upper", "casefold", "title", "capitalize", "strip",
                 "lstrip", "rstrip", "encode", "normalize", "removeprefix", "removesuffix", "swapcase", "expandtabs",
                 "zfill", "center", "ljust", "rjust", "hexdigest", "hash", "crc32", "md5"}


class StrKind:
    def __init__(self, repo: Repo, resolver: Resolver):
        self.repo = repo
        self.R = resolver
        self._memo: Dict[Tuple, Kinds] = {}
        self._inflight: Set[Tuple] = set()
        self._ret_memo: Dict[Tuple, Kinds] = {}
        self._ret_inflight: Set[Tuple] = set()
        self._cuts = 0
        self._param_env: Dict[int, List[Dict[str, Kinds]]] = {}
        self.trace: Dict[int, str] = {}

    # ------------------------------------------------------------------ public
    def classify(self, expr: ast.expr, fctx: Optional[FnCtx], module: Optional[ModuleInfo] = None, depth: int = 0) -> Kinds:
        module = module or (fctx.module if fctx else None)
        key = (id(expr), id(fctx.fn) if fctx else 0, self._envsig(fctx))
        if key in self._memo:
            return self._memo[key]
        if key in self._inflight or depth > 24:
            self._cuts += 1
            return K()
        self._inflight.add(key)
        cuts0 = self._cuts
        try:
            res = self._classify(expr, fctx, module, depth)
        finally:
            self._inflight.discard(key)
        if self._cuts == cuts0:
            self._memo[key] = res
        return res

    def _envsig(self, fctx: Optional[FnCtx]):
        c = fctx
        sig = []
        while c is not None:
            st = self._param_env.get(id(c.fn))
            if st:
                sig.append(tuple(sorted((k, tuple(sorted(v))) for k, v in st[-1].items())))
            c = c.outer
        return tuple(sig)

    # ------------------------------------------------------------------ core
    def _classify(self, e: ast.expr, fctx: Optional[FnCtx], module: ModuleInfo, depth: int) -> Kinds:
        if isinstance(e, ast.Constant):
            if isinstance(e.value, str):
                return K("CONST")
            if isinstance(e.value, (int, bool)):
                return K("INT")
            if e.value is None:
                return K("NONE")
            return K("CONST")
        if isinstance(e, ast.JoinedStr):
            return self.template_kind(e, fctx, module, depth)
        if isinstance(e, ast.Name):
            return self._name(e, fctx, module, depth)
        if isinstance(e, ast.Attribute):
            return self._attr(e, fctx, module, depth)
        if isinstance(e, ast.Subscript) and isinstance(e.slice, ast.Slice):
            inner = self.classify(e.value, fctx, module, depth + 1)
            if inner & {"IDENT", "IDENT_KW", "KEY"}:
                return K("IDENT_LOSSY")  # truncation is not injective
            return inner
        if isinstance(e, ast.Subscript):
            fact = self._dict_value_kind(e.value, fctx, depth + 1)
            if fact not in (K("OBJ"), K("UNKNOWN")):
                return fact
            base = self.classify(e.value, fctx, module, depth + 1)
            out: Set[str] = set()
            for b in base:
                if b == "KEYTUPLE":
                    out.add("KEY")
                elif b in ("DICT:INT", "DICT:CODE", "DICT:IDENT"):
                    out.add(b.split(":")[1])
                elif b == "PARAMS":
                    out.add("PARAM_KW")
                elif b == "OBJ":
                    out.add("OBJ")
                else:
                    out.add(b if b in ("KEY", "USER", "UNKNOWN") else "UNKNOWN")
            return frozenset(out) or K("UNKNOWN")
        if isinstance(e, ast.BinOp) and isinstance(e.op, ast.Add):
            l = self.classify(e.left, fctx, module, depth + 1)
            r = self.classify(e.right, fctx, module, depth + 1)
            return self._concat(l, r)
        if isinstance(e, ast.BinOp) and isinstance(e.op, ast.Mod):
            return K("UNKNOWN")
        if isinstance(e, ast.IfExp):
            return self.classify(e.body, fctx, module, depth + 1) | self.classify(e.orelse, fctx, module, depth + 1)
        if isinstance(e, ast.BoolOp):
            out2: Set[str] = set()
            for v in e.values:
                out2 |= self.classify(v, fctx, module, depth + 1)
            return frozenset(out2)
        if isinstance(e, ast.Call):
            return self._call(e, fctx, module, depth)
        if isinstance(e, (ast.Tuple, ast.List, ast.Dict, ast.Set, ast.ListComp)):
            # displays made of constants / empty displays only: repr() of them is a literal
            elts: List[ast.expr] = []
            if isinstance(e, ast.Dict):
                elts = [x for x in list(e.keys) + list(e.values) if x is not None]
            elif isinstance(e, ast.ListComp):
                elts = [e.elt]
            else:
                elts = list(e.elts)
            kinds: Set[str] = set()
            for x in elts:
                kinds |= self.classify(x, fctx, module, depth + 1)
            if kinds <= {"LISTLIT", "NONE", "INT", "CONST"}:
                return K("LISTLIT")
            return K("OBJ")
        if isinstance(e, ast.Starred):
            return self.classify(e.value, fctx, module, depth + 1)
        return K("UNKNOWN")

    @staticmethod
    def _concat(l: Kinds, r: Kinds) -> Kinds:
        both = l | r
        if both <= SAFE_TEXT:
            return K("CODE") if both != K("CONST") else K("CONST")
        # a validated identifier glued to fixed text stays as dangerous as its worst part
        return frozenset(k for k in both if k not in SAFE_TEXT) or K("CODE")

    # ------------------------------------------------------------------ templates
    def hole_verdict(self, js: ast.JoinedStr, idx: int, fctx: Optional[FnCtx], module: ModuleInfo, depth: int = 0,
                     comment: bool = False) -> Tuple[bool, Kinds, str]:
        """(ok, kinds, reason) for the idx-th value (a FormattedValue) of the f-string."""
        fv = js.values[idx]
        assert isinstance(fv, ast.FormattedValue)
        kinds = self.classify(fv.value, fctx, module, depth + 1)
        prev = js.values[idx - 1].value if idx > 0 and isinstance(js.values[idx - 1], ast.Constant) else ""
        nxt = js.values[idx + 1].value if idx + 1 < len(js.values) and isinstance(js.values[idx + 1], ast.Constant) else ""
        if not kinds:
            return True, kinds, "recursive"
        if fv.conversion == ord("r"):
            # USER is user controlled *text* (str or None): its repr() is a string literal
            bad = kinds - {"KEY", "KEYTUPLE", "IDENT", "IDENT_KW", "PARAM_KW", "INT", "CONST", "CODE", "SANITIZED",
                           "LISTLIT", "REPR", "LITERAL", "NONE", "USER"}
            if bad:
                return False, kinds, f"repr() of {sorted(bad)} is not a literal of a closed type"
            return True, kinds, "!r"
        bad2: List[str] = []
        if "KEY" in kinds and self._guarded_by_isidentifier(js, fv.value, module):
            kinds = (kinds - {"KEY"}) | {"IDENT"}
        if "IDENT" in kinds and self.guarded_not_keyword(js, fv.value, module):
            kinds = (kinds - {"IDENT"}) | {"IDENT_KW"}
        for k in kinds:
            if k in SAFE_TEXT or k in ("IDENT_KW", "PARAM_KW", "NONE", "SIGNATURE_FIXED"):
                continue
            if k == "IDENT_LOSSY":
                bad2.append("variable name derived from a field id by a non-injective transformation: two different "
                            "fields can share one generated variable (silently wrong values or a duplicate-key failure)")
                continue
            if k == "SIGNATURE":
                bad2.append("str(inspect.Signature) renders parameter defaults with repr(): text chosen by the "
                            "default's __repr__ becomes code")
                continue
            if k == "IDENT":
                if _has_ident_prefix(prev):
                    continue
                if comment:
                    continue
                if prev.endswith("."):
                    continue  # attribute position: python itself forbids keyword-named attributes in class bodies
                bad2.append("IDENT without fixed prefix (a keyword such as `class` or a name used by the template "
                            "itself breaks the program)")
                continue
            if k in ("KEY", "KEYTUPLE"):
                bad2.append("external key interpolated without !r")
                continue
            if k == "USER":
                bad2.append("user controlled text interpolated as code")
                continue
            if k == "OBJ":
                bad2.append("object interpolated through str()")
                continue
            bad2.append(k)
        if bad2:
            return False, kinds, "; ".join(sorted(set(bad2)))
        return True, kinds, "ok"

    def _guarded_by_isidentifier(self, node: ast.AST, expr: ast.expr, module: ModuleInfo) -> bool:
        want = norm(expr) + ".isidentifier()"
        p = module.parent(node)
        child = node
        while p is not None and not isinstance(p, (ast.FunctionDef, ast.Lambda)):
            if isinstance(p, ast.If) and norm(p.test) == want and any(child is st for st in p.body):
                return True
            child = p
            p = module.parent(p)
        return False

    def guarded_not_keyword(self, node: ast.AST, expr: ast.expr, module: ModuleInfo) -> bool:
        """node sits where `iskeyword(<expr>)` is known to be false (else branch / body of the negated test)."""
        want = {f"iskeyword({norm(expr)})", f"keyword.iskeyword({norm(expr)})"}
        p = module.parent(node)
        child: ast.AST = node
        while p is not None and not isinstance(p, (ast.FunctionDef, ast.Lambda)):
            if isinstance(p, ast.If):
                t = p.test
                neg = isinstance(t, ast.UnaryOp) and isinstance(t.op, ast.Not)
                txt = norm(t.operand) if neg else norm(t)
                if txt in want:
                    in_body = any(child is st for st in p.body)
                    in_else = any(child is st for st in p.orelse)
                    if (neg and in_body) or (not neg and in_else):
                        return True
                # a repo predicate that IMPLIES "not a keyword": `def f(name): return not iskeyword(name) and ...`, tested positively
                core = t.operand if neg else t
                if isinstance(core, ast.Call) and isinstance(core.func, ast.Name) and len(core.args) == 1 and norm(core.args[0]) == norm(expr) \
                        and self._implies_not_keyword(core.func.id, module):
                    in_body = any(child is st for st in p.body)
                    in_else = any(child is st for st in p.orelse)
                    if (not neg and in_body) or (neg and in_else):
                        return True
            child = p
            p = module.parent(p)
        return False

    def _implies_not_keyword(self, fname: str, module: ModuleInfo) -> bool:
        r = self.repo.resolve_global(module, fname)
        fn = getattr(r, "node", None) if getattr(r, "kind", None) == "func" else None
        if not isinstance(fn, ast.FunctionDef) or not fn.args.args:
            return False
        p0 = fn.args.args[0].arg
        rets = [x for x in ast.walk(fn) if isinstance(x, ast.Return) and x.value is not None]
        if len(rets) != 1:
            return False
        v = rets[0].value
        conj = v.values if isinstance(v, ast.BoolOp) and isinstance(v.op, ast.And) else [v]
        return any(isinstance(c, ast.UnaryOp) and isinstance(c.op, ast.Not) and norm(c.operand) in (f"iskeyword({p0})", f"keyword.iskeyword({p0})")
                   for c in conj)

    def template_kind(self, js: ast.JoinedStr, fctx, module, depth) -> Kinds:
        out: Set[str] = set()
        text0 = "".join(v.value for v in js.values if isinstance(v, ast.Constant))
        comment = text0.lstrip().startswith("#")
        for i, v in enumerate(js.values):
            if isinstance(v, ast.FormattedValue):
                ok, kinds, _why = self.hole_verdict(js, i, fctx, module, depth, comment)
                if not ok:
                    if "UNKNOWN" in kinds:
                        out.add("UNKNOWN")
                    out |= {k for k in kinds if k in ("KEY", "KEYTUPLE", "USER", "OBJ")} or {"USER"}
        return frozenset(out) if out else K("CODE")

    # ------------------------------------------------------------------ names
    def _name(self, e: ast.Name, fctx: Optional[FnCtx], module: ModuleInfo, depth: int) -> Kinds:
        name = e.id
        c = fctx
        while c is not None:
            b = self.R.bindings(c.fn)
            if name in b:
                dom = self._dominating_assignment(c, name, e) if c is fctx else None
                if dom is not None:
                    return self.classify(dom, c, c.module, depth + 1)
                out: Set[str] = set()
                for kind, payload in b[name]:
                    if kind == "param":
                        out |= self._param(c, name, depth + 1)
                    elif kind in ("assign", "aug"):
                        out |= self.classify(payload, c, c.module, depth + 1)
                    elif kind == "assign_unpack":
                        value, path = payload
                        out |= self._unpack(value, path, c, depth + 1)
                    elif kind == "elem":
                        out |= self._elem(payload, (), c, depth + 1)
                    elif kind == "elem_unpack":
                        it, path = payload
                        out |= self._elem(it, path, c, depth + 1)
                    elif kind == "def":
                        out.add("OBJ")
                    else:
                        out.add("OBJ")
                return frozenset(out) or K("UNKNOWN")
            c = c.outer
        r = self.repo.resolve_global(module, name)
        if r.kind == "value" and r.module is not None:
            return self.classify(r.node, None, r.module, depth + 1)
        if r.kind in ("func", "class", "ext", "module"):
            return K("OBJ")
        return K("UNKNOWN")

    def _dominating_assignment(self, c: FnCtx, name: str, use: ast.AST) -> Optional[ast.expr]:
        """Latest assignment to `name` at the top level of the function body that precedes the statement containing
        the use (straight-line dominance)."""
        fn = c.fn
        if isinstance(fn, ast.Lambda):
            return None
        use_line = getattr(use, "lineno", 0)
        best = None
        for st in fn.body:
            if st.lineno > use_line:
                break
            end = getattr(st, "end_lineno", st.lineno)
            if st.lineno <= use_line <= end and not isinstance(st, (ast.Assign, ast.AnnAssign)):
                break
            if isinstance(st, ast.Assign) and len(st.targets) == 1 and isinstance(st.targets[0], ast.Name) \
                    and st.targets[0].id == name and end < use_line:
                best = st.value
            elif isinstance(st, ast.AnnAssign) and isinstance(st.target, ast.Name) and st.target.id == name \
                    and st.value is not None and end < use_line:
                best = st.value
        return best

    def _unpack(self, value: ast.expr, path: Tuple[int, ...], c: FnCtx, depth: int) -> Kinds:
        v = value
        for i in path:
            if isinstance(v, (ast.Tuple, ast.List)) and i < len(v.elts):
                v = v.elts[i]
            else:
                return K("UNKNOWN")
        return self.classify(v, c, c.module, depth + 1)

    def _elem(self, it: ast.expr, path: Tuple[int, ...], c: FnCtx, depth: int) -> Kinds:
        """kind of a loop target over `it`"""
        if isinstance(it, ast.Call):
            f = it.func
            if isinstance(f, ast.Name) and f.id == "enumerate" and it.args:
                if path[:1] == (0,):
                    return K("INT")
                return self._elem(it.args[0], path[1:], c, depth + 1)
            if isinstance(f, ast.Name) and f.id == "zip" and path and path[0] < len(it.args):
                return self._elem(it.args[path[0]], path[1:], c, depth + 1)
            if isinstance(f, ast.Name) and f.id in ("reversed", "sorted", "list", "tuple", "iter") and it.args:
                return self._elem(it.args[0], path, c, depth + 1)
            if isinstance(f, ast.Attribute) and f.attr in ("items", "keys", "values") and not it.args:
                base = f.value
                want_key = f.attr == "keys" or (f.attr == "items" and path[:1] == (0,))
                if want_key:
                    return self._dict_key_kind(base, c, depth + 1)
                return self._dict_value_kind(base, c, depth + 1)
            if isinstance(f, ast.Name) and f.id == "filter" and len(it.args) == 2:
                return self._elem(it.args[1], path, c, depth + 1)
            if norm(f) in ("itertools.count", "count", "range"):
                return K("INT")
        if isinstance(it, ast.Name):
            va = self._vararg_elems(it.id, c, depth + 1)
            if va is not None:
                return va
            # a local bound to a comprehension / display: element kind is the kind of its element expression
            b = self.R.bindings(c.fn).get(it.id, [])
            if b and all(k == "assign" for k, _ in b):
                out0: Set[str] = set()
                okall = True
                for _, payload in b:
                    if isinstance(payload, (ast.ListComp, ast.GeneratorExp, ast.SetComp)):
                        out0 |= self.classify(payload.elt, c, c.module, depth + 1)
                    elif isinstance(payload, (ast.List, ast.Tuple, ast.Set)):
                        for x in payload.elts:
                            out0 |= self.classify(x, c, c.module, depth + 1)
                    else:
                        okall = False
                if okall:
                    return frozenset(out0)
        kinds = self.classify(it, c, c.module, depth + 1)
        out: Set[str] = set()
        for k in kinds:
            if k == "KEYTUPLE":
                out.add("KEY")
            elif k == "PARAMS":
                out.add("PARAM_KW" if not path else "UNKNOWN")
            elif k == "IDENTS":
                out.add("IDENT")
            else:
                out.add("OBJ" if k == "OBJ" else "UNKNOWN")
        return frozenset(out) or K("OBJ")

    def _vararg_elems(self, name: str, c: FnCtx, depth: int) -> Optional[Kinds]:
        fn = c.fn
        if isinstance(fn, ast.Lambda) or fn.args.vararg is None or fn.args.vararg.arg != name:
            return None
        st = self._param_env.get(id(fn))
        if st and ("*" + name) in st[-1]:
            return st[-1]["*" + name]
        a = fn.args
        pos = [x.arg for x in a.posonlyargs + a.args]
        if c.cls is not None and c.outer is None and pos and pos[0] in ("self", "cls"):
            pos = pos[1:]
        out: Set[str] = set()
        for call, cctx, shift in self.R.call_sites(c):
            for x in call.args[shift:][len(pos):]:
                cm = cctx.module if cctx is not None else c.module
                out |= self.classify(x, cctx, cm, depth + 1)
        return frozenset(out) or K("UNKNOWN")

    def _dict_key_kind(self, base: ast.expr, c: FnCtx, depth: int) -> Kinds:
        t = norm(base)
        last = t.rsplit(".", 1)[-1]
        if last == "map":
            return K("KEY")          # crown.map: external keys
        if last in ("path_to_suffix",):
            return K("KEYTUPLE")
        if last in ("field_id_to_path", "_field_loaders", "_fields_dumpers", "fields_dict", "_id_to_field",
                    "_name_to_field"):
            return K("IDENT")        # keyed by field.id (validated identifiers)
        if last in ("namespace", "all_constants", "_constants", "_outer_constants"):
            return K("CODE")         # names registered through add_constant: checked at the registration sites
        if last == "sieves":
            return K("KEY")
        if last == "parameters":
            return K("PARAM_KW")
        return K("UNKNOWN")

    def _dict_value_kind(self, base: ast.expr, c, depth: int) -> Kinds:
        t = norm(base)
        last = t.rsplit(".", 1)[-1]
        if last == "path_to_suffix":
            return K("INT")          # verified by the store-site rule of C19 (values are str(<counter>))
        if last == "_prefix_counter":
            return K("INT")
        if last == "field_id_to_path":
            return K("KEYTUPLE")
        if last == "parameters":
            return K("PARAMOBJ")
        return K("OBJ")

    # ------------------------------------------------------------------ parameters
    def _param(self, c: FnCtx, name: str, depth: int) -> Kinds:
        fn = c.fn
        if isinstance(fn, ast.Lambda):
            return K("UNKNOWN")
        ann = None
        a = fn.args
        for arg in a.posonlyargs + a.args + a.kwonlyargs:
            if arg.arg == name and arg.annotation is not None:
                ann = norm(arg.annotation)
        if name in ("self", "cls"):
            return K("OBJ")
        st = self._param_env.get(id(fn))
        if st and name in st[-1]:
            return st[-1][name]
        if ann is not None:
            base = ann.split("[")[0]
            if base in KEY_ANNOTATIONS:
                return K(KEY_ANNOTATIONS[base])
            if base not in ("str", "Optional", "Union", "object", "Any"):
                if base == "Signature":
                    return self._signature_param(c, name, depth)
                if "Parameter" in ann:
                    return K("PARAMS") if ("Sequence" in ann or "Iterable" in ann) else K("PARAMOBJ")
                return K("OBJ")
        sites = self.R.call_sites(c)
        if not sites:
            if ann == "str" and name in ("closure_name",):
                return K("USER")
            return K("UNKNOWN")
        pos = [x.arg for x in a.posonlyargs + a.args]
        is_method = c.cls is not None and c.outer is None
        if is_method and pos and pos[0] in ("self", "cls"):
            pos = pos[1:]
        out: Set[str] = set()
        for call, cctx, shift in sites:
            args = call.args[shift:]
            bound = None
            if name in pos and pos.index(name) < len(args):
                bound = args[pos.index(name)]
            for kw in call.keywords:
                if kw.arg == name:
                    bound = kw.value
            if bound is None:
                d = Resolver._default_of(fn, name)
                if d is not None:
                    out |= self.classify(d, None, c.module, depth + 1)
                else:
                    out.add("UNKNOWN")
                continue
            cm = cctx.module if cctx is not None else c.module
            out |= self.classify(bound, cctx, cm, depth + 1)
        return frozenset(out) or K("UNKNOWN")

    def _signature_param(self, c: FnCtx, name: str, depth: int) -> Kinds:
        """SIGNATURE_FIXED when every visible call site passes Signature(parameters=[Parameter(<const>, <kind>), ...])
        without defaults; SIGNATURE (user chosen names/defaults) otherwise."""
        sites = self.R.call_sites(c)
        if not sites:
            return K("SIGNATURE")
        for call, cctx, shift in sites:
            bound = None
            for kw in call.keywords:
                if kw.arg == name:
                    bound = kw.value
            if bound is None:
                a = c.fn.args
                pos = [x.arg for x in a.posonlyargs + a.args]
                if c.cls is not None and c.outer is None and pos and pos[0] in ("self", "cls"):
                    pos = pos[1:]
                args = call.args[shift:]
                if name in pos and pos.index(name) < len(args):
                    bound = args[pos.index(name)]
            if not self._is_fixed_signature(bound):
                return K("SIGNATURE")
        return K("SIGNATURE_FIXED")

    @staticmethod
    def _is_fixed_signature(e: Optional[ast.expr]) -> bool:
        if not (isinstance(e, ast.Call) and norm(e.func) in ("Signature", "inspect.Signature")):
            return False
        params = next((k.value for k in e.keywords if k.arg == "parameters"), e.args[0] if e.args else None)
        if not isinstance(params, (ast.List, ast.Tuple)):
            return False
        for p in params.elts:
            if not (isinstance(p, ast.Call) and norm(p.func) in ("Parameter", "inspect.Parameter") and p.args
                    and isinstance(p.args[0], ast.Constant) and isinstance(p.args[0].value, str)
                    and p.args[0].value.isidentifier()):
                return False
            if any(k.arg == "default" for k in p.keywords):
                return False
        return True

    # ------------------------------------------------------------------ attributes
    def _attr(self, e: ast.Attribute, fctx: Optional[FnCtx], module: ModuleInfo, depth: int) -> Kinds:
        attr = e.attr
        if attr in IDENT_ATTRS:
            return K("IDENT")
        narrowed = self._isinstance_narrowing(e, module)
        if narrowed is not None:
            ctor = self._field_from_ctor(attr, depth + 1, only_class=narrowed)
            if ctor is not None:
                return ctor
        if attr in KEY_ATTRS:
            return K("KEY")
        if attr in PATH_ATTRS:
            return K("KEYTUPLE")
        base_kinds = self.classify(e.value, fctx, module, depth + 1) if not isinstance(e.value, ast.Name) or \
            e.value.id not in ("self", "cls") else K("SELF")
        if attr == "name":
            if "PARAM_KW" in base_kinds or "PARAMOBJ" in base_kinds:
                return K("IDENT_KW")
            return K("IDENT")       # Param.name: validated by isidentifier() only
        if attr == "parameters":
            return K("PARAMS")
        if attr in ("__name__", "__qualname__", "function_name"):
            return K("USER")
        if attr == "fields" and "extra_move" in norm(e.value):
            return K("IDENTS")      # ExtraTargets.fields are checked against shape.fields_dict (get_wild_extra_targets)
        # property / method / NamedTuple field of a repo class
        out: Set[str] = set()
        for bav in self.R.resolve(e.value, fctx, module):
            if bav[0] in ("instance", "self", "cls") and isinstance(bav[1], ClassInfo):
                meth = self.repo.find_method(bav[1], attr)
                if meth is not None:
                    out |= self.returns_kind(ctx_for(self.repo, meth[0].module, meth[1]), depth + 1)
        if out:
            return frozenset(out)
        avs = self.R.resolve(e, fctx, module)
        for av in avs:
            if av[0] == "func":
                out |= self.returns_kind(ctx_for(self.repo, av[2], av[1]), depth + 1)
            elif av[0] == "provided":
                out.add("OBJ")
        if out:
            return frozenset(out)
        # NamedTuple / dataclass field: look at constructor sites of classes that declare this field
        ctor = self._field_from_ctor(attr, depth + 1)
        if ctor is not None:
            return ctor
        # instance attribute assigned in methods of some class
        ia = self._instance_attr(attr, fctx, depth + 1)
        if ia is not None:
            return ia
        return K("OBJ") if "OBJ" in base_kinds or "SELF" in base_kinds else K("UNKNOWN")

    def _isinstance_narrowing(self, e: ast.Attribute, module: ModuleInfo) -> Optional[str]:
        """class name C when the attribute access sits under `if isinstance(<base>, C)`"""
        base = norm(e.value)
        p = module.parent(e)
        child: ast.AST = e
        while p is not None and not isinstance(p, (ast.FunctionDef, ast.Lambda)):
            if isinstance(p, ast.If) and any(child is st for st in p.body):
                t = p.test
                if isinstance(t, ast.Call) and isinstance(t.func, ast.Name) and t.func.id == "isinstance" \
                        and len(t.args) == 2 and norm(t.args[0]) == base and isinstance(t.args[1], ast.Name):
                    return t.args[1].id
            child = p
            p = module.parent(p)
        return None

    def _field_from_ctor(self, attr: str, depth: int, only_class: Optional[str] = None) -> Optional[Kinds]:
        out: Set[str] = set()
        found = False
        for ci in self.repo.all_classes():
            fields = [st.target.id for st in ci.node.body if isinstance(st, ast.AnnAssign) and isinstance(st.target, ast.Name)]
            if only_class is not None:
                if ci.name != only_class or attr not in fields:
                    continue
            elif attr not in fields or not any(norm(b) in ("NamedTuple",) for b in ci.base_exprs):
                continue
            idx = fields.index(attr)
            for call, m in self.R._calls(ci.name):
                if isinstance(call.func, ast.Name) and call.func.id == ci.name:
                    found = True
                    bound = call.args[idx] if idx < len(call.args) else None
                    for kw in call.keywords:
                        if kw.arg == attr:
                            bound = kw.value
                    if bound is None:
                        out.add("UNKNOWN")
                        continue
                    fn = m.enclosing_function(call)
                    cctx = ctx_for(self.repo, m, fn) if fn is not None else None
                    out |= self.classify(bound, cctx, m, depth + 1)
        return frozenset(out) if found else None

    def _instance_attr(self, attr: str, fctx: Optional[FnCtx], depth: int) -> Optional[Kinds]:
        if fctx is None or fctx.cls is None:
            return None
        out: Set[str] = set()
        found = False
        for c in self.repo.mro(fctx.cls):
            for m in c.methods.values():
                for node in walk_no_nested(m, include_root=False):
                    if isinstance(node, (ast.Assign, ast.AnnAssign, ast.AugAssign)):
                        targets = node.targets if isinstance(node, ast.Assign) else [node.target]
                        for t in targets:
                            if isinstance(t, ast.Attribute) and isinstance(t.value, ast.Name) and t.value.id == "self" \
                                    and t.attr == attr and node.value is not None:
                                found = True
                                out |= self.classify(node.value, ctx_for(self.repo, c.module, m), c.module, depth + 1)
        return frozenset(out) if found else None

    def returns_kind(self, fctx: FnCtx, depth: int = 0, env: Optional[Dict[str, Kinds]] = None) -> Kinds:
        if env is not None:
            self._param_env.setdefault(id(fctx.fn), []).append(env)
            try:
                return self._returns_kind(fctx, depth)
            finally:
                self._param_env[id(fctx.fn)].pop()
        return self._returns_kind(fctx, depth)

    def _returns_kind(self, fctx: FnCtx, depth: int = 0) -> Kinds:
        key = (id(fctx.fn), self._envsig(fctx))
        if key in self._ret_memo:
            return self._ret_memo[key]
        if key in self._ret_inflight:
            self._cuts += 1
            return K()
        self._ret_inflight.add(key)
        cuts0 = self._cuts
        fn = fctx.fn
        out: Set[str] = set()
        if isinstance(fn, ast.Lambda):
            out |= self.classify(fn.body, fctx, fctx.module, depth + 1)
        else:
            for node in walk_no_nested(fn, include_root=False):
                if isinstance(node, ast.Return) and node.value is not None:
                    out |= self.classify(node.value, fctx, fctx.module, depth + 1)
        res = frozenset(out) or K("NONE")
        self._ret_inflight.discard(key)
        if self._cuts == cuts0:
            self._ret_memo[key] = res
        return res

    # ------------------------------------------------------------------ calls
    def _call(self, e: ast.Call, fctx: Optional[FnCtx], module: ModuleInfo, depth: int) -> Kinds:
        f = e.func
        fname = f.id if isinstance(f, ast.Name) else (f.attr if isinstance(f, ast.Attribute) else "")
        if fname in LOSSY_METHODS:
            # a non-injective transformation of an identifier/key: two distinct field ids can map to one name
            operands = [f.value] if isinstance(f, ast.Attribute) else []
            operands += list(e.args)
            kinds_in: Set[str] = set()
            for o in operands:
                kinds_in |= self.classify(o, fctx, module, depth + 1)
            if kinds_in & {"IDENT", "IDENT_KW", "PARAM_KW", "KEY"}:
                return K("IDENT_LOSSY")
        if fname in LITERAL_FUNCS:
            return K("LITERAL")
        if fname == "sanitize":
            return K("SANITIZED")
        if fname == "len":
            return K("INT")
        if fname == "getattr" and len(e.args) >= 2 and isinstance(e.args[1], ast.Constant) \
                and e.args[1].value in ("__name__", "__qualname__"):
            return K("USER")
        if fname == "str" and e.args:
            inner = self.classify(e.args[0], fctx, module, depth + 1)
            return frozenset("USER" if k in ("OBJ",) else k for k in inner)
        if fname == "repr" and e.args:
            inner = self.classify(e.args[0], fctx, module, depth + 1)
            if inner <= {"KEY", "KEYTUPLE", "IDENT", "IDENT_KW", "INT", "CONST"}:
                return K("REPR")
            return K("USER")
        if fname == "list" and e.args:
            inner = self.classify(e.args[0], fctx, module, depth + 1)
            if inner <= {"KEYTUPLE"}:
                return K("REPR")     # str(list_of_keys) reprs its elements
            return K("OBJ")
        if fname == "unparse":
            return K("CODE")
        if fname == "join" and isinstance(f, ast.Attribute) and e.args:
            sep = self.classify(f.value, fctx, module, depth + 1)
            arg = e.args[0]
            if isinstance(arg, (ast.GeneratorExp, ast.ListComp)):
                # element kind evaluated inside the comprehension scope
                elt = self._comp_elt_kind(arg, fctx, module, depth + 1)
            else:
                elt = self._elem(arg, (), fctx, depth + 1) if fctx is not None else K("UNKNOWN")
            if sep <= SAFE_TEXT and elt <= (SAFE_TEXT | {"IDENT_KW", "PARAM_KW"}):
                return K("CODE")
            return frozenset(k for k in elt if k not in SAFE_TEXT) or K("UNKNOWN")
        if fname == "substitute" and isinstance(f, ast.Attribute) and isinstance(f.value, ast.Call) \
                and norm(f.value.func) in ("Template", "string.Template") and f.value.args:
            t = self.classify(f.value.args[0], fctx, module, depth + 1)
            out: Set[str] = set(t)
            for kw in e.keywords:
                out |= self.classify(kw.value, fctx, module, depth + 1)
            if frozenset(out) <= SAFE_TEXT:
                return K("CODE")
            return frozenset(k for k in out if k not in SAFE_TEXT)
        if fname == "replace" and isinstance(f, ast.Attribute):
            base = self.classify(f.value, fctx, module, depth + 1)
            if "SIGNATURE" in base:
                params = next((k.value for k in e.keywords if k.arg == "parameters"), None)
                if params is not None and fctx is not None and self._defaults_neutralised(params, fctx, depth + 1):
                    return K("SIGNATURE_FIXED")
                return K("SIGNATURE")
            if "SIGNATURE_FIXED" in base:
                return K("SIGNATURE_FIXED")
            return base
        if isinstance(f, ast.Attribute) and fname in ("encode", "decode", "strip", "lstrip", "rstrip", "lower", "upper", "title",
                                                      "casefold", "expandtabs", "translate", "removeprefix", "removesuffix", "center",
                                                      "ljust", "rjust", "zfill", "swapcase", "capitalize"):
            # text -> text: whatever the receiver was it still is (hand-made escaping does not make user text code-safe: a
            # quote-escaped class name inside an f-string literal still opens replacement fields with `{`)
            return self.classify(f.value, fctx, module, depth + 1)
        if fname in ("tuple", "values") and (e.args or isinstance(f, ast.Attribute)):
            inner = self.classify(e.args[0] if e.args else f.value, fctx, module, depth + 1)
            if "PARAMS" in inner:
                return K("PARAMS")
            return K("OBJ")
        # repo function / method: one level of call-site sensitivity (parameters bound to this site's arguments)
        avs = self.R.resolve(f, fctx, module)
        out2: Set[str] = set()
        for av in avs:
            if av[0] == "func":
                cctx = ctx_for(self.repo, av[2], av[1])
                out2 |= self.returns_kind(cctx, depth + 1, env=self._bind_args(cctx, e, fctx, module, depth + 1))
            elif av[0] == "cls":
                out2.add("OBJ")
            elif av[0] == "ext":
                out2.add("OBJ")
        return frozenset(out2) or K("UNKNOWN")

    def _bind_args(self, callee: FnCtx, call: ast.Call, fctx: Optional[FnCtx], module: ModuleInfo, depth: int):
        fn = callee.fn
        if isinstance(fn, ast.Lambda):
            return None
        a = fn.args
        pos = [x.arg for x in a.posonlyargs + a.args]
        is_method = callee.cls is not None and callee.outer is None
        if is_method and pos and pos[0] in ("self", "cls"):
            pos = pos[1:]
        env: Dict[str, Kinds] = {}
        if any(isinstance(x, ast.Starred) for x in call.args) or any(k.arg is None for k in call.keywords):
            return None
        for i, x in enumerate(call.args):
            if i < len(pos):
                env[pos[i]] = self.classify(x, fctx, module, depth + 1)
        if a.vararg is not None:
            extra: Set[str] = set()
            for x in call.args[len(pos):]:
                extra |= self.classify(x, fctx, module, depth + 1)
            env["*" + a.vararg.arg] = frozenset(extra) or K("NONE")
        names = set(pos) | {x.arg for x in a.kwonlyargs}
        for kw in call.keywords:
            if kw.arg in names:
                env[kw.arg] = self.classify(kw.value, fctx, module, depth + 1)
        # parameters left to their defaults
        for n in names - set(env):
            d = Resolver._default_of(fn, n)
            if d is not None:
                env[n] = self.classify(d, None, callee.module, depth + 1)
        # annotation-typed parameters keep their annotation kind (objects)
        for n in list(env):
            if env[n] <= {"OBJ"}:
                del env[n]
        return env

    def _defaults_neutralised(self, params: ast.expr, fctx: FnCtx, depth: int) -> bool:
        """The parameter list handed to Signature.replace was built by a loop that replaces every non-empty default
        by an instance of a repo class whose __repr__ is code-kind text (a namespace name)."""
        if not isinstance(params, ast.Name) or isinstance(fctx.fn, ast.Lambda):
            return False
        lst = params.id
        for loop in walk_no_nested(fctx.fn):
            if not isinstance(loop, ast.For) or not isinstance(loop.target, ast.Name):
                continue
            var = loop.target.id
            appends = [n for n in ast.walk(loop) if isinstance(n, ast.Call) and isinstance(n.func, ast.Attribute)
                       and n.func.attr == "append" and isinstance(n.func.value, ast.Name) and n.func.value.id == lst]
            if not appends:
                continue
            # every appended value derives from the loop variable
            if not all(any(isinstance(x, ast.Name) and x.id == var for x in ast.walk(a)) for a in appends):
                return False
            for st in loop.body:
                if isinstance(st, ast.If) and "default" in norm(st.test) and "empty" in norm(st.test) \
                        and isinstance(st.test, ast.Compare) and isinstance(st.test.ops[0], (ast.IsNot, ast.NotEq)):
                    for sub in st.body:
                        if isinstance(sub, ast.Assign) and any(isinstance(t, ast.Name) and t.id == var for t in sub.targets) \
                                and isinstance(sub.value, ast.Call) and isinstance(sub.value.func, ast.Attribute) \
                                and sub.value.func.attr == "replace":
                            dv = next((k.value for k in sub.value.keywords if k.arg == "default"), None)
                            if isinstance(dv, ast.Call) and isinstance(dv.func, ast.Name):
                                r = self.repo.resolve_global(fctx.module, dv.func.id)
                                if r.kind == "class" and r.cls is not None and self._repr_is_code(r.cls, depth + 1):
                                    # the If must precede the append in the loop body
                                    if st.lineno < min(a.lineno for a in appends):
                                        return True
            return False
        return False

    def _repr_is_code(self, ci: ClassInfo, depth: int) -> bool:
        meth = self.repo.find_method(ci, "__repr__")
        if meth is None:
            return False
        kinds = self.returns_kind(ctx_for(self.repo, meth[0].module, meth[1]), depth + 1)
        return bool(kinds) and kinds <= SAFE_TEXT

    def _comp_elt_kind(self, comp, fctx: Optional[FnCtx], module: ModuleInfo, depth: int) -> Kinds:
        # bindings() of the enclosing function already contains the comprehension targets (walk_no_nested descends)
        return self.classify(comp.elt, fctx, module, depth + 1)


IDENT_PREFIXES = ("f_", "r_", "loader_", "dumper_", "dfl_", "accessor_getter_", "trail_element_", "access_error_",
                  "g_", "constant_", "func_", "accessor_")


def _has_ident_prefix(prev: str) -> bool:
    import re
    m = re.search(r"([A-Za-z_][A-Za-z_0-9]*)$", prev)
    if not m:
        return False
    tok = m.group(1)
    return any(tok == p for p in IDENT_PREFIXES)
