"""Shared engine: repository index, name resolution, findings, evidence.

Pure stdlib `ast`.  Nothing from adaptix is imported or executed here.
"""
from __future__ import annotations

import ast
import builtins
import hashlib
import json
import os
import sys
import time
from dataclasses import dataclass, field
from pathlib import Path
from typing import Any, Dict, Iterable, Iterator, List, Optional, Sequence, Tuple, Union

VERIF_ROOT = Path(__file__).resolve().parent.parent
PKG = "adaptix"


class AnalysisError(Exception):
    """The engine cannot decide: vanished anchor, unparseable construct, count below floor."""


# --------------------------------------------------------------------------------------------------
# repository index


@dataclass
class ClassInfo:
    module: "ModuleInfo"
    node: ast.ClassDef
    name: str
    base_exprs: List[ast.expr]
    methods: Dict[str, ast.FunctionDef] = field(default_factory=dict)
    attrs: Dict[str, ast.expr] = field(default_factory=dict)  # class-level simple assignments

    @property
    def qual(self) -> str:
        return f"{self.module.name}.{self.name}"

    def decorators(self) -> List[ast.expr]:
        return list(self.node.decorator_list)


@dataclass
class Ref:
    """Result of resolving a name.

    kind: 'func' (repo function, node+module), 'class' (repo class, ClassInfo), 'ext' (dotted external
    or builtin name in `name`), 'value' (module-level assignment, node=value expr), 'module' (repo module),
    'unknown'
    """
    kind: str
    name: str = ""
    node: Any = None
    module: Optional["ModuleInfo"] = None
    cls: Optional[ClassInfo] = None

    def __repr__(self):
        return f"Ref({self.kind}:{self.name})"


def _strip_docstrings(tree: ast.AST) -> None:
    """docstrings of functions and classes carry no behaviour: they are removed once after parsing so that no rule can depend
    on whether the first statement of a body is a docstring"""
    for node in ast.walk(tree):
        if isinstance(node, (ast.FunctionDef, ast.AsyncFunctionDef, ast.ClassDef)) and node.body:
            first = node.body[0]
            if isinstance(first, ast.Expr) and isinstance(first.value, ast.Constant) and isinstance(first.value.value, str):
                node.body = node.body[1:] or [ast.copy_location(ast.Pass(), first)]


_NEG_OPS = {ast.NotEq: ast.Eq, ast.IsNot: ast.Is, ast.NotIn: ast.In}


_TERMINAL = (ast.Return, ast.Raise, ast.Continue, ast.Break)
_INV_OPS = {ast.Eq: ast.NotEq, ast.NotEq: ast.Eq, ast.Is: ast.IsNot, ast.IsNot: ast.Is, ast.In: ast.NotIn, ast.NotIn: ast.In}


def _negated(test: ast.expr) -> ast.expr:
    if isinstance(test, ast.UnaryOp) and isinstance(test.op, ast.Not):
        return test.operand
    if isinstance(test, ast.Compare) and len(test.ops) == 1 and type(test.ops[0]) in _INV_OPS:
        return ast.copy_location(ast.Compare(left=test.left, ops=[_INV_OPS[type(test.ops[0])]()], comparators=test.comparators), test)
    return ast.copy_location(ast.UnaryOp(op=ast.Not(), operand=test), test)


def _flatten_terminal_arms(tree: ast.AST) -> None:
    """`if t: ...; return a` + `else: R` is the same program as `if t: ...; return a` followed by R. A two-armed conditional with
    an arm that leaves the block (return / raise / continue / break) is put into ONE form once after parsing: the leaving arm is
    the body (the test is negated when only the else arm leaves; with two leaving arms the written order is kept, which is the
    form `if t: ...; return a` + rest comes from), the other arm follows the conditional in the enclosing block. No rule can then depend on whether the author writes else after return
    (measured with tools/benign_copy.py elseafterreturn; together with _canonical_polarity also invertif)."""
    def fold(stmts: list) -> list:
        out: list = []
        for st in stmts:
            for field in ("body", "orelse", "finalbody"):
                v = getattr(st, field, None)
                if isinstance(v, list) and v and isinstance(v[0], ast.stmt):
                    setattr(st, field, fold(v))
            for h in getattr(st, "handlers", []) or []:
                h.body = fold(h.body)
            for c in getattr(st, "cases", []) or []:
                c.body = fold(c.body)
            if isinstance(st, ast.If) and st.orelse:
                bt, et = isinstance(st.body[-1], _TERMINAL), isinstance(st.orelse[-1], _TERMINAL)
                if not bt and et:
                    st.test, st.body, st.orelse = _negated(st.test), st.orelse, st.body
                    bt = True
                if bt:
                    rest, st.orelse = st.orelse, []
                    out.append(st)
                    out.extend(rest)
                    continue
            out.append(st)
        return out
    for node in ast.walk(tree):
        if isinstance(node, (ast.FunctionDef, ast.AsyncFunctionDef)):
            node.body = fold(node.body)


def _canonical_polarity(tree: ast.AST) -> None:
    """`if not c: A else: B` is the same program as `if c: B else: A` (likewise `a != b`, `is not`, `not in`, and conditional
    expressions). A two-armed conditional whose test is negated is turned into its positive form once after parsing, so that no
    rule can depend on which arm the author wrote first (measured with tools/benign_copy.py invertif). elif chains and
    one-armed ifs are left alone."""
    def positive(test: ast.expr):
        if isinstance(test, ast.UnaryOp) and isinstance(test.op, ast.Not):
            return test.operand
        if isinstance(test, ast.Compare) and len(test.ops) == 1 and type(test.ops[0]) in _NEG_OPS:
            return ast.copy_location(ast.Compare(left=test.left, ops=[_NEG_OPS[type(test.ops[0])]()], comparators=test.comparators), test)
        return None
    for node in ast.walk(tree):
        if isinstance(node, ast.If):
            if not node.orelse or (len(node.orelse) == 1 and isinstance(node.orelse[0], ast.If)):
                continue
            pos = positive(node.test)
            while pos is not None:
                node.test, node.body, node.orelse = pos, node.orelse, node.body
                pos = positive(node.test)
        elif isinstance(node, ast.IfExp):
            pos = positive(node.test)
            while pos is not None:
                node.test, node.body, node.orelse = pos, node.orelse, node.body
                pos = positive(node.test)


def _inline_return_temporaries(tree: ast.AST) -> None:
    """`x = <expr>` immediately followed by `return x`, where x occurs nowhere in the function except in such pairs, is the same
    program as `return <expr>`: the pairs are folded once after parsing so that no rule can depend on which of the two idioms
    a function uses (measured with tools/benign_copy.py tempvar)."""
    def blocks_of(fn: ast.AST):
        for node in ast.walk(fn):
            if node is not fn and isinstance(node, (ast.FunctionDef, ast.AsyncFunctionDef, ast.ClassDef, ast.Lambda)):
                continue
            for field in ("body", "orelse", "finalbody"):
                v = getattr(node, field, None)
                if isinstance(v, list) and v and isinstance(v[0], ast.stmt):
                    yield node, field, v      # (ExceptHandler and match_case nodes carry their own `body`)

    def pair_at(stmts: list, i: int):
        st = stmts[i]
        nxt = stmts[i + 1] if i + 1 < len(stmts) else None
        if isinstance(st, ast.Assign) and len(st.targets) == 1 and isinstance(st.targets[0], ast.Name) \
                and isinstance(nxt, ast.Return) and isinstance(nxt.value, ast.Name) and nxt.value.id == st.targets[0].id:
            return st.targets[0].id
        return None

    for fn in [n for n in ast.walk(tree) if isinstance(n, (ast.FunctionDef, ast.AsyncFunctionDef))]:
        pairs = {}
        for _node, _field, stmts in blocks_of(fn):
            for i in range(len(stmts)):
                nm = pair_at(stmts, i)
                if nm is not None:
                    pairs[nm] = pairs.get(nm, 0) + 1
        if not pairs:
            continue
        occ = {}
        for n in ast.walk(fn):
            if isinstance(n, ast.Name) and n.id in pairs:
                occ[n.id] = occ.get(n.id, 0) + 1
            elif isinstance(n, (ast.Global, ast.Nonlocal)):
                for nm in n.names:
                    occ[nm] = occ.get(nm, 0) + 99
        foldable = {nm for nm, k in pairs.items() if occ.get(nm, 0) == 2 * k}
        if not foldable:
            continue
        for node, field, stmts in list(blocks_of(fn)):
            out, i = [], 0
            while i < len(stmts):
                nm = pair_at(stmts, i)
                if nm in foldable:
                    out.append(ast.copy_location(ast.Return(value=stmts[i].value), stmts[i]))
                    i += 2
                else:
                    out.append(stmts[i])
                    i += 1
            setattr(node, field, out)


class ModuleInfo:
    def __init__(self, repo: "Repo", path: Path, name: str, source: Optional[str] = None, rel: Optional[str] = None):
        self.repo = repo
        self.path = path
        self.name = name  # dotted, e.g. adaptix._internal.morphing.concrete_provider
        self.rel = rel if rel is not None else str(path.relative_to(repo.src_root))  # adaptix/_internal/...
        self.source = path.read_text(encoding="utf-8") if source is None else source
        try:
            self.tree = ast.parse(self.source, filename=str(path))
            _strip_docstrings(self.tree)
            _flatten_terminal_arms(self.tree)
            _inline_return_temporaries(self.tree)
            _canonical_polarity(self.tree)
        except SyntaxError as e:  # pragma: no cover
            raise AnalysisError(f"cannot parse {path}: {e}")
        self.imports: Dict[str, str] = {}  # local name -> dotted target
        self.functions: Dict[str, ast.FunctionDef] = {}
        self.classes: Dict[str, ClassInfo] = {}
        self.assigns: Dict[str, ast.expr] = {}
        self._parents: Dict[int, ast.AST] = {}
        self._index()

    # -- indexing
    def _pkg_parts(self) -> List[str]:
        parts = self.name.split(".")
        if self.path.name == "__init__.py":
            return parts
        return parts[:-1]

    def _index(self) -> None:
        for parent in ast.walk(self.tree):
            for child in ast.iter_child_nodes(parent):
                self._parents[id(child)] = parent
        self._index_body(self.tree.body)

    def _index_body(self, body: Sequence[ast.stmt]) -> None:
        for st in body:
            if isinstance(st, ast.Import):
                for a in st.names:
                    local = a.asname or a.name.split(".")[0]
                    self.imports[local] = a.name if a.asname else a.name.split(".")[0]
            elif isinstance(st, ast.ImportFrom):
                if st.level:
                    base = self._pkg_parts()
                    if st.level > 1:
                        base = base[: -(st.level - 1)]
                    mod = ".".join(base + ([st.module] if st.module else []))
                else:
                    mod = st.module or ""
                for a in st.names:
                    self.imports[a.asname or a.name] = f"{mod}.{a.name}"
            elif isinstance(st, (ast.FunctionDef, ast.AsyncFunctionDef)):
                self.functions[st.name] = st
            elif isinstance(st, ast.ClassDef):
                ci = ClassInfo(self, st, st.name, list(st.bases))
                for sub in st.body:
                    if isinstance(sub, (ast.FunctionDef, ast.AsyncFunctionDef)):
                        ci.methods[sub.name] = sub
                    elif isinstance(sub, ast.Assign) and len(sub.targets) == 1 and isinstance(sub.targets[0], ast.Name):
                        ci.attrs[sub.targets[0].id] = sub.value
                    elif isinstance(sub, ast.AnnAssign) and isinstance(sub.target, ast.Name) and sub.value is not None:
                        ci.attrs[sub.target.id] = sub.value
                self.classes[st.name] = ci
            elif isinstance(st, ast.Assign):
                for t in st.targets:
                    if isinstance(t, ast.Name):
                        self.assigns[t.id] = st.value
            elif isinstance(st, ast.AnnAssign) and isinstance(st.target, ast.Name) and st.value is not None:
                self.assigns[st.target.id] = st.value
            elif isinstance(st, (ast.If, ast.Try)):
                # conditional definitions (feature flags): index every branch, first definition wins
                for blk in _stmt_blocks(st):
                    saved = (dict(self.functions), dict(self.classes), dict(self.assigns), dict(self.imports))
                    self._index_body(blk)
                    for store, old in zip((self.functions, self.classes, self.assigns, self.imports), saved):
                        for k, v in old.items():
                            store[k] = v

    # -- helpers
    def parent(self, node: ast.AST) -> Optional[ast.AST]:
        return self._parents.get(id(node))

    def enclosing_function(self, node: ast.AST) -> Optional[ast.FunctionDef]:
        p = self.parent(node)
        while p is not None and not isinstance(p, (ast.FunctionDef, ast.AsyncFunctionDef, ast.Lambda)):
            p = self.parent(p)
        return p  # type: ignore[return-value]

    def enclosing_class(self, node: ast.AST) -> Optional[ClassInfo]:
        p = self.parent(node)
        while p is not None:
            if isinstance(p, ast.ClassDef):
                # only top-level classes are indexed; nested classes return None
                return self.classes.get(p.name) if self.classes.get(p.name) and self.classes[p.name].node is p else None
            p = self.parent(p)
        return None

    def qualname(self, node: ast.AST) -> str:
        names: List[str] = []
        cur: Optional[ast.AST] = node
        while cur is not None:
            if isinstance(cur, (ast.FunctionDef, ast.AsyncFunctionDef, ast.ClassDef)):
                names.append(cur.name)
            cur = self.parent(cur)
        return ".".join(reversed(names)) or "<module>"

    def seg(self, node: ast.AST) -> str:
        return norm(node)


def _stmt_blocks(st: ast.stmt) -> List[List[ast.stmt]]:
    out = []
    for f in ("body", "orelse", "finalbody"):
        b = getattr(st, f, None)
        if b:
            out.append(b)
    for h in getattr(st, "handlers", []) or []:
        out.append(h.body)
    return out


def norm(node: Union[ast.AST, str]) -> str:
    """Normalised text of a construct: formatting- and comment-independent."""
    if isinstance(node, str):
        return node
    try:
        return ast.unparse(node)
    except Exception:  # pragma: no cover
        return ast.dump(node)


class Repo:
    def __init__(self, root: Union[str, Path]):
        self.root = Path(root)
        self.src_root = self.root / "src"
        pkg_root = self.src_root / PKG
        if not pkg_root.is_dir():
            raise AnalysisError(f"no package at {pkg_root}")
        self.modules: Dict[str, ModuleInfo] = {}
        self.by_rel: Dict[str, ModuleInfo] = {}
        for path in sorted(pkg_root.rglob("*.py")):
            rel = path.relative_to(self.src_root)
            parts = list(rel.with_suffix("").parts)
            if parts[-1] == "__init__":
                parts = parts[:-1]
            name = ".".join(parts)
            mi = ModuleInfo(self, path, name)
            self.modules[name] = mi
            self.by_rel[str(rel)] = mi
        self._mro_cache: Dict[str, List[ClassInfo]] = {}

    def synthetic_module(self, name: str, source: str) -> ModuleInfo:
        """A module that exists only as text (generated program + prelude); not registered in the index."""
        return ModuleInfo(self, Path(f"<generated {name}>"), f"{PKG}._generated.{name}", source=source,
                          rel=f"generated:{name}")

    # -- lookup
    def mod(self, short: str) -> ModuleInfo:
        """`short` like 'morphing/concrete_provider' (relative to adaptix/_internal) or a dotted name."""
        cands = [
            f"{PKG}/_internal/{short}.py", f"{PKG}/_internal/{short}/__init__.py",
            f"{PKG}/{short}.py", f"{PKG}/{short}/__init__.py",
        ]
        for c in cands:
            if c in self.by_rel:
                return self.by_rel[c]
        if short in self.modules:
            return self.modules[short]
        raise AnalysisError(f"anchor vanished: module {short}")

    def cls(self, short_mod: str, name: str) -> ClassInfo:
        m = self.mod(short_mod)
        if name not in m.classes:
            raise AnalysisError(f"anchor vanished: class {name} in {m.rel}")
        return m.classes[name]

    def func(self, short_mod: str, qual: str) -> ast.FunctionDef:
        """qual: 'f', 'Class.method', 'Class.method.inner', 'f.inner'"""
        m = self.mod(short_mod)
        parts = qual.split(".")
        node: Any = None
        body: Any = m.tree.body
        for p in parts:
            found = None
            for st in _iter_defs(body):
                if st.name == p:
                    found = st
                    break
            if found is None:
                raise AnalysisError(f"anchor vanished: {qual} in {m.rel}")
            node = found
            body = found.body
        return node

    def all_classes(self) -> Iterator[ClassInfo]:
        for m in self.modules.values():
            yield from m.classes.values()

    # -- resolution
    def resolve_dotted(self, dotted: str, _depth: int = 0) -> Ref:
        """Resolve a dotted import target to a repo entity or an external name."""
        if _depth > 12:
            return Ref("unknown", dotted)
        if not dotted.startswith(PKG + ".") and dotted != PKG:
            return Ref("ext", dotted)
        if dotted in self.modules:
            return Ref("module", dotted, module=self.modules[dotted])
        modname, _, attr = dotted.rpartition(".")
        if modname in self.modules:
            m = self.modules[modname]
            return self.resolve_global(m, attr, _depth + 1)
        # attribute of something deeper (Class.attr)
        head = self.resolve_dotted(modname, _depth + 1)
        if head.kind == "class" and head.cls is not None:
            meth = self.find_method(head.cls, attr)
            if meth is not None:
                return Ref("func", f"{head.name}.{attr}", node=meth[1], module=meth[0].module, cls=meth[0])
            val = self.find_class_attr(head.cls, attr)
            if val is not None:
                return Ref("value", f"{head.name}.{attr}", node=val[1], module=val[0].module, cls=val[0])
        if head.kind == "ext":
            return Ref("ext", f"{head.name}.{attr}")
        return Ref("unknown", dotted)

    def resolve_global(self, m: ModuleInfo, name: str, _depth: int = 0) -> Ref:
        if name in m.functions:
            return Ref("func", f"{m.name}.{name}", node=m.functions[name], module=m)
        if name in m.classes:
            return Ref("class", f"{m.name}.{name}", cls=m.classes[name], module=m)
        if name in m.assigns:
            return Ref("value", f"{m.name}.{name}", node=m.assigns[name], module=m)
        if name in m.imports:
            return self.resolve_dotted(m.imports[name], _depth + 1)
        if hasattr(builtins, name):
            return Ref("ext", f"builtins.{name}")
        return Ref("unknown", name)

    def resolve_expr_static(self, m: ModuleInfo, expr: ast.expr) -> Ref:
        """Resolve Name / dotted Attribute chains at module scope (no locals)."""
        if isinstance(expr, ast.Name):
            r = self.resolve_global(m, expr.id)
            # follow simple aliases  X = some.other.name
            seen = 0
            while r.kind == "value" and isinstance(r.node, (ast.Name, ast.Attribute)) and seen < 8 and r.module is not None:
                r2 = self.resolve_expr_static(r.module, r.node)
                if r2.kind == "unknown":
                    break
                r = r2
                seen += 1
            return r
        if isinstance(expr, ast.Attribute):
            base = self.resolve_expr_static(m, expr.value)
            if base.kind == "ext":
                return Ref("ext", f"{base.name}.{expr.attr}")
            if base.kind == "module" and base.module is not None:
                return self.resolve_global(base.module, expr.attr)
            if base.kind == "class" and base.cls is not None:
                meth = self.find_method(base.cls, expr.attr)
                if meth is not None:
                    return Ref("func", f"{base.name}.{expr.attr}", node=meth[1], module=meth[0].module, cls=meth[0])
                val = self.find_class_attr(base.cls, expr.attr)
                if val is not None:
                    return Ref("value", f"{base.name}.{expr.attr}", node=val[1], module=val[0].module, cls=val[0])
                # attribute of an external base class?
                for b in self.mro(base.cls):
                    for be in b.base_exprs:
                        br = self.resolve_expr_static(b.module, be)
                        if br.kind == "ext":
                            return Ref("ext", f"{br.name}.{expr.attr}")
            return Ref("unknown", norm(expr))
        return Ref("unknown", norm(expr))

    # -- classes
    def bases(self, ci: ClassInfo) -> List[ClassInfo]:
        out = []
        for be in ci.base_exprs:
            e = be
            if isinstance(e, ast.Subscript):  # Generic[T], Mediator[T]
                e = e.value
            r = self.resolve_expr_static(ci.module, e)
            if r.kind == "class" and r.cls is not None:
                out.append(r.cls)
        return out

    def ext_bases(self, ci: ClassInfo) -> List[str]:
        out = []
        for c in self.mro(ci):
            for be in c.base_exprs:
                e = be
                if isinstance(e, ast.Subscript):
                    e = e.value
                r = self.resolve_expr_static(c.module, e)
                if r.kind == "ext":
                    out.append(r.name)
                elif r.kind == "value" and r.module is not None and isinstance(r.node, (ast.Name, ast.Attribute)):
                    r2 = self.resolve_expr_static(r.module, r.node)
                    if r2.kind == "ext":
                        out.append(r2.name)
        return out

    def mro(self, ci: ClassInfo) -> List[ClassInfo]:
        key = ci.qual
        if key in self._mro_cache:
            return self._mro_cache[key]
        self._mro_cache[key] = [ci]  # cycle guard
        seqs = [self.mro(b)[:] for b in self.bases(ci)] + [self.bases(ci)[:]]
        res = [ci]
        # C3 merge
        while True:
            seqs = [s for s in seqs if s]
            if not seqs:
                break
            cand = None
            for s in seqs:
                c = s[0]
                if not any(c in t[1:] for t in seqs):
                    cand = c
                    break
            if cand is None:
                cand = seqs[0][0]
            res.append(cand)
            for s in seqs:
                if s and s[0] is cand:
                    del s[0]
        self._mro_cache[key] = res
        return res

    def find_method(self, ci: ClassInfo, name: str) -> Optional[Tuple[ClassInfo, ast.FunctionDef]]:
        for c in self.mro(ci):
            if name in c.methods:
                return c, c.methods[name]
        return None

    def find_class_attr(self, ci: ClassInfo, name: str) -> Optional[Tuple[ClassInfo, ast.expr]]:
        for c in self.mro(ci):
            if name in c.attrs:
                return c, c.attrs[name]
        return None

    def is_subclass(self, ci: ClassInfo, qual_or_name: str) -> bool:
        for c in self.mro(ci):
            if c.qual == qual_or_name or c.name == qual_or_name:
                return True
        return False

    def subclasses_of(self, name: str) -> List[ClassInfo]:
        return [c for c in self.all_classes() if self.is_subclass(c, name)]


def _iter_defs(body: Sequence[ast.stmt]) -> Iterator[Union[ast.FunctionDef, ast.ClassDef]]:
    for st in body:
        if isinstance(st, (ast.FunctionDef, ast.AsyncFunctionDef, ast.ClassDef)):
            yield st  # type: ignore[misc]
        elif isinstance(st, (ast.If, ast.Try, ast.With, ast.For, ast.While)):
            for blk in _stmt_blocks(st):
                yield from _iter_defs(blk)


def nested_defs(fn: ast.AST) -> List[ast.FunctionDef]:
    """FunctionDefs directly nested in fn (not inside deeper defs)."""
    out: List[ast.FunctionDef] = []

    def rec(body):
        for st in body:
            if isinstance(st, (ast.FunctionDef, ast.AsyncFunctionDef)):
                out.append(st)  # type: ignore[arg-type]
            elif isinstance(st, ast.ClassDef):
                continue
            else:
                for blk in _stmt_blocks(st):
                    rec(blk)
    rec(getattr(fn, "body", []))
    return out


def walk_no_nested(node: ast.AST, include_root: bool = True) -> Iterator[ast.AST]:
    """ast.walk that does not descend into nested function/class/lambda bodies."""
    stack = [node]
    first = True
    while stack:
        n = stack.pop()
        if not first and isinstance(n, (ast.FunctionDef, ast.AsyncFunctionDef, ast.ClassDef, ast.Lambda)):
            continue
        if include_root or not first:
            yield n
        first = False
        stack.extend(reversed(list(ast.iter_child_nodes(n))))


def func_params(fn: Union[ast.FunctionDef, ast.Lambda]) -> List[str]:
    a = fn.args
    names = [x.arg for x in a.posonlyargs + a.args]
    if a.vararg:
        names.append(a.vararg.arg)
    names += [x.arg for x in a.kwonlyargs]
    if a.kwarg:
        names.append(a.kwarg.arg)
    return names


def dotted_name(expr: ast.expr) -> Optional[str]:
    if isinstance(expr, ast.Name):
        return expr.id
    if isinstance(expr, ast.Attribute):
        b = dotted_name(expr.value)
        return f"{b}.{expr.attr}" if b else None
    return None


# --------------------------------------------------------------------------------------------------
# findings


@dataclass
class Finding:
    property: str
    rule: str
    file: str          # path relative to <repo>/src, or 'generated:<config>'
    qualname: str
    construct: str     # normalised text of the offending construct
    message: str       # why it violates
    line: int = 0      # informational only, never part of the key
    extra: Dict[str, Any] = field(default_factory=dict)

    @property
    def key(self) -> str:
        h = hashlib.sha1("|".join([self.rule, self.file, self.qualname, self.construct]).encode()).hexdigest()
        return h[:12]

    def to_json(self) -> Dict[str, Any]:
        return {
            "property": self.property, "rule": self.rule, "file": self.file, "qualname": self.qualname,
            "construct": self.construct, "message": self.message, "line": self.line, "key": self.key,
            "extra": self.extra,
        }

    def where(self) -> str:
        return f"{self.file}:{self.line}:{self.qualname}"


def load_known_findings() -> List[Dict[str, Any]]:
    p = VERIF_ROOT / "known_findings.json"
    if not p.exists():
        return []
    data = json.loads(p.read_text())
    return list(data.get("findings", []))


def match_known(f: Finding, known: List[Dict[str, Any]]) -> Optional[Dict[str, Any]]:
    for k in known:
        if k.get("status") != "known":
            continue
        if k.get("property") != f.property:
            continue
        if k.get("rule") == f.rule and k.get("file") == f.file and k.get("qualname") == f.qualname \
                and k.get("construct") == f.construct:
            return k
    return None


# --------------------------------------------------------------------------------------------------
# check result / evidence


@dataclass
class CheckResult:
    property: str
    level: str = "other"
    findings: List[Finding] = field(default_factory=list)
    coverage: Dict[str, Any] = field(default_factory=dict)
    assumptions: List[str] = field(default_factory=list)
    notes: List[str] = field(default_factory=list)
    # rule -> (matched instances, floor)
    counts: Dict[str, Tuple[int, int]] = field(default_factory=dict)
    samples: List[Any] = field(default_factory=list)
    evaluations: int = 0
    nontrivial: set = field(default_factory=set)

    def count(self, rule: str, n: int, floor: int) -> None:
        self.counts[rule] = (n, floor)

    def add(self, f: Finding) -> None:
        # de-duplicate by key
        if all(g.key != f.key for g in self.findings):
            self.findings.append(f)

    def evaluated(self, ident: str, nontrivial: bool = True) -> None:
        self.evaluations += 1
        if nontrivial:
            self.nontrivial.add(ident)

    def sample(self, s: Any, limit: int = 12) -> None:
        if len(self.samples) < limit:
            self.samples.append(s)


def write_evidence(res: CheckResult, tier: str, seed: int, wall: float, n_viol: int, explanation: str,
                   rule: str, exhaustive: bool) -> Path:
    ev_dir = VERIF_ROOT / "evidence"
    ev_dir.mkdir(exist_ok=True)
    cov: Dict[str, Any] = {
        "explanation": explanation,
        "evaluations": max(res.evaluations, 0),
        "distinct_nontrivial": len(res.nontrivial),
        "rule": rule,
        "samples": res.samples[:12] if res.samples else [],
        "exhaustive": exhaustive,
        "rule_instances": {k: {"matched": v[0], "floor": v[1]} for k, v in res.counts.items()},
        "notes": res.notes[:40],
    }
    cov.update(res.coverage)
    ev = {
        "property_id": res.property,
        "tier": tier,
        "seed": seed,
        "level": res.level,
        "coverage": cov,
        "assumptions": res.assumptions,
        "wall_s": round(wall, 3),
        "violations": n_viol,
    }
    p = ev_dir / f"{res.property}.json"
    p.write_text(json.dumps(ev, indent=1, default=str) + "\n")
    return p


def write_replay(f: Finding, repo_root: Path) -> Path:
    d = VERIF_ROOT / "evidence" / "replay"
    d.mkdir(parents=True, exist_ok=True)
    p = d / f"{f.property}-{f.key}.json"
    payload = f.to_json()
    payload["repo"] = str(repo_root)
    p.write_text(json.dumps(payload, indent=1, default=str) + "\n")
    return p
