"""Interprocedural value resolution ("where does this name come from").

Abstract values (AV):
  ('func', FunctionDef|Lambda, ModuleInfo, ClassInfo|None)   repo function / nested def / lambda
  ('ext', dotted)                                           stdlib / builtin / third-party name
  ('cls', ClassInfo)                                        repo class
  ('provided', text)                                        result of mediator.*provide* (a loader/dumper/coercer/...)
  ('const', value)                                          literal constant
  ('expr', node, FunctionDef|None, ModuleInfo, ClassInfo|None)  an expression we stop at (display, call of unknown ...)
  ('param', fn, name)                                       parameter with no visible call site
  ('self', ClassInfo)
  ('unknown', text)

The resolver is flow-insensitive inside a function (all assignments to a name are united) and
context-insensitive across calls (a parameter is the union over all visible call sites).
"""
from __future__ import annotations

import ast
from typing import Any, Dict, Iterable, List, Optional, Sequence, Set, Tuple

from .core import ClassInfo, ModuleInfo, Repo, func_params, nested_defs, norm, walk_no_nested

AV = Tuple[Any, ...]

MEDIATOR_PROVIDE = {
    "mandatory_provide", "mandatory_provide_by_iterable", "provide", "delegating_provide", "provide_from_next",
}
PASS_THROUGH_CALLS = {
    "builtins.tuple", "builtins.list", "builtins.iter", "builtins.reversed", "builtins.sorted", "builtins.next",
    "builtins.frozenset", "builtins.set",
}


class FnCtx:
    """A function together with where it lives."""

    __slots__ = ("fn", "module", "cls", "outer")

    def __init__(self, fn, module: ModuleInfo, cls: Optional[ClassInfo], outer: Optional["FnCtx"]):
        self.fn = fn
        self.module = module
        self.cls = cls
        self.outer = outer

    @property
    def qual(self) -> str:
        return self.module.qualname(self.fn) if not isinstance(self.fn, ast.Lambda) else self.module.qualname(self.fn) + ".<lambda>"

    def __repr__(self):
        return f"FnCtx({self.module.rel}:{self.qual})"


def ctx_for(repo: Repo, module: ModuleInfo, fn) -> FnCtx:
    """Build the FnCtx chain for any function node of a module."""
    outer_fn = module.enclosing_function(fn)
    outer = ctx_for(repo, module, outer_fn) if outer_fn is not None else None
    cls = module.enclosing_class(fn)
    if outer is not None and cls is None:
        cls = outer.cls
    return FnCtx(fn, module, cls, outer)


class Resolver:
    def __init__(self, repo: Repo):
        self.repo = repo
        self._bindings_cache: Dict[int, Dict[str, List[Tuple[str, Any]]]] = {}
        self._callsite_cache: Dict[Tuple[int, str], List[Tuple[ast.expr, FnCtx]]] = {}
        self._all_calls: Optional[List[Tuple[ast.Call, ModuleInfo]]] = None
        self._calls_by_name: Dict[str, List[Tuple[ast.Call, ModuleInfo]]] = {}
        self._inflight: Set[Tuple[int, int]] = set()
        self._memo: Dict[Tuple[int, int], List[AV]] = {}
        self._cuts = 0
        self._sites_memo: Dict[int, List[Tuple[ast.Call, FnCtx, int]]] = {}

    # ---------------------------------------------------------------------------------- local bindings
    def bindings(self, fn) -> Dict[str, List[Tuple[str, Any]]]:
        """name -> list of (kind, payload); kinds: param, assign(value expr), elem(iter expr, index|None),
        def(FunctionDef), exc, with(expr), aug(value), import"""
        key = id(fn)
        if key in self._bindings_cache:
            return self._bindings_cache[key]
        b: Dict[str, List[Tuple[str, Any]]] = {}

        def add(name, kind, payload):
            b.setdefault(name, []).append((kind, payload))

        if isinstance(fn, ast.Lambda):
            for p in func_params(fn):
                add(p, "param", None)
            self._bindings_cache[key] = b
            return b
        for p in func_params(fn):
            add(p, "param", None)

        def bind_target(t, kind, payload, idx_path=()):
            if isinstance(t, ast.Name):
                add(t.id, kind, payload if not idx_path else (payload, idx_path))
            elif isinstance(t, (ast.Tuple, ast.List)):
                for i, e in enumerate(t.elts):
                    bind_target(e, kind + "_unpack" if not kind.endswith("_unpack") else kind, payload, idx_path + (i,))
            elif isinstance(t, ast.Starred):
                bind_target(t.value, kind, payload, idx_path)

        for node in walk_no_nested(fn, include_root=False):
            if isinstance(node, ast.Assign):
                for t in node.targets:
                    bind_target(t, "assign", node.value)
            elif isinstance(node, ast.AnnAssign) and node.value is not None:
                bind_target(node.target, "assign", node.value)
            elif isinstance(node, ast.AugAssign):
                bind_target(node.target, "aug", node.value)
            elif isinstance(node, (ast.For, ast.AsyncFor)):
                bind_target(node.target, "elem", node.iter)
            elif isinstance(node, ast.comprehension):
                bind_target(node.target, "elem", node.iter)
            elif isinstance(node, ast.NamedExpr):
                bind_target(node.target, "assign", node.value)
            elif isinstance(node, ast.ExceptHandler) and node.name:
                add(node.name, "exc", node.type)
            elif isinstance(node, (ast.With, ast.AsyncWith)):
                for it in node.items:
                    if it.optional_vars is not None:
                        bind_target(it.optional_vars, "with", it.context_expr)
            elif isinstance(node, (ast.Import, ast.ImportFrom)):
                for a in node.names:
                    add(a.asname or a.name.split(".")[0], "import", node)
        for d in nested_defs(fn):
            add(d.name, "def", d)
        self._bindings_cache[key] = b
        return b

    # ---------------------------------------------------------------------------------- resolution
    def resolve(self, expr: ast.expr, ctx: Optional[FnCtx], module: Optional[ModuleInfo] = None,
                depth: int = 0) -> List[AV]:
        module = module or (ctx.module if ctx else None)
        assert module is not None
        if depth > 14:
            return [("unknown", "depth:" + norm(expr))]
        key = (id(expr), id(ctx.fn) if ctx else 0)
        if key in self._memo:
            return self._memo[key]
        if key in self._inflight:
            self._cuts += 1
            return []
        self._inflight.add(key)
        cuts0 = self._cuts
        try:
            res = self._dedupe(self._resolve(expr, ctx, module, depth))
        finally:
            self._inflight.discard(key)
        if self._cuts == cuts0 and depth <= 10:
            self._memo[key] = res
            self._keep = getattr(self, "_keep", [])
            self._keep.append(expr)  # keep synthetic nodes alive so ids stay unique
        return res

    @staticmethod
    def _dedupe(avs: List[AV]) -> List[AV]:
        out, seen = [], set()
        for a in avs:
            k = tuple(id(x) if isinstance(x, (ast.AST, ModuleInfo, ClassInfo, FnCtx)) else repr(x) for x in a)
            if k not in seen:
                seen.add(k)
                out.append(a)
        return out

    def _resolve(self, expr, ctx, module, depth) -> List[AV]:
        repo = self.repo
        if isinstance(expr, ast.Constant):
            return [("const", expr.value)]
        if isinstance(expr, ast.Name):
            return self._resolve_name(expr.id, ctx, module, depth)
        if isinstance(expr, ast.Lambda):
            return [("func", expr, module, ctx.cls if ctx else None)]
        if isinstance(expr, ast.IfExp):
            return self.resolve(expr.body, ctx, module, depth + 1) + self.resolve(expr.orelse, ctx, module, depth + 1)
        if isinstance(expr, ast.BoolOp):
            out: List[AV] = []
            for v in expr.values:
                out += self.resolve(v, ctx, module, depth + 1)
            return out
        if isinstance(expr, ast.NamedExpr):
            return self.resolve(expr.value, ctx, module, depth + 1)
        if isinstance(expr, ast.Starred):
            return self.resolve(expr.value, ctx, module, depth + 1)
        if isinstance(expr, ast.Attribute):
            return self._resolve_attr(expr, ctx, module, depth)
        if isinstance(expr, ast.Subscript):
            # element-of: x[0] / x[key]  ->  what x holds
            base = self.resolve(expr.value, ctx, module, depth + 1)
            out = []
            for b in base:
                if b[0] == "expr" and isinstance(b[1], (ast.Tuple, ast.List)):
                    idx = expr.slice.value if isinstance(expr.slice, ast.Constant) else None
                    elts = b[1].elts
                    if isinstance(idx, int) and -len(elts) <= idx < len(elts):
                        out += self.resolve(elts[idx], b[2], b[3], depth + 1)
                    else:
                        for e in elts:
                            out += self.resolve(e, b[2], b[3], depth + 1)
                elif b[0] == "expr" and isinstance(b[1], ast.Dict):
                    for v in b[1].values:
                        out += self.resolve(v, b[2], b[3], depth + 1)
                elif b[0] in ("provided", "unknown", "param"):
                    out.append(b)
                elif b[0] == "ext":
                    out.append(("ext", b[1] + "[]"))
                else:
                    out.append(("expr", expr, ctx, module, ctx.cls if ctx else None))
            return out or [("expr", expr, ctx, module, ctx.cls if ctx else None)]
        if isinstance(expr, ast.Call):
            return self._resolve_call(expr, ctx, module, depth)
        return [("expr", expr, ctx, module, ctx.cls if ctx else None)]

    def _resolve_name(self, name: str, ctx: Optional[FnCtx], module: ModuleInfo, depth: int) -> List[AV]:
        c = ctx
        while c is not None:
            b = self.bindings(c.fn)
            if name in b:
                out: List[AV] = []
                for kind, payload in b[name]:
                    if kind == "param":
                        out += self.expand_param(c, name, depth + 1)
                    elif kind == "assign":
                        out += self.resolve(payload, c, c.module, depth + 1)
                    elif kind == "assign_unpack":
                        value, path = payload
                        out += self._resolve_unpack(value, path, c, depth + 1)
                    elif kind in ("elem", "elem_unpack"):
                        if kind == "elem":
                            out += self._resolve_elem(payload, (), c, depth + 1)
                        else:
                            it, path = payload
                            out += self._resolve_elem(it, path, c, depth + 1)
                    elif kind == "def":
                        out.append(("func", payload, c.module, c.cls))
                    elif kind == "exc":
                        out.append(("exc", payload, c))
                    elif kind in ("with", "with_unpack"):
                        out.append(("expr", payload if kind == "with" else payload[0], c, c.module, c.cls))
                    elif kind == "aug":
                        out += self.resolve(payload, c, c.module, depth + 1)
                    elif kind == "import":
                        out.append(("ext", name))
                return out
            if name == "self" and c.cls is not None:
                return [("self", c.cls)]
            c = c.outer
        r = self.repo.resolve_global(module, name)
        return self._ref_to_av(r, depth)

    def _ref_to_av(self, r, depth) -> List[AV]:
        if r.kind == "func":
            return [("func", r.node, r.module, r.cls)]
        if r.kind == "class":
            return [("cls", r.cls)]
        if r.kind == "ext":
            return [("ext", r.name)]
        if r.kind == "value":
            return self.resolve(r.node, None, r.module, depth + 1)
        if r.kind == "module":
            return [("ext", r.name)]
        return [("unknown", r.name)]

    def _resolve_unpack(self, value: ast.expr, path: Tuple[int, ...], ctx: FnCtx, depth: int) -> List[AV]:
        # a, b = <tuple display>  -> exact element; otherwise element-of(value)
        v = value
        for i in path:
            if isinstance(v, (ast.Tuple, ast.List)) and i < len(v.elts):
                v = v.elts[i]
            else:
                res = self.resolve(v, ctx, ctx.module, depth + 1)
                return [("elemof",) + r if r[0] not in ("provided", "unknown", "param") else r for r in res]
        return self.resolve(v, ctx, ctx.module, depth + 1)

    def _resolve_elem(self, it: ast.expr, path: Tuple[int, ...], ctx: FnCtx, depth: int) -> List[AV]:
        """Value of a loop target iterating `it` (path = position inside a tuple target)."""
        if isinstance(it, (ast.GeneratorExp, ast.ListComp, ast.SetComp)):
            # the comprehension variables are bound in the enclosing function's flat binding table
            elt = it.elt
            for i in path:
                if isinstance(elt, ast.Tuple) and i < len(elt.elts):
                    elt = elt.elts[i]
                else:
                    res = self.resolve(elt, ctx, ctx.module, depth + 1)
                    return [("elemof",) + r if r[0] not in ("provided", "unknown", "param") else r for r in res]
            return self.resolve(elt, ctx, ctx.module, depth + 1)
        if isinstance(it, ast.Call):
            fname = self._callee_ext(it.func, ctx)
            if fname == "builtins.zip" and path:
                if path[0] < len(it.args):
                    return self._resolve_elem(it.args[path[0]], path[1:], ctx, depth + 1)
            if fname == "builtins.enumerate":
                if path and path[0] == 0:
                    return [("const", 0)]
                if path and it.args:
                    return self._resolve_elem(it.args[0], path[1:], ctx, depth + 1)
            if fname in ("builtins.reversed", "builtins.sorted", "builtins.iter", "builtins.tuple", "builtins.list",
                         "itertools.islice") and it.args:
                return self._resolve_elem(it.args[0], path, ctx, depth + 1)
            if isinstance(it.func, ast.Attribute) and it.func.attr in ("items", "values", "keys") and not it.args:
                base = self.resolve(it.func.value, ctx, ctx.module, depth + 1)
                out: List[AV] = []
                for b in base:
                    if b[0] == "expr" and isinstance(b[1], ast.Dict):
                        want_vals = it.func.attr == "values" or (it.func.attr == "items" and path[:1] == (1,))
                        for e in (b[1].values if want_vals else b[1].keys):
                            if e is not None:
                                out += self.resolve(e, b[2], b[3], depth + 1)
                    else:
                        out.append(b if b[0] in ("provided", "unknown", "param") else ("elemof",) + b)
                return out
        res = self.resolve(it, ctx, ctx.module, depth + 1)
        out = []
        for r in res:
            if r[0] == "packed":
                out.append(r[1:])
            elif r[0] == "expr" and isinstance(r[1], (ast.Tuple, ast.List, ast.Set)) and not path:
                for e in r[1].elts:
                    out += self.resolve(e, r[2], r[3], depth + 1)
            elif r[0] == "expr" and r[1] is not it and r[2] is not None and depth < 12 \
                    and isinstance(r[1], (ast.GeneratorExp, ast.ListComp, ast.SetComp, ast.Call)):
                out += self._resolve_elem(r[1], path, r[2], depth + 1)
            elif r[0] in ("provided", "unknown", "param"):
                out.append(r)
            else:
                out.append(("elemof",) + r)
        return out

    def _callee_ext(self, func: ast.expr, ctx: Optional[FnCtx]) -> Optional[str]:
        if isinstance(func, ast.Name):
            c = ctx
            while c is not None:
                if func.id in self.bindings(c.fn):
                    return None
                c = c.outer
            m = ctx.module if ctx else None
            if m is None:
                return None
            r = self.repo.resolve_global(m, func.id)
            return r.name if r.kind == "ext" else None
        if isinstance(func, ast.Attribute):
            m = ctx.module if ctx else None
            if m is None:
                return None
            r = self.repo.resolve_expr_static(m, func)
            return r.name if r.kind == "ext" else None
        return None

    def _resolve_attr(self, expr: ast.Attribute, ctx, module, depth) -> List[AV]:
        base = self.resolve(expr.value, ctx, module, depth + 1)
        out: List[AV] = []
        for b in base:
            if b[0] == "self":
                out += self.resolve_self_attr(b[1], expr.attr, depth + 1)
            elif b[0] == "cls":
                ci = b[1]
                meth = self.repo.find_method(ci, expr.attr)
                if meth is not None:
                    out.append(("func", meth[1], meth[0].module, meth[0]))
                    continue
                val = self.repo.find_class_attr(ci, expr.attr)
                if val is not None:
                    out += self.resolve(val[1], None, val[0].module, depth + 1)
                    continue
                exts = self.repo.ext_bases(ci)
                if exts:
                    out.append(("ext", f"{exts[0]}.{expr.attr}"))
                else:
                    out.append(("unknown", norm(expr)))
            elif b[0] == "ext":
                out.append(("ext", f"{b[1]}.{expr.attr}"))
            elif b[0] == "instance":
                out += self.resolve_self_attr(b[1], expr.attr, depth + 1)
            else:
                out.append(("attr", expr.attr, b))
        return out

    def resolve_self_attr(self, ci: ClassInfo, attr: str, depth: int = 0) -> List[AV]:
        repo = self.repo
        meth = repo.find_method(ci, attr)
        if meth is not None:
            deco = [norm(d) for d in meth[1].decorator_list]
            if "property" in deco:
                return self.returns_of(ctx_for(repo, meth[0].module, meth[1]), depth + 1)
            return [("func", meth[1], meth[0].module, meth[0])]
        out: List[AV] = []
        # instance attribute: self.attr = expr in any method of the MRO (and subclasses' methods share self)
        found = False
        for c in repo.mro(ci):
            for mname, m in c.methods.items():
                for node in walk_no_nested(m, include_root=False):
                    if isinstance(node, (ast.Assign, ast.AnnAssign)):
                        targets = node.targets if isinstance(node, ast.Assign) else [node.target]
                        for t in targets:
                            if isinstance(t, ast.Attribute) and isinstance(t.value, ast.Name) \
                                    and t.value.id in ("self", "clone") and t.attr == attr and node.value is not None:
                                found = True
                                out += self.resolve(node.value, ctx_for(repo, c.module, m), c.module, depth + 1)
        if found:
            return out
        val = repo.find_class_attr(ci, attr)
        if val is not None:
            return self.resolve(val[1], None, val[0].module, depth + 1)
        return [("unknown", f"self.{attr}")]

    def returns_of(self, fctx: FnCtx, depth: int = 0) -> List[AV]:
        fn = fctx.fn
        if isinstance(fn, ast.Lambda):
            return self.resolve(fn.body, fctx, fctx.module, depth + 1)
        out: List[AV] = []
        for node in walk_no_nested(fn, include_root=False):
            if isinstance(node, ast.Return) and node.value is not None:
                out += self.resolve(node.value, fctx, fctx.module, depth + 1)
        return out

    def _resolve_call(self, call: ast.Call, ctx, module, depth) -> List[AV]:
        f = call.func
        # mediator.*provide*
        if isinstance(f, ast.Attribute) and f.attr in MEDIATOR_PROVIDE:
            return [("provided", norm(call)[:120])]
        # mediator.cached_call(factory, ...) -> returns of factory
        if isinstance(f, ast.Attribute) and f.attr == "cached_call" and call.args:
            out: List[AV] = []
            for av in self.resolve(call.args[0], ctx, module, depth + 1):
                if av[0] == "func":
                    out += self.returns_of(ctx_for(self.repo, av[2], av[1]), depth + 1)
                else:
                    out.append(("unknown", "cached_call:" + norm(call.args[0])))
            return out
        callee = self.resolve(f, ctx, module, depth + 1)
        out = []
        for av in callee:
            if av[0] == "func":
                out += self.returns_of(ctx_for(self.repo, av[2], av[1]), depth + 1)
            elif av[0] == "ext" and av[1] in PASS_THROUGH_CALLS and len(call.args) >= 1:
                inner = self.resolve(call.args[0], ctx, module, depth + 1)
                # keep the call itself too, so consumers can see the container kind
                out.append(("expr", call, ctx, module, ctx.cls if ctx else None))
                out += [i for i in inner if i[0] in ("provided", "func", "unknown", "param")]
            elif av[0] == "cls":
                out.append(("instance", av[1], call, ctx))
            elif av[0] == "ext":
                out.append(("extcall", av[1], call, ctx))
            else:
                out.append(("expr", call, ctx, module, ctx.cls if ctx else None))
        return out or [("expr", call, ctx, module, ctx.cls if ctx else None)]

    # ---------------------------------------------------------------------------------- parameters
    def _calls(self, name: Optional[str] = None) -> List[Tuple[ast.Call, ModuleInfo]]:
        if self._all_calls is None:
            acc = []
            by: Dict[str, List[Tuple[ast.Call, ModuleInfo]]] = {}
            for m in self.repo.modules.values():
                for node in ast.walk(m.tree):
                    if isinstance(node, ast.Call):
                        acc.append((node, m))
                        f = node.func
                        keys = set()
                        if isinstance(f, ast.Name):
                            keys.add(f.id)
                        elif isinstance(f, ast.Attribute):
                            keys.add(f.attr)
                            if f.attr == "cached_call" and node.args and isinstance(node.args[0], ast.Attribute):
                                keys.add(node.args[0].attr)
                        for k in keys:
                            by.setdefault(k, []).append((node, m))
            self._all_calls = acc
            self._calls_by_name = by
        if name is not None:
            return self._calls_by_name.get(name, [])
        return self._all_calls

    def call_sites(self, fctx: FnCtx) -> List[Tuple[ast.Call, FnCtx, int]]:
        """Visible call sites of a function: (call node, ctx of caller, positional shift).

        shift = 1 for mediator.cached_call(fn, ...) (first positional is the function itself)."""
        fn = fctx.fn
        if isinstance(fn, ast.Lambda):
            return []
        if id(fn) in self._sites_memo:
            return self._sites_memo[id(fn)]
        name = fn.name
        sites: List[Tuple[ast.Call, FnCtx, int]] = []
        self._sites_memo[id(fn)] = sites
        is_method = fctx.cls is not None and fctx.outer is None
        self._calls()
        if is_method and name == "__init__":
            cands = self._all_calls
        else:
            cands = self._calls(name)
        for call, m in cands:
            f = call.func
            hit = False
            shift = 0
            if is_method:
                if name == "__init__":
                    # instantiation: callee resolves to the class (or a subclass without own __init__)
                    if isinstance(f, (ast.Name, ast.Attribute)):
                        r = self.repo.resolve_expr_static(m, f)
                        if r.kind == "class" and r.cls is not None:
                            meth = self.repo.find_method(r.cls, "__init__")
                            hit = meth is not None and meth[1] is fn
                elif isinstance(f, ast.Attribute) and f.attr == name:
                    hit = self._receiver_matches(f.value, m, call, fctx)
                elif isinstance(f, ast.Attribute) and f.attr == "cached_call" and call.args:
                    a0 = call.args[0]
                    if isinstance(a0, ast.Attribute) and a0.attr == name and self._receiver_matches(a0.value, m, call, fctx):
                        hit, shift = True, 1
            elif fctx.outer is None:
                # module-level function
                if isinstance(f, (ast.Name, ast.Attribute)):
                    last = f.id if isinstance(f, ast.Name) else f.attr
                    if last == name:
                        r = self.repo.resolve_expr_static(m, f)
                        hit = r.kind == "func" and r.node is fn
            else:
                # nested function: direct calls by name inside the enclosing function tree
                if isinstance(f, ast.Name) and f.id == name and m is fctx.module:
                    enc = m.enclosing_function(call)
                    c = enc
                    while c is not None and c is not fctx.outer.fn:
                        c = m.enclosing_function(c)
                    hit = c is not None
            if hit:
                caller_fn = m.enclosing_function(call)
                cctx = ctx_for(self.repo, m, caller_fn) if caller_fn is not None else None
                sites.append((call, cctx, shift))  # type: ignore[arg-type]
        return sites

    def _receiver_matches(self, recv: ast.expr, m: ModuleInfo, call: ast.Call, fctx: FnCtx) -> bool:
        """self.method(...) where the caller's class is related to the method's class; or <expr>.method where
        the receiver resolves to an instance of a related class."""
        repo = self.repo
        assert fctx.cls is not None
        if isinstance(recv, ast.Name) and recv.id in ("self", "cls", "clone"):
            ccls = m.enclosing_class(call)
            if ccls is None:
                return False
            return repo.is_subclass(ccls, fctx.cls.qual) or repo.is_subclass(fctx.cls, ccls.qual)
        if isinstance(recv, ast.Call) and isinstance(recv.func, ast.Name) and recv.func.id == "super":
            ccls = m.enclosing_class(call)
            return ccls is not None and repo.is_subclass(ccls, fctx.cls.qual)
        # self._X.method(...) with _X a class attribute holding an instance
        caller_fn = m.enclosing_function(call)
        cctx = ctx_for(repo, m, caller_fn) if caller_fn is not None else None
        try:
            avs = self.resolve(recv, cctx, m, 6)
        except RecursionError:  # pragma: no cover
            return False
        for av in avs:
            if av[0] == "instance" and (repo.is_subclass(av[1], fctx.cls.qual)):
                return True
        return False

    def _annotation_instance(self, fctx: FnCtx, name: str) -> List[AV]:
        """('instance', ClassInfo, None, None) when the parameter annotation names a repo class."""
        fn = fctx.fn
        if isinstance(fn, ast.Lambda):
            return []
        a = fn.args
        for arg in a.posonlyargs + a.args + a.kwonlyargs:
            if arg.arg == name and arg.annotation is not None:
                ann = arg.annotation
                if isinstance(ann, ast.Constant) and isinstance(ann.value, str):
                    try:
                        ann = ast.parse(ann.value, mode="eval").body
                    except SyntaxError:
                        return []
                cands = [ann]
                if isinstance(ann, ast.Subscript):
                    sl = ann.slice
                    cands = list(sl.elts) if isinstance(sl, ast.Tuple) else [sl]
                    cands.append(ann.value)
                out: List[AV] = []
                for c in cands:
                    if isinstance(c, (ast.Name, ast.Attribute)):
                        r = self.repo.resolve_expr_static(fctx.module, c)
                        if r.kind == "class" and r.cls is not None:
                            out.append(("instance", r.cls, None, None))
                return out
        return []

    def expand_param(self, fctx: FnCtx, name: str, depth: int = 0) -> List[AV]:
        return self._expand_param(fctx, name, depth) + self._annotation_instance(fctx, name)

    def _expand_param(self, fctx: FnCtx, name: str, depth: int = 0) -> List[AV]:
        fn = fctx.fn
        params = func_params(fn)
        if isinstance(fn, ast.Lambda):
            return [("param", fn, name)]
        is_method = fctx.cls is not None and fctx.outer is None
        deco = [norm(d) for d in fn.decorator_list]
        static = "staticmethod" in deco
        if is_method and not static and params and name == params[0]:
            return [("self", fctx.cls)] if name in ("self",) else [("cls", fctx.cls)]
        sites = self.call_sites(fctx)
        if not sites:
            return [("param", fn, name)]
        a = fn.args
        pos = [x.arg for x in a.posonlyargs + a.args]
        if is_method and not static:
            pos = pos[1:]
        out: List[AV] = []
        for call, cctx, shift in sites:
            args = call.args[shift:]
            bound: Optional[ast.expr] = None
            if name in pos:
                i = pos.index(name)
                if i < len(args) and not any(isinstance(x, ast.Starred) for x in args[: i + 1]):
                    bound = args[i]
                else:
                    # f(*xs): the parameter is an element of xs
                    star = next((x for x in args[: i + 1] if isinstance(x, ast.Starred)), None)
                    if star is not None and cctx is not None:
                        out += self._resolve_elem(star.value, (), cctx, depth + 1)
                        continue
            if bound is None:
                for kw in call.keywords:
                    if kw.arg == name:
                        bound = kw.value
            if bound is None:
                # default value?
                dflt = self._default_of(fn, name)
                if dflt is not None:
                    out += self.resolve(dflt, None, fctx.module, depth + 1)
                elif a.vararg and a.vararg.arg == name:
                    for x in args[len(pos):]:
                        for r in self.resolve(x, cctx, cctx.module if cctx else fctx.module, depth + 1):
                            out.append(("packed",) + r)
                else:
                    out.append(("unknown", f"unbound:{name}"))
                continue
            out += self.resolve(bound, cctx, cctx.module if cctx else fctx.module, depth + 1)
        return out

    @staticmethod
    def _default_of(fn: ast.FunctionDef, name: str) -> Optional[ast.expr]:
        a = fn.args
        pos = a.posonlyargs + a.args
        for arg, d in zip(reversed(pos), reversed(a.defaults)):
            if arg.arg == name:
                return d
        for arg, d in zip(a.kwonlyargs, a.kw_defaults):
            if arg.arg == name and d is not None:
                return d
        return None


def strip_elemof(av: AV) -> AV:
    while av and av[0] in ("elemof", "packed"):
        av = av[1:]
    return av
