"""ESC: exception-escape analysis by abstract interpretation of loader closures.

For a function whose parameters carry RAW (arbitrary user) data, compute the set of exception classes that may
escape, under the builtin effect table (exc_model) and a small type-refinement domain.
"""
from __future__ import annotations

import ast
from dataclasses import dataclass, field, replace
from typing import Any, Dict, FrozenSet, List, Optional, Sequence, Set, Tuple

from . import exc_model as M
from .core import AnalysisError, ClassInfo, ModuleInfo, Repo, func_params, norm, walk_no_nested
from .values import AV, FnCtx, Resolver, ctx_for, strip_elemof

RAW, LOADED, CLEAN = "RAW", "LOADED", "CLEAN"
TOP = "Exception"  # arbitrary exception from user-supplied code
USER = "UserError"  # pseudo class: a non-LoadError raised by user-supplied code (allowed to escape, C04 sentence 2)

EXT_TYPE_NAMES = {
    "builtins.int": "int", "builtins.bool": "bool", "builtins.float": "float", "builtins.complex": "complex",
    "builtins.str": "str", "builtins.bytes": "bytes", "builtins.bytearray": "bytearray", "builtins.tuple": "tuple",
    "builtins.list": "list", "builtins.dict": "dict", "builtins.set": "set", "builtins.frozenset": "frozenset",
    "decimal.Decimal": "Decimal", "fractions.Fraction": "Fraction", "builtins.type": "type",
    "collections.abc.Mapping": "Mapping", "collections.abc.MutableMapping": "Mapping", "typing.Mapping": "Mapping",
    "collections.abc.Iterable": "Iterable", "typing.Iterable": "Iterable", "collections.abc.Sequence": "Sequence",
    "collections.abc.Collection": "Collection", "collections.abc.Sized": "Sized",
    "collections.abc.Iterator": "iterator", "enum.Enum": "enum-member", "enum.Flag": "enum-member",
    "datetime.date": "date", "datetime.datetime": "datetime", "datetime.time": "time",
    "datetime.timedelta": "timedelta", "builtins.object": "object",
}
HASH_CONTAINER_CALLS = {"builtins.set", "builtins.frozenset", "builtins.dict", "collections.defaultdict",
                        "collections.OrderedDict"}
SEQ_CONTAINER_CALLS = {"builtins.tuple", "builtins.list"}
RESULT_TYPES = {
    "builtins.int": "int", "builtins.float": "float", "builtins.complex": "complex", "builtins.str": "str",
    "builtins.bool": "bool", "builtins.len": "int", "builtins.tuple": "tuple", "builtins.list": "list",
    "builtins.set": "set", "builtins.frozenset": "frozenset", "builtins.dict": "dict", "builtins.iter": "iterator",
    "builtins.repr": "str", "builtins.bytes": "bytes", "builtins.bytearray": "bytearray",
    "decimal.Decimal": "Decimal", "fractions.Fraction": "Fraction", "builtins.type": "type",
    "builtins.zip": "iterator", "builtins.enumerate": "iterator", "builtins.reversed": "iterator",
}
USER_CODE_NAMES = {"constructor", "saturator"}


@dataclass
class Val:
    taint: str = CLEAN
    types: Optional[FrozenSet[str]] = None
    pending: FrozenSet[EscKey] = frozenset()
    bound: Optional[str] = None          # bound method name taken from RAW data
    avs: Optional[List[AV]] = None       # resolution of a free callable
    elems: Optional[List["Val"]] = None  # tuple display elements
    typeof: Optional[str] = None         # this value is type(<var>)
    expr: Optional[ast.expr] = None
    const: Optional[bool] = None         # known boolean constant (flags)
    true_user_only: bool = False         # flag can only be True after user-supplied code raised
    member_of: FrozenSet[str] = frozenset()  # containers this value was tested to be a member of
    has_keys: FrozenSet[str] = frozenset()   # constant keys this (raw mapping) value was tested to contain
    keys_of: Optional[str] = None            # this collection holds (a subset of) the keys of the named raw mapping
    key_of: Optional[str] = None             # this value is a key of the named raw mapping (hence hashable, present)
    is_datum: bool = False                   # the loader's argument itself (not something derived from it)
    fieldvals: Optional[Dict[str, "Val"]] = None  # `self` of a repo class under construction: attribute -> constructor argument
    unbound_if: Optional[FrozenSet[str]] = None   # the name may be unbound (its only assignment sits in a try body that
    #                                               raised); the facts ('L:errors', 'F:flag') all hold on every such path

    def is_raw(self) -> bool:
        return self.taint == RAW


@dataclass
class Origin:
    exc: str
    construct: str
    module: ModuleInfo
    qual: str
    line: int
    via: Tuple[str, ...] = ()
    node: Any = None


EscKey = Tuple[str, str, str]  # (exception class, function qualname, construct)
Escapes = Dict[EscKey, Origin]


def esc_classes(esc: Escapes) -> Set[str]:
    return {k[0] for k in esc}


class Undetermined(AnalysisError):
    pass


def _merge_env(a: Dict[str, Val], b: Dict[str, Val]) -> Dict[str, Val]:
    out: Dict[str, Val] = {}
    for k in set(a) | set(b):
        va, vb = a.get(k), b.get(k)
        if va is None or vb is None:
            out[k] = va or vb  # type: ignore[assignment]
            continue
        if va is vb:
            out[k] = va
            continue
        taint = RAW if RAW in (va.taint, vb.taint) else (LOADED if LOADED in (va.taint, vb.taint) else CLEAN)
        types = None if (va.types is None or vb.types is None) else va.types | vb.types
        nv = Val(taint, types, va.pending | vb.pending, va.bound or vb.bound, va.avs or vb.avs,
                 None, va.typeof if va.typeof == vb.typeof else None)
        if va.const is not None or vb.const is not None or va.true_user_only or vb.true_user_only:
            nv.const = va.const if va.const == vb.const else None
            # True is user-only iff every side that may be True is user-only
            sides = [x for x in (va, vb) if x.const is not False]
            nv.true_user_only = bool(sides) and all(x.true_user_only for x in sides)
        nv.member_of = va.member_of & vb.member_of
        nv.has_keys = va.has_keys & vb.has_keys
        if va.unbound_if is not None or vb.unbound_if is not None:
            nv.unbound_if = va.unbound_if if vb.unbound_if is None else (
                vb.unbound_if if va.unbound_if is None else va.unbound_if & vb.unbound_if)
        out[k] = nv
    return out


def _handler_facts(h: ast.ExceptHandler) -> FrozenSet[str]:
    """what a handler that falls through leaves behind for later tests: lists it appended to, flags it set to True"""
    out = set()
    for st in h.body:
        if isinstance(st, ast.Expr) and isinstance(st.value, ast.Call) and isinstance(st.value.func, ast.Attribute) \
                and st.value.func.attr in ("append", "add") and isinstance(st.value.func.value, ast.Name):
            out.add("L:" + st.value.func.value.id)
        if isinstance(st, ast.Assign) and isinstance(st.targets[0], ast.Name) and isinstance(st.value, ast.Constant) \
                and st.value.value is True:
            out.add("F:" + st.targets[0].id)
    return frozenset(out)


def _refute(env: Dict[str, Val], name: str) -> Dict[str, Val]:
    """`name` (an error list / a flag) is known to be empty / False here: paths that appended to it / set it are excluded"""
    out = env
    for k, v in env.items():
        if v.unbound_if and (("L:" + name) in v.unbound_if or ("F:" + name) in v.unbound_if):
            if out is env:
                out = dict(env)
            out[k] = replace(v, unbound_if=None)
    return out


def _falsy_name(test: ast.expr) -> Tuple[Optional[str], Optional[str]]:
    """(name known falsy when the test is TRUE, name known falsy when the test is FALSE)"""
    if isinstance(test, ast.Name):
        return None, test.id
    if isinstance(test, ast.UnaryOp) and isinstance(test.op, ast.Not) and isinstance(test.operand, ast.Name):
        return test.operand.id, None
    return None, None


class Esc:
    def __init__(self, repo: Repo, resolver: Resolver, role: str = "loader",
                 freevar_model: Optional[Dict[str, str]] = None):
        self.repo = repo
        self.R = resolver
        self.role = role
        self.H = M.ExcHierarchy(self._repo_exc_bases())
        self.freevar_model = freevar_model or {}
        self.ops_evaluated = 0
        self.callees_resolved: Dict[str, str] = {}
        self._stack: List[int] = []
        self.user_code_calls: List[str] = []
        self.pending_origins: Dict[EscKey, Origin] = {}
        self.user_names: Set[str] = set()
        self.events: List[Tuple] = []          # acceptance events of the current root analysis (SIB rules)
        self.log_events = False
        self.freevar_funcs: Dict[str, Any] = {}  # callee text -> (FunctionDef, ModuleInfo, ClassInfo) bound for this mode

    # ------------------------------------------------------------------ exception classes of the repo
    def _repo_exc_bases(self) -> Dict[str, List[str]]:
        out: Dict[str, List[str]] = {}
        for ci in self.repo.all_classes():
            bases = []
            for be in ci.base_exprs:
                e = be.value if isinstance(be, ast.Subscript) else be
                r = self.repo.resolve_expr_static(ci.module, e)
                if r.kind == "class" and r.cls is not None:
                    bases.append(r.cls.name)
                elif r.kind == "ext":
                    bases.append(r.name[len("builtins."):] if r.name.startswith("builtins.") else r.name)
            out.setdefault(ci.name, bases)
        # keep only exception classes
        keep: Dict[str, List[str]] = {}
        H = M.ExcHierarchy(out)
        for name in out:
            if name in ("object",):
                continue
            if H.is_sub(name, "BaseException") and self._reaches_exception(name, out):
                keep[name] = out[name]
        return keep

    @staticmethod
    def _reaches_exception(name: str, bases: Dict[str, List[str]]) -> bool:
        import builtins as _b
        seen, stack = set(), [name]
        while stack:
            x = stack.pop()
            if x in seen:
                continue
            seen.add(x)
            c = getattr(_b, x, None)
            if isinstance(c, type) and issubclass(c, BaseException):
                return True
            if x in M._EXT_BASES:
                return True
            stack.extend(bases.get(x, []))
        return False

    # ------------------------------------------------------------------ entry
    def analyze(self, fctx: FnCtx, args: Optional[List[Val]] = None, via: Tuple[str, ...] = ()) -> Tuple[Escapes, Val]:
        fn = fctx.fn
        if id(fn) in self._stack or len(self._stack) > 8:
            return {}, Val(LOADED)
        self._stack.append(id(fn))
        try:
            params = func_params(fn)
            env: Dict[str, Val] = {}
            if args is None:
                args = [Val(RAW, is_datum=True)] + [Val(CLEAN)] * (len(params) - 1)
            for p, v in zip(params, args):
                env[p] = v
            for p in params[len(args):]:
                env[p] = Val(CLEAN)
            frame = _Frame(self, fctx, via)
            if isinstance(fn, ast.Lambda):
                esc: Escapes = {}
                rv = frame.eval(fn.body, env, esc)
                return esc, rv
            esc, _env, _ft = frame.exec_block(fn.body, env)
            rv = frame.return_val or Val(LOADED)
            return esc, rv
        finally:
            self._stack.pop()

    def exc_name_of(self, expr: Optional[ast.expr], fctx: FnCtx) -> List[str]:
        """Names of exception classes denoted by an `except` type expression / raise operand."""
        if expr is None:
            return ["BaseException"]
        if isinstance(expr, ast.Tuple):
            out: List[str] = []
            for e in expr.elts:
                out += self.exc_name_of(e, fctx)
            return out
        if isinstance(expr, ast.Call):
            return self.exc_name_of(expr.func, fctx)
        r = self.repo.resolve_expr_static(fctx.module, expr) if isinstance(expr, (ast.Name, ast.Attribute)) else None
        if r is not None:
            if r.kind == "class" and r.cls is not None:
                return [r.cls.name]
            if r.kind == "ext":
                return [self.H.canon(r.name)]
            if r.kind == "value" and isinstance(r.node, (ast.Name, ast.Attribute)) and r.module is not None:
                r2 = self.repo.resolve_expr_static(r.module, r.node)
                if r2.kind == "ext":
                    return [self.H.canon(r2.name)]
                if r2.kind == "class" and r2.cls is not None:
                    return [r2.cls.name]
        return ["?" + norm(expr)]


class _Frame:
    def __init__(self, esc: Esc, fctx: FnCtx, via: Tuple[str, ...]):
        self.A = esc
        self.fctx = fctx
        self.via = via
        self.return_val: Optional[Val] = None
        self.caught_stack: List[Dict[str, List[Origin]]] = []
        self.handler_names: List[Optional[str]] = []
        self.user_mode = 0

    # ------------------------------------------------------------------ helpers
    def ev(self, *e) -> None:
        if self.A.log_events:
            self.A.events.append(tuple(e))

    def origin(self, exc: str, node: ast.AST) -> Origin:
        return Origin(exc, norm(node)[:200], self.fctx.module, self.fctx.qual, getattr(node, "lineno", 0), self.via, node)

    def add(self, esc: Escapes, excs, node: ast.AST) -> None:
        for e in excs:
            e = self.A.H.canon(e)
            if self.user_mode and not self.A.H.is_sub(e, "LoadError"):
                e = USER
            o = self.origin(e, node)
            esc.setdefault((e, o.qual, o.construct), o)

    def reraise(self, esc: Escapes, caught: Dict[str, List[Origin]], node: ast.AST) -> None:
        for e, origins in caught.items():
            for o in origins:
                if self.user_mode and not self.A.H.is_sub(e, "LoadError"):
                    esc.setdefault((USER, o.qual, o.construct), replace(o, exc=USER))
                else:
                    esc.setdefault((e, o.qual, o.construct), replace(o, exc=e))

    def release(self, esc: Escapes, pending: FrozenSet[EscKey], node: ast.AST) -> None:
        for k in pending:
            o = self.A.pending_origins.get(k)
            if o is None:
                self.add(esc, {k[0]}, node)
            elif self.user_mode and not self.A.H.is_sub(k[0], "LoadError"):
                esc.setdefault((USER, o.qual, o.construct), replace(o, exc=USER))
            else:
                esc.setdefault(k, o)

    def type_names_of(self, expr: ast.expr, env: Dict[str, Val]) -> Optional[FrozenSet[str]]:
        """Type names denoted by T in isinstance(x, T) / type(x) is T / type(x) in T."""
        if isinstance(expr, (ast.Tuple, ast.List, ast.Set)):
            out: Set[str] = set()
            for e in expr.elts:
                t = self.type_names_of(e, env)
                if t is None:
                    return None
                out |= t
            return frozenset(out)
        if isinstance(expr, ast.Constant) and expr.value is None:
            return frozenset({"NoneType"})
        if isinstance(expr, ast.Call) and isinstance(expr.func, ast.Name) and expr.func.id == "type" \
                and len(expr.args) == 1 and isinstance(expr.args[0], ast.Constant) and expr.args[0].value is None:
            return frozenset({"NoneType"})
        if isinstance(expr, ast.Name) and expr.id in env:
            return None
        avs = self.A.R.resolve(expr, self.fctx)
        out = set()
        for av in avs:
            av = strip_elemof(av)
            if av[0] == "ext":
                out.add(EXT_TYPE_NAMES.get(av[1], "?" + av[1]))
            elif av[0] == "cls":
                out.add("repo:" + av[1].name)
            elif av[0] == "expr" and isinstance(av[1], (ast.Tuple, ast.List)):
                sub_ctx = av[2]
                for e in av[1].elts:
                    r = self.A.repo.resolve_expr_static(av[3], e) if isinstance(e, (ast.Name, ast.Attribute)) else None
                    if r is not None and r.kind == "ext":
                        out.add(EXT_TYPE_NAMES.get(r.name, "?" + r.name))
                    elif r is not None and r.kind == "class":
                        out.add("repo:" + r.cls.name)
                    else:
                        return None
            elif av[0] == "expr" and isinstance(av[1], ast.Call):
                # tuple(...)/list(...) wrapper kept by the resolver next to its contents
                continue
            else:
                out.add("?" + norm(expr))
        return frozenset(out) if out else None

    def refine(self, test: ast.expr, env: Dict[str, Val]) -> Tuple[Dict[str, Val], Dict[str, Val]]:
        """(env if test true, env if test false)"""
        if isinstance(test, ast.UnaryOp) and isinstance(test.op, ast.Not):
            t, f = self.refine(test.operand, env)
            return f, t
        if isinstance(test, ast.BoolOp):
            if isinstance(test.op, ast.And):
                cur = env
                for v in test.values:
                    cur, _ = self.refine(v, cur)
                return cur, env
            cur = env
            for v in test.values:
                _, cur = self.refine(v, cur)
            return env, cur
        if isinstance(test, ast.Call) and isinstance(test.func, ast.Name) and test.func.id == "isinstance" \
                and len(test.args) == 2 and isinstance(test.args[0], ast.Name):
            var = test.args[0].id
            if var in env and env[var].taint == RAW:
                tn = self.type_names_of(test.args[1], env)
                if tn is not None:
                    t = dict(env)
                    t[var] = replace(env[var], types=tn)
                    return t, env
            return env, env
        if isinstance(test, ast.Compare) and len(test.ops) == 1 and isinstance(test.ops[0], (ast.In, ast.NotIn)) \
                and isinstance(test.left, ast.Constant) and isinstance(test.comparators[0], ast.Name) \
                and test.comparators[0].id in env and env[test.comparators[0].id].taint == RAW:
            nm = test.comparators[0].id
            t = dict(env)
            t[nm] = replace(env[nm], has_keys=env[nm].has_keys | {repr(test.left.value)})
            return (t, env) if isinstance(test.ops[0], ast.In) else (env, t)
        if isinstance(test, ast.Compare) and len(test.ops) == 1 and isinstance(test.ops[0], (ast.In, ast.NotIn)) \
                and isinstance(test.left, ast.Name) and test.left.id in env and isinstance(test.comparators[0], ast.Name):
            t = dict(env)
            t[test.left.id] = replace(env[test.left.id], member_of=env[test.left.id].member_of | {test.comparators[0].id})
            return (t, env) if isinstance(test.ops[0], ast.In) else (env, t)
        if isinstance(test, ast.Compare) and len(test.ops) == 1:
            op, left, right = test.ops[0], test.left, test.comparators[0]
            var = None
            if isinstance(left, ast.Call) and isinstance(left.func, ast.Name) and left.func.id == "type" \
                    and len(left.args) == 1 and isinstance(left.args[0], ast.Name):
                var = left.args[0].id
            elif isinstance(left, ast.Name) and left.id in env and env[left.id].typeof:
                var = env[left.id].typeof
            if var is not None and var in env and env[var].taint == RAW:
                tn = self.type_names_of(right, env)
                if tn is not None:
                    t = dict(env)
                    t[var] = replace(env[var], types=tn)
                    if isinstance(op, (ast.Is, ast.Eq, ast.In)):
                        return t, env
                    if isinstance(op, (ast.IsNot, ast.NotEq, ast.NotIn)):
                        return env, t
                return env, env
            if isinstance(left, ast.Name) and left.id in env and env[left.id].taint == RAW \
                    and isinstance(right, ast.Constant) and right.value is None:
                t = dict(env)
                t[left.id] = replace(env[left.id], types=frozenset({"NoneType"}))
                if isinstance(op, (ast.Is, ast.Eq)):
                    return t, env
                if isinstance(op, (ast.IsNot, ast.NotEq)):
                    return env, t
        return env, env

    # ------------------------------------------------------------------ statements
    def exec_block(self, stmts: Sequence[ast.stmt], env: Dict[str, Val]) -> Tuple[Escapes, Dict[str, Val], bool]:
        esc: Escapes = {}
        for st in stmts:
            e, env, ft = self.exec_stmt(st, env)
            for k, v in e.items():
                esc.setdefault(k, v)
            if not ft:
                return esc, env, False
        return esc, env, True

    def bind(self, target: ast.expr, val: Val, env: Dict[str, Val], esc: Escapes, elem_of_iter: bool = False) -> None:
        if isinstance(target, ast.Name):
            env[target.id] = val
        elif isinstance(target, (ast.Tuple, ast.List)):
            if val.taint == RAW and not elem_of_iter and val.elems is None:
                # unpacking raw data: wrong arity / not iterable
                if val.types is None or not val.types <= {"tuple"}:
                    self.add(esc, {"TypeError", "ValueError"}, target)
            for i, t in enumerate(target.elts):
                if val.elems is not None and i < len(val.elems):
                    self.bind(t, val.elems[i], env, esc)
                else:
                    self.bind(t, Val(val.taint), env, esc, elem_of_iter)
        elif isinstance(target, ast.Starred):
            self.bind(target.value, Val(val.taint), env, esc)
        elif isinstance(target, ast.Subscript):
            cont = self.eval(target.value, env, esc)
            key = self.eval(target.slice, env, esc)
            if key.taint == RAW and not self.hashable(key):
                self.add(esc, {"TypeError"}, target)
            if cont.taint == RAW:
                self.add(esc, {"TypeError"}, target)
        elif isinstance(target, ast.Attribute):
            self.eval(target.value, env, esc)

    def bind_loop(self, target: ast.expr, iter_node: ast.expr, it: Val, env: Dict[str, Val], esc: Escapes) -> None:
        """Bind a for/comprehension target; zip()/enumerate() are split per argument."""
        if isinstance(iter_node, ast.Call) and isinstance(target, (ast.Tuple, ast.List)):
            name = self.A.R._callee_ext(iter_node.func, self.fctx) if not (
                isinstance(iter_node.func, ast.Name) and iter_node.func.id in env) else None
            if name == "builtins.zip" and len(target.elts) == len(iter_node.args):
                for t, a in zip(target.elts, iter_node.args):
                    sub: Escapes = {}
                    av = self.eval(a, env, sub)
                    self.bind(t, self.elem_of(av, a, env), env, esc, elem_of_iter=True)
                return
            if name == "builtins.enumerate" and len(target.elts) == 2 and iter_node.args:
                sub = {}
                av = self.eval(iter_node.args[0], env, sub)
                self.bind(target.elts[0], Val(CLEAN, frozenset({"int"})), env, esc)
                self.bind_loop(target.elts[1], iter_node.args[0], av, env, esc)
                return
        self.bind(target, self.elem_of(it, iter_node, env), env, esc, elem_of_iter=True)

    def exec_stmt(self, st: ast.stmt, env: Dict[str, Val]) -> Tuple[Escapes, Dict[str, Val], bool]:
        esc: Escapes = {}
        A = self.A
        if isinstance(st, ast.Expr):
            env = dict(env)
            self.eval(st.value, env, esc)
            return esc, env, True
        if isinstance(st, ast.Assign):
            env = dict(env)
            v = self.eval(st.value, env, esc)
            if isinstance(st.value, ast.Constant) and isinstance(st.value.value, bool):
                v = Val(CLEAN, frozenset({"bool"}), const=st.value.value)
                if st.value.value is True:
                    caught = self.caught_stack[-1] if self.caught_stack else None
                    v.true_user_only = caught is not None and all(c == USER for c in caught)
            for t in st.targets:
                self.bind(t, v, env, esc)
            return esc, env, True
        if isinstance(st, ast.AnnAssign):
            env = dict(env)
            if st.value is not None:
                v = self.eval(st.value, env, esc)
                self.bind(st.target, v, env, esc)
            return esc, env, True
        if isinstance(st, ast.AugAssign):
            fake = ast.BinOp(left=_load(st.target), op=st.op, right=st.value)
            ast.copy_location(fake, st)
            v = self.eval(fake, env, esc)
            env = dict(env)
            self.bind(st.target, v, env, esc)
            return esc, env, True
        if isinstance(st, ast.Return):
            if st.value is not None:
                if not self.via:
                    head = norm(st.value.func) if isinstance(st.value, ast.Call) else (
                        "DATUM" if isinstance(st.value, ast.Name) and st.value.id in env and env[st.value.id].is_datum
                        else type(st.value).__name__)
                    self.ev("return", head)
                v = self.eval(st.value, env, esc)
                if v.pending:
                    # a lazy iterable returned to the caller: released at the caller
                    pass
                self.return_val = v if self.return_val is None else _join_val(self.return_val, v)
            return esc, env, False
        if isinstance(st, ast.Raise):
            self.exec_raise(st, env, esc)
            return esc, env, False
        if isinstance(st, ast.If):
            env = dict(env)
            self._log_test(st.test, env)
            self.eval(st.test, env, esc)
            et, ef = self.refine(st.test, env)
            fz_t, fz_f = _falsy_name(st.test)
            if fz_t is not None:
                et = _refute(et, fz_t)
            if fz_f is not None:
                ef = _refute(ef, fz_f)
            flag = self._flag_of(st.test, env)
            if flag is not None and flag[1].const is flag[0] is False:
                pass
            body_dead = flag is not None and ((flag[0] is True and flag[1].const is False) or (flag[0] is False and flag[1].const is True))
            else_dead = flag is not None and ((flag[0] is True and flag[1].const is True) or (flag[0] is False and flag[1].const is False))
            user_body = flag is not None and flag[0] is True and flag[1].true_user_only and flag[1].const is not False
            if body_dead:
                e1, env1, ft1 = {}, et, False
            else:
                if user_body:
                    self.user_mode += 1
                try:
                    e1, env1, ft1 = self.exec_block(st.body, et)
                finally:
                    if user_body:
                        self.user_mode -= 1
            if else_dead:
                e2, env2, ft2 = {}, ef, False
            else:
                e2, env2, ft2 = self.exec_block(st.orelse, ef) if st.orelse else ({}, ef, True)
            if body_dead and else_dead:
                return esc, env, True
            for k, v in list(e1.items()) + list(e2.items()):
                esc.setdefault(k, v)
            if ft1 and ft2:
                return esc, _merge_env(env1, env2), True
            if ft1:
                return esc, env1, True
            if ft2:
                return esc, env2, True
            return esc, env, False
        if isinstance(st, (ast.For, ast.AsyncFor)):
            it = self.eval(st.iter, env, esc)
            self.consume_iter(it, st.iter, esc)
            env_b = dict(env)
            self.bind_loop(st.target, st.iter, it, env_b, esc)
            e1, env1, _ = self.exec_block(st.body, env_b)
            # second pass so that state produced by the first iteration is visible
            e1b, env1b, _ = self.exec_block(st.body, _merge_env(env_b, env1))
            e2, env2, ft2 = self.exec_block(st.orelse, _merge_env(env, env1b)) if st.orelse else ({}, None, True)
            for k, v in list(e1.items()) + list(e1b.items()) + list(e2.items()):
                esc.setdefault(k, v)
            out_env = _merge_env(env, env1b)
            if env2 is not None:
                out_env = _merge_env(out_env, env2)
            return esc, out_env, True
        if isinstance(st, ast.While):
            self.eval(st.test, env, esc)
            e1, env1, _ = self.exec_block(st.body, env)
            e1b, env1b, _ = self.exec_block(st.body, _merge_env(env, env1))
            for k, v in list(e1.items()) + list(e1b.items()):
                esc.setdefault(k, v)
            infinite = isinstance(st.test, ast.Constant) and st.test.value is True \
                and not any(isinstance(n, ast.Break) for n in walk_no_nested(st))
            return esc, _merge_env(env, env1b), not infinite
        if isinstance(st, ast.Try):
            return self.exec_try(st, env)
        if isinstance(st, (ast.With, ast.AsyncWith)):
            env = dict(env)
            for it in st.items:
                v = self.eval(it.context_expr, env, esc)
                if it.optional_vars is not None:
                    self.bind(it.optional_vars, v, env, esc)
            e1, env1, ft = self.exec_block(st.body, env)
            for k, v in e1.items():
                esc.setdefault(k, v)
            return esc, env1, ft
        if isinstance(st, (ast.Pass, ast.Global, ast.Nonlocal, ast.Import, ast.ImportFrom)):
            return esc, env, True
        if isinstance(st, (ast.Continue, ast.Break)):
            return esc, env, False
        if isinstance(st, (ast.FunctionDef, ast.AsyncFunctionDef, ast.ClassDef)):
            return esc, env, True
        if isinstance(st, ast.Assert):
            self.eval(st.test, env, esc)
            self.add(esc, {"AssertionError"}, st)
            return esc, env, True
        if isinstance(st, ast.Delete):
            for t in st.targets:
                if isinstance(t, ast.Subscript):
                    c = self.eval(t.value, env, esc)
                    if c.taint == RAW:
                        self.add(esc, {"TypeError", "KeyError", "IndexError"}, st)
            return esc, env, True
        if isinstance(st, ast.Match):
            self.eval(st.subject, env, esc)
            outs = []
            for case in st.cases:
                e1, env1, ft1 = self.exec_block(case.body, env)
                for k, v in e1.items():
                    esc.setdefault(k, v)
                if ft1:
                    outs.append(env1)
            cur = env
            for o in outs:
                cur = _merge_env(cur, o)
            return esc, cur, True
        raise Undetermined(f"unknown statement kind {type(st).__name__} in {self.fctx.qual}")

    def _log_test(self, test: ast.expr, env: Dict[str, Val]) -> None:
        if not self.A.log_events:
            return
        datum_names = {k for k, v in env.items() if v.is_datum}
        typeof_names = {k for k, v in env.items() if v.typeof in datum_names}
        names = {n.id for n in ast.walk(test) if isinstance(n, ast.Name)}
        if names & (datum_names | typeof_names):
            txt = norm(test)
            import re as _re
            for dn in sorted(datum_names, key=len, reverse=True):
                txt = _re.sub(rf"\b{_re.escape(dn)}\b", "DATUM", txt)
            for tn in sorted(typeof_names, key=len, reverse=True):
                txt = _re.sub(rf"\b{_re.escape(tn)}\b", "type(DATUM)", txt)
            self.ev("test", txt)

    def _flag_of(self, test: ast.expr, env: Dict[str, Val]):
        """(polarity, Val) when the test is `flag` / `not flag` of a tracked boolean flag."""
        if isinstance(test, ast.Name) and test.id in env and (env[test.id].const is not None or env[test.id].true_user_only):
            return True, env[test.id]
        if isinstance(test, ast.UnaryOp) and isinstance(test.op, ast.Not):
            inner = self._flag_of(test.operand, env)
            if inner is not None:
                return (not inner[0]), inner[1]
        return None

    def exec_raise(self, st: ast.Raise, env: Dict[str, Val], esc: Escapes) -> None:
        if st.exc is None:
            if not self.caught_stack:
                self.add(esc, {TOP}, st)
            else:
                self.reraise(esc, self.caught_stack[-1], st)
            return
        if st.cause is not None:
            self.eval(st.cause, env, esc)
        exc = st.exc
        if isinstance(exc, ast.Name) and self.handler_names and exc.id in [h for h in self.handler_names if h]:
            idx = max(i for i, h in enumerate(self.handler_names) if h == exc.id)
            self.reraise(esc, self.caught_stack[idx], st)
            return
        if isinstance(exc, ast.Call):
            for a in exc.args:
                self.eval(a, env, esc)
            for kw in exc.keywords:
                self.eval(kw.value, env, esc)
            # raise helper(...) where helper returns its (annotated) argument, e.g. raise append_trail(e, k)
            names = self.A.exc_name_of(exc.func, self.fctx)
            if names and not names[0].startswith("?") and self.A.H.known(names[0]):
                self.ev("reject", names[0], len(exc.args) + len(exc.keywords))
                self.add(esc, names, st)
                return
            passthrough = self._passthrough_exc(exc, env)
            if passthrough is not None:
                self.add(esc, passthrough, st)
                return
            self.add(esc, {TOP}, st)
            return
        names = self.A.exc_name_of(exc, self.fctx)
        if names and not names[0].startswith("?") and self.A.H.known(names[0]):
            self.ev("reject", names[0], 0)
            self.add(esc, names, st)
        else:
            self.add(esc, {TOP}, st)

    def _passthrough_exc(self, call: ast.Call, env: Dict[str, Val]) -> Optional[Set[str]]:
        """`raise f(e, ...)` where some argument is (transitively) the caught exception or an exception ctor."""
        out: Set[str] = set()
        for a in call.args:
            if isinstance(a, ast.Name) and a.id in [h for h in self.handler_names if h]:
                idx = max(i for i, h in enumerate(self.handler_names) if h == a.id)
                out |= set(self.caught_stack[idx])
            elif isinstance(a, ast.Call):
                names = self.A.exc_name_of(a.func, self.fctx)
                if names and not names[0].startswith("?") and self.A.H.known(names[0]):
                    out |= set(names)
                else:
                    sub = self._passthrough_exc(a, env)
                    if sub:
                        out |= sub
        return out or None

    def exec_try(self, st: ast.Try, env: Dict[str, Val]) -> Tuple[Escapes, Dict[str, Val], bool]:
        H = self.A.H
        body_esc, env_b, ft_b = self.exec_block(st.body, env)
        remaining: Escapes = dict(body_esc)
        out: Escapes = {}
        envs: List[Dict[str, Val]] = []
        falls = False
        env_h0 = _merge_env(env, env_b)
        for h in st.handlers:
            hnames = self.A.exc_name_of(h.type, self.fctx)
            caught: Dict[str, List[Origin]] = {}
            for ek in list(remaining):
                e = ek[0]
                for hn in hnames:
                    if hn.startswith("?"):
                        # unresolvable handler type: assume it may catch, keep the exception too
                        caught.setdefault(e, []).append(remaining[ek])
                        break
                    if H.is_sub(e, hn):
                        caught.setdefault(e, []).append(remaining[ek])
                        del remaining[ek]
                        break
                    if H.is_sub(hn, e):
                        caught.setdefault(hn, []).append(remaining[ek])  # narrowed; the broader one may still escape
                        break
            if not caught:
                continue
            self.caught_stack.append(caught)
            self.handler_names.append(h.name)
            try:
                env_h = dict(env_h0)
                if set(caught) <= {"KeyError", "IndexError"}:
                    # a KeyError/IndexError out of `x[const]` proves that x is subscriptable by that kind of key
                    for origins in caught.values():
                        for o in origins:
                            nd = o.node
                            if isinstance(nd, ast.Subscript) and isinstance(nd.value, ast.Name) \
                                    and nd.value.id in env_b and nd.value.id in env_h:
                                vb = env_b[nd.value.id]
                                if vb.taint == RAW and vb.types is not None and vb.types <= {"Mapping", "IntSubscriptable"}:
                                    env_h[nd.value.id] = vb
                if h.name:
                    env_h[h.name] = Val(CLEAN, frozenset({"exc"}))
                new_in_body = [k for k in env_b if k not in env and k != h.name]
                for k in new_in_body:
                    if k in env_h and env_h[k].unbound_if is None:
                        env_h[k] = replace(env_h[k], unbound_if=frozenset())
                e_h, env_ho, ft_h = self.exec_block(h.body, env_h)
                if ft_h:
                    facts = _handler_facts(h)
                    env_ho = dict(env_ho)
                    for k in new_in_body:
                        if k in env_ho and env_ho[k].unbound_if is not None:
                            env_ho[k] = replace(env_ho[k], unbound_if=env_ho[k].unbound_if | facts)
            finally:
                self.caught_stack.pop()
                self.handler_names.pop()
            for k, v in e_h.items():
                out.setdefault(k, v)
            if ft_h:
                falls = True
                envs.append(env_ho)
        if ft_b:
            if st.orelse:
                e_e, env_e, ft_e = self.exec_block(st.orelse, env_b)
                for k, v in e_e.items():
                    out.setdefault(k, v)
                if ft_e:
                    falls = True
                    envs.append(env_e)
            else:
                falls = True
                envs.append(env_b)
        for k, v in remaining.items():
            out.setdefault(k, v)
        env_out = envs[0] if envs else env
        for e2 in envs[1:]:
            env_out = _merge_env(env_out, e2)
        if st.finalbody:
            e_f, env_out, ft_f = self.exec_block(st.finalbody, env_out)
            for k, v in e_f.items():
                out.setdefault(k, v)
            falls = falls and ft_f
        return out, env_out, falls

    # ------------------------------------------------------------------ expressions
    def hashable(self, v: Val) -> bool:
        if v.taint != RAW or v.key_of is not None:
            return True
        if v.elems is not None:
            return all(self.hashable(e) for e in v.elems)
        if v.types is None:
            return False
        return all(t in M.HASHABLE_SCALARS for t in v.types)

    def elem_of(self, it: Val, node: ast.expr, env: Dict[str, Val]) -> Val:
        if it.taint == RAW and it.keys_of is not None:
            return Val(RAW, key_of=it.keys_of)
        if it.taint == RAW and isinstance(node, ast.Name) and it.types is not None and it.types <= {"Mapping", "dict"}:
            return Val(RAW, key_of=node.id)
        if it.taint == RAW:
            if it.types is not None and it.types <= {"str"}:
                return Val(RAW, frozenset({"str"}))
            return Val(RAW)
        if it.taint == LOADED:
            return Val(LOADED)
        # clean iterable: loop variable resolves through the resolver on demand
        return Val(CLEAN, expr=None)

    def consume_iter(self, it: Val, node: ast.expr, esc: Escapes) -> None:
        if it.is_datum:
            self.ev("probe", "iter")
        if it.pending:
            self.release(esc, it.pending, node)
        if it.taint == RAW and it.bound is None:
            eff = M.call_effect("builtins.iter", it.types)
            self.add(esc, eff or (), node)

    def container_kind(self, v: Val, node: ast.expr) -> str:
        """'hash' | 'seq' | 'mixed' | 'str' | 'unknown' for the right operand of `in` / subscripted object."""
        if v.taint == RAW:
            if v.types is None:
                return "rawany"
            if v.types <= {"dict", "set", "frozenset", "Mapping"}:
                return "hash"
            if v.types <= {"tuple", "list", "Sequence"}:
                return "seq"
            if v.types <= {"str", "bytes"}:
                return "str"
            return "rawany"
        if isinstance(node, (ast.Tuple, ast.List)):
            return "seq"
        if isinstance(node, (ast.Set, ast.Dict, ast.SetComp, ast.DictComp)):
            return "hash"
        if isinstance(node, ast.ListComp):
            return "seq"
        if v.types is not None:
            if v.types <= {"dict", "set", "frozenset"}:
                return "hash"
            if v.types <= {"tuple", "list"}:
                return "seq"
        avs = v.avs if v.avs is not None else self.A.R.resolve(node, self.fctx)
        kinds: Set[str] = set()
        for av in avs:
            av = strip_elemof(av) if av[0] != "elemof" else ("unknown", "elem")
            if av[0] in ("provided", "func"):
                continue
            if av[0] == "expr":
                n = av[1]
                if isinstance(n, (ast.Set, ast.Dict, ast.SetComp, ast.DictComp)):
                    kinds.add("hash")
                elif isinstance(n, (ast.Tuple, ast.List, ast.ListComp)):
                    kinds.add("seq")
                elif isinstance(n, ast.Call):
                    name = self.A.R._callee_ext(n.func, av[2])
                    if name in HASH_CONTAINER_CALLS:
                        kinds.add("hash")
                    elif name in SEQ_CONTAINER_CALLS:
                        kinds.add("seq")
                    else:
                        kinds.add("unknown")
                else:
                    kinds.add("unknown")
            elif av[0] == "extcall":
                if av[1] in HASH_CONTAINER_CALLS:
                    kinds.add("hash")
                elif av[1] in SEQ_CONTAINER_CALLS:
                    kinds.add("seq")
                else:
                    kinds.add("unknown")
            elif av[0] == "const":
                if av[1] is None:
                    continue  # Optional container: the None case cannot be subscripted / searched
                kinds.add("str" if isinstance(av[1], (str, bytes)) else "unknown")
            else:
                kinds.add("unknown")
        if not kinds:
            return "unknown"
        if kinds == {"hash"}:
            return "hash"
        if kinds == {"seq"}:
            return "seq"
        if kinds <= {"hash", "seq"}:
            return "mixed"
        return "unknown"

    def eval(self, e: ast.expr, env: Dict[str, Val], esc: Escapes) -> Val:
        A = self.A
        A.ops_evaluated += 1
        if isinstance(e, ast.Constant):
            return Val(CLEAN, frozenset({type(e.value).__name__}))
        if isinstance(e, ast.Name):
            if e.id in env:
                v0 = env[e.id]
                if v0.unbound_if is not None and isinstance(e.ctx, ast.Load):
                    self.add(esc, {"UnboundLocalError"}, e)
                return v0
            return Val(CLEAN, expr=e)
        if isinstance(e, (ast.Tuple, ast.List, ast.Set)):
            elems = [self.eval(x, env, esc) for x in e.elts]
            taint = RAW if any(x.taint == RAW for x in elems) else (LOADED if any(x.taint == LOADED for x in elems) else CLEAN)
            if isinstance(e, ast.Set):
                for x, n in zip(elems, e.elts):
                    if not self.hashable(x):
                        self.add(esc, {"TypeError"}, e)
            tname = {ast.Tuple: "tuple", ast.List: "list", ast.Set: "set"}[type(e)]
            pend = frozenset().union(*[x.pending for x in elems]) if elems else frozenset()
            return Val(taint, frozenset({tname}), pend, elems=elems if isinstance(e, ast.Tuple) else None)
        if isinstance(e, ast.Dict):
            taint = CLEAN
            for k, v in zip(e.keys, e.values):
                if k is not None:
                    kv = self.eval(k, env, esc)
                    if not self.hashable(kv):
                        self.add(esc, {"TypeError"}, e)
                    if kv.taint == RAW:
                        taint = RAW
                vv = self.eval(v, env, esc)
                if k is None and vv.taint == RAW:
                    self.add(esc, {"TypeError"}, e)
                if vv.taint == RAW:
                    taint = RAW
            return Val(taint, frozenset({"dict"}))
        if isinstance(e, ast.Starred):
            v = self.eval(e.value, env, esc)
            self.consume_iter(v, e.value, esc)
            return Val(v.taint)
        if isinstance(e, ast.JoinedStr):
            for v in e.values:
                if isinstance(v, ast.FormattedValue):
                    self.eval(v.value, env, esc)
            return Val(CLEAN, frozenset({"str"}))
        if isinstance(e, ast.FormattedValue):
            self.eval(e.value, env, esc)
            return Val(CLEAN, frozenset({"str"}))
        if isinstance(e, ast.NamedExpr):
            v = self.eval(e.value, env, esc)
            if isinstance(e.target, ast.Name):
                env[e.target.id] = v
            return v
        if isinstance(e, ast.Lambda):
            return Val(CLEAN, avs=[("func", e, self.fctx.module, self.fctx.cls)])
        if isinstance(e, ast.IfExp):
            self.eval(e.test, env, esc)
            et, ef = self.refine(e.test, env)
            a = self.eval(e.body, et, esc)
            b = self.eval(e.orelse, ef, esc)
            return _join_val(a, b)
        if isinstance(e, ast.BoolOp):
            cur = env
            vals = []
            for v in e.values:
                vals.append(self.eval(v, cur, esc))
                t, f = self.refine(v, cur)
                cur = t if isinstance(e.op, ast.And) else f
            out = vals[0]
            for v in vals[1:]:
                out = _join_val(out, v)
            return out
        if isinstance(e, ast.UnaryOp):
            v = self.eval(e.operand, env, esc)
            if isinstance(e.op, ast.Not):
                return Val(CLEAN, frozenset({"bool"}))
            if v.taint == RAW:
                eff: Set[str] = set()
                for t in (v.types or {"ANY"}):
                    eff |= {"TypeError"} if t not in M.NUMERIC | {"Decimal", "Fraction", "complex"} else set()
                self.add(esc, eff, e)
            return Val(v.taint, v.types)
        if isinstance(e, ast.BinOp):
            return self.eval_binop(e, env, esc)
        if isinstance(e, ast.Compare):
            return self.eval_compare(e, env, esc)
        if isinstance(e, ast.Attribute):
            v = self.eval(e.value, env, esc)
            if v.fieldvals is not None:
                return v.fieldvals.get(e.attr, Val(CLEAN, expr=e))
            if v.taint == RAW:
                if v.is_datum:
                    self.ev("probe", "." + e.attr)
                eff2 = M.method_effect(e.attr, v.types)
                if eff2 is None:
                    self.add(esc, {"AttributeError"}, e)
                elif "AttributeError" in eff2:
                    self.add(esc, {"AttributeError"}, e)
                if e.attr in ("get", "items", "keys", "values") and isinstance(e.value, ast.Name) \
                        and e.value.id in env and v.types is None and v.bound is None:
                    # only mappings have these attributes in the data universe
                    env[e.value.id] = replace(v, types=frozenset({"Mapping"}))
                return Val(RAW, None, bound=e.attr)
            if v.taint == LOADED:
                return Val(LOADED)
            return Val(CLEAN, expr=e)
        if isinstance(e, ast.Subscript):
            return self.eval_subscript(e, env, esc)
        if isinstance(e, ast.Slice):
            for x in (e.lower, e.upper, e.step):
                if x is not None:
                    self.eval(x, env, esc)
            return Val(CLEAN)
        if isinstance(e, (ast.ListComp, ast.SetComp, ast.GeneratorExp, ast.DictComp)):
            return self.eval_comp(e, env, esc)
        if isinstance(e, (ast.Yield, ast.YieldFrom)):
            if e.value is not None:
                v = self.eval(e.value, env, esc)
                if isinstance(e, ast.YieldFrom):
                    self.consume_iter(v, e.value, esc)
            return Val(CLEAN)
        if isinstance(e, ast.Await):
            return self.eval(e.value, env, esc)
        if isinstance(e, ast.Call):
            return self.eval_call(e, env, esc)
        raise Undetermined(f"unknown expression kind {type(e).__name__} in {self.fctx.qual}")

    def eval_comp(self, e, env: Dict[str, Val], esc: Escapes) -> Val:
        env = dict(env)
        for g in e.generators:
            it = self.eval(g.iter, env, esc)
            self.consume_iter(it, g.iter, esc)
            self.bind_loop(g.target, g.iter, it, env, esc)
            for c in g.ifs:
                self.eval(c, env, esc)
                env, _ = self.refine(c, env)
        if isinstance(e, ast.DictComp):
            k = self.eval(e.key, env, esc)
            v = self.eval(e.value, env, esc)
            if not self.hashable(k):
                self.add(esc, {"TypeError"}, e)
            return Val(RAW if RAW in (k.taint, v.taint) else LOADED, frozenset({"dict"}))
        v = self.eval(e.elt, env, esc)
        if isinstance(e, ast.SetComp) and not self.hashable(v):
            self.add(esc, {"TypeError"}, e)
        tname = {ast.ListComp: "list", ast.SetComp: "set", ast.GeneratorExp: "iterator"}[type(e)]
        return Val(v.taint if v.taint != CLEAN else LOADED, frozenset({tname}))

    def eval_binop(self, e: ast.BinOp, env: Dict[str, Val], esc: Escapes) -> Val:
        l = self.eval(e.left, env, esc)
        r = self.eval(e.right, env, esc)
        if l.taint != RAW and r.taint != RAW:
            return Val(LOADED if LOADED in (l.taint, r.taint) else CLEAN, l.types if l.types == r.types else None)
        raw = l if l.taint == RAW else r
        other = r if raw is l else l
        SETS = {"set", "frozenset"}
        if isinstance(e.op, (ast.Sub, ast.BitAnd, ast.BitOr, ast.BitXor)) and raw.types is not None and raw.types <= SETS:
            ok_other = other.taint != RAW or (other.types is not None and other.types <= SETS)
            if ok_other:
                keep = raw.keys_of if isinstance(e.op, (ast.Sub, ast.BitAnd)) and raw is l else None
                return Val(RAW, raw.types, keys_of=keep)
        eff: Set[str] = set()
        if isinstance(e.op, ast.Mod) and raw is l and raw.types is not None and raw.types <= {"str", "bytes"}:
            eff |= {"TypeError", "ValueError"}
        for t in (raw.types or {"ANY"}):
            if t == "Decimal" and isinstance(e.op, (ast.Mod, ast.FloorDiv)):
                eff |= M.ARITH_DECIMAL_MODLIKE
            else:
                eff |= M.ARITH.get(t, M.ARITH["ANY"])
        if isinstance(e.op, (ast.Div, ast.FloorDiv, ast.Mod)):
            nonzero_const = isinstance(e.right, ast.Constant) and isinstance(e.right.value, (int, float)) and e.right.value != 0
            if not nonzero_const and (r.taint == RAW):
                eff |= set(M.ARITH_DIV_EXTRA)
        if isinstance(e.op, ast.Pow) and raw.types is not None and raw.types & {"int", "float"}:
            eff |= {"OverflowError", "ZeroDivisionError"}
        if isinstance(e.op, (ast.LShift,)) and raw.types is not None:
            eff |= {"ValueError", "OverflowError", "MemoryError"}
        if other.taint == RAW and other.types is None and raw.types is not None:
            eff |= set(M.ARITH["ANY"])
        self.add(esc, eff, e)
        return Val(RAW, raw.types)

    def eval_compare(self, e: ast.Compare, env: Dict[str, Val], esc: Escapes) -> Val:
        left = self.eval(e.left, env, esc)
        lnode = e.left
        for op, rnode in zip(e.ops, e.comparators):
            right = self.eval(rnode, env, esc)
            if isinstance(op, (ast.In, ast.NotIn)):
                if left.taint == RAW or right.taint == RAW:
                    kind = self.container_kind(right, rnode)
                    if kind in ("hash", "mixed"):
                        if not self.hashable(left):
                            self.add(esc, {"TypeError"}, e)
                    elif kind == "seq":
                        pass
                    elif kind == "str":
                        if left.taint == RAW and not (left.types is not None and left.types <= {"str", "bytes"}):
                            self.add(esc, {"TypeError"}, e)
                    elif kind == "rawany":
                        self.add(esc, {"TypeError"}, e)
                    elif self.A.role == "loader":
                        raise Undetermined(
                            f"cannot determine container kind of `{norm(rnode)}` in `{norm(e)}` ({self.fctx.qual})")
            elif isinstance(op, (ast.Lt, ast.LtE, ast.Gt, ast.GtE)):
                for side in (left, right):
                    if side.taint == RAW:
                        eff: Set[str] = set()
                        for t in (side.types or {"ANY"}):
                            eff |= M.ORDER.get(t, M.ORDER["ANY"])
                        self.add(esc, eff, e)
            left, lnode = right, rnode
        return Val(CLEAN, frozenset({"bool"}))

    def eval_subscript(self, e: ast.Subscript, env: Dict[str, Val], esc: Escapes) -> Val:
        cont = self.eval(e.value, env, esc)
        key = self.eval(e.slice, env, esc)
        if cont.is_datum:
            self.ev("probe", "subscript")
        if cont.taint == RAW and isinstance(e.slice, ast.Constant) and repr(e.slice.value) in cont.has_keys:
            return Val(RAW)  # dominated by `<key> in x`
        if cont.taint == RAW and key.key_of is not None and isinstance(e.value, ast.Name) and key.key_of == e.value.id:
            return Val(RAW)  # the key was drawn from this very mapping
        if cont.taint == RAW:
            kind = self.container_kind(cont, e.value)
            if cont.types is not None and cont.types <= {"IntSubscriptable"}:
                # something that answered x[<int>] before: a sequence, or a mapping with int keys
                self.add(esc, {"IndexError", "KeyError"}, e)
                if key.taint == RAW:
                    self.add(esc, {"TypeError"}, e)
            elif kind == "hash":
                self.add(esc, {"KeyError"}, e)
                if not self.hashable(key):
                    self.add(esc, {"TypeError"}, e)
            elif kind in ("seq", "str"):
                self.add(esc, {"IndexError"}, e)
                if key.taint == RAW:
                    self.add(esc, {"TypeError"}, e)
            else:
                self.add(esc, {"TypeError", "KeyError", "IndexError"}, e)
                # in the data universe only mappings answer x['str'] and only sequences / int-keyed mappings
                # answer x[<int>] without TypeError: a successful subscript refines the datum
                if isinstance(e.value, ast.Name) and e.value.id in env and cont.types is None and cont.bound is None \
                        and isinstance(e.slice, ast.Constant):
                    if isinstance(e.slice.value, str):
                        env[e.value.id] = replace(cont, types=frozenset({"Mapping"}))
                    elif type(e.slice.value) is int:
                        env[e.value.id] = replace(cont, types=frozenset({"IntSubscriptable"}))
            return Val(RAW)
        if key.taint == RAW:
            if key.member_of and isinstance(e.value, ast.Name) and self._validated_member(key, e.value.id):
                return Val(LOADED)
            kind = self.container_kind(cont, e.value)
            if kind in ("hash", "mixed"):
                self.add(esc, {"KeyError"}, e)
                if not self.hashable(key):
                    self.add(esc, {"TypeError"}, e)
            elif kind == "seq":
                self.add(esc, {"TypeError", "IndexError"}, e)
            else:
                raise Undetermined(
                    f"cannot determine container kind of `{norm(e.value)}` in `{norm(e)}` ({self.fctx.qual})")
            return Val(LOADED)
        return Val(cont.taint if cont.taint != CLEAN else CLEAN, expr=e if cont.taint == CLEAN else None)

    def _validated_member(self, key: Val, mapping_name: str) -> bool:
        """key was tested `in V` where V is (derived from) the keys of the subscripted mapping."""
        m = mapping_name
        ok_texts = {m, f"list({m}.keys())", f"tuple({m}.keys())", f"{m}.keys()", f"set({m})", f"list({m})",
                    f"frozenset({m})", f"tuple({m})", f"set({m}.keys())"}
        for v in key.member_of:
            if v == m:
                return True
            for av in self.A.R.resolve(ast.Name(id=v, ctx=ast.Load()), self.fctx):
                if av[0] == "expr" and norm(av[1]) in ok_texts:
                    return True
        return False

    # ------------------------------------------------------------------ calls
    def eval_call(self, call: ast.Call, env: Dict[str, Val], esc: Escapes) -> Val:
        A = self.A
        f = call.func
        argvals = [self.eval(a, env, esc) for a in call.args]
        kwvals = [(kw.arg, self.eval(kw.value, env, esc)) for kw in call.keywords]
        allargs = argvals + [v for _, v in kwvals]
        raw_args = [v for v in allargs if v.taint == RAW]
        first_raw = raw_args[0] if raw_args else None

        def release_pending():
            for v, n in zip(argvals, call.args):
                if v.pending:
                    self.release(esc, v.pending, call)

        # ---- method call on a value
        if isinstance(f, ast.Attribute):
            recv_is_local = isinstance(f.value, ast.Name) and f.value.id in env
            recv = self.eval(f.value, env, esc) if (recv_is_local or not isinstance(f.value, (ast.Name, ast.Attribute))) else None
            if recv is None:
                # dotted name (module.func / Class.method / self.x): evaluate receiver only if it is not static
                recv = self.eval(f.value, env, esc) if self._is_dynamic(f.value, env) else Val(CLEAN, expr=f.value)
            if recv.taint == RAW:
                if recv.is_datum:
                    self.ev("probe", "." + f.attr)
                eff = M.method_effect(f.attr, recv.types)
                if eff is None:
                    raise Undetermined(f"unmodelled method .{f.attr}() on raw data in {self.fctx.qual}: `{norm(call)}`")
                self.add(esc, eff, call)
                release_pending()
                rt = {"encode": "bytes", "decode": "str", "strip": "str", "lower": "str", "upper": "str",
                      "replace": "str"}.get(f.attr)
                if f.attr in ("items", "keys", "values"):
                    return Val(RAW, frozenset({"Iterable"}))
                if f.attr in ("startswith", "endswith", "isdigit", "is_integer"):
                    return Val(CLEAN, frozenset({"bool"}))
                return Val(RAW, frozenset({rt}) if rt else None)
            if recv.taint == LOADED and not raw_args:
                release_pending()
                return Val(LOADED)

        # ---- callee resolution
        callee_val: Optional[Val] = None
        if isinstance(f, ast.Name) and f.id in env:
            callee_val = env[f.id]
        if callee_val is not None and callee_val.bound is not None:
            eff = M.BOUND_RAW_CALL.get(callee_val.bound)
            if eff is None:
                raise Undetermined(f"unmodelled bound method .{callee_val.bound} of raw data called in {self.fctx.qual}")
            if callee_val.bound == "get" and all(self.hashable(v) for v in argvals[:1]):
                eff = eff - {"TypeError"}
            self.add(esc, eff, call)
            return Val(RAW, frozenset({"Iterable"}) if callee_val.bound in ("items", "keys", "values") else None)
        if isinstance(f, ast.Name) and f.id in A.freevar_funcs and f.id not in env:
            node_, mod_, cls_ = A.freevar_funcs[f.id]
            avs = [("func", node_, mod_, cls_)]
        elif callee_val is not None and callee_val.avs is not None:
            avs = callee_val.avs
        elif callee_val is not None and callee_val.taint == RAW:
            raise Undetermined(f"raw data is called in {self.fctx.qual}: `{norm(call)}`")
        else:
            avs = A.R.resolve(f, self.fctx)

        result: Optional[Val] = None
        handled = False
        fname_txt = norm(f)
        for av in avs:
            av0 = av
            is_elem = av[0] == "elemof"
            av = strip_elemof(av)
            kind = av[0]
            if kind == "provided":
                handled = True
                self.ev("apply", "datum" if any(v.is_datum for v in allargs) else "element")
                if A.role == "loader":
                    self.add(esc, {"LoadError", USER}, call)
                else:
                    self.add(esc, {USER}, call)
                release_pending()
                A.callees_resolved.setdefault(fname_txt, "provided loader/dumper (mediator)")
                result = _join_val(result, Val(LOADED))
            elif kind == "func" and not is_elem:
                handled = True
                fn = av[1]
                sub_ctx = ctx_for(A.repo, av[2], fn)
                params = func_params(fn)
                is_method = sub_ctx.cls is not None and sub_ctx.outer is None and not isinstance(fn, ast.Lambda)
                vals = list(argvals)
                if is_method:
                    vals = [Val(CLEAN)] + vals
                # keywords
                full = vals + [Val(CLEAN)] * max(0, len(params) - len(vals))
                for name, v in kwvals:
                    if name in params:
                        full[params.index(name)] = v
                sub_esc, rv = A.analyze(sub_ctx, full[:len(params)], via=self.via + (self.fctx.qual,))
                is_gen = any(isinstance(n, (ast.Yield, ast.YieldFrom)) for n in walk_no_nested(fn)) \
                    if not isinstance(fn, ast.Lambda) else False
                release_pending()
                A.callees_resolved.setdefault(fname_txt, f"repo function {sub_ctx.qual}")
                if is_gen:
                    result = _join_val(result, Val(LOADED, frozenset({"iterator"}),
                                                   pending=frozenset(sub_esc.keys())))
                    # keep origins: register on esc lazily via pending -> we lose origin; store map
                    for k, v in sub_esc.items():
                        A.pending_origins.setdefault(k, v)
                else:
                    for k, v in sub_esc.items():
                        esc.setdefault(k, v)
                    result = _join_val(result, rv)
            elif kind in ("ext", "extcall") or (kind == "func" and is_elem):
                name = av[1] if kind == "ext" else None
                if name is None:
                    continue
                handled = True
                res = self.call_ext(name, call, argvals, kwvals, first_raw, esc, env)
                A.callees_resolved.setdefault(fname_txt, f"stdlib {name}")
                result = _join_val(result, res)
            elif kind == "cls":
                handled = True
                ci: ClassInfo = av[1]
                release_pending()
                A.callees_resolved.setdefault(fname_txt, f"repo class {ci.name}")
                if raw_args:
                    self._construct_effects(ci, call, argvals, kwvals, esc)
                if A.H.known(ci.name):
                    result = _join_val(result, Val(CLEAN, frozenset({"exc"})))
                else:
                    taint = RAW if raw_args else (LOADED if any(v.taint == LOADED for v in allargs) else CLEAN)
                    result = _join_val(result, Val(LOADED if taint != CLEAN else CLEAN))
            elif kind == "attr":
                # attribute of something the resolver could not pin down
                model = self.model_for_attr(av, f)
                if model is not None:
                    handled = True
                    res = self.call_model(model, call, argvals, first_raw, esc, env)
                    A.callees_resolved.setdefault(fname_txt, f"model {model}")
                    result = _join_val(result, res)
            elif kind == "self":
                continue
        if handled:
            return result or Val(LOADED)

        # ---- unresolved callee
        model = A.freevar_model.get(fname_txt)
        if model is None and isinstance(f, ast.Name):
            model = self.model_by_shape(avs, f)
        if model is not None:
            A.callees_resolved.setdefault(fname_txt, f"model {model}")
            return self.call_model(model, call, argvals, first_raw, esc, env)
        if isinstance(f, ast.Attribute):
            # method on a clean/loaded receiver with a raw argument
            if raw_args:
                eff = None
                fr = raw_args[0]
                if fr.types is not None:
                    effs = [M.ARG_METHODS_TYPED.get((f.attr, t)) for t in fr.types]
                    if all(x is not None for x in effs):
                        eff = frozenset().union(*effs)  # type: ignore[arg-type]
                if eff is None:
                    eff = M.ARG_METHODS.get(f.attr)
                if eff is None:
                    raise Undetermined(f"unmodelled method .{f.attr}(<raw>) in {self.fctx.qual}: `{norm(call)}`")
                if f.attr in ("add", "__contains__", "get", "__getitem__") and self.hashable(fr):
                    eff = eff - {"TypeError"}
                self.add(esc, eff, call)
            release_pending()
            A.callees_resolved.setdefault(fname_txt, "method of internal object")
            return Val(LOADED if (raw_args or any(v.taint == LOADED for v in allargs)) else CLEAN)
        if isinstance(f, ast.Name) and (f.id in USER_CODE_NAMES or f.id in A.user_names):
            A.user_code_calls.append(f"{self.fctx.qual}: {norm(call)[:80]}")
            release_pending()
            self.add(esc, {USER}, call)
            return Val(LOADED)
        if raw_args:
            raise Undetermined(
                f"callee `{fname_txt}` applied to raw data cannot be resolved in {self.fctx.qual}: `{norm(call)[:120]}`"
                f" (resolution: {[a[0] for a in avs]})")
        # internal callable on internal values (container factory etc.): raises what its lazy arguments raise
        release_pending()
        A.callees_resolved.setdefault(fname_txt, "internal callable on non-raw values (A5)")
        return Val(LOADED)

    def _construct_effects(self, ci: ClassInfo, call: ast.Call, argvals: List[Val], kwvals, esc: Escapes) -> None:
        """code that runs while a repo class is instantiated with raw data: a hand-written __init__, or the __post_init__ of a
        dataclass (error classes receive the offending datum, its unknown keys ...): whatever it does to the raw arguments can
        raise before the LoadError even exists"""
        A = self.A
        repo = A.repo
        init = repo.find_method(ci, "__init__")
        post = repo.find_method(ci, "__post_init__")
        if init is None and post is None:
            return
        if init is not None:
            owner, fn = init
            params = func_params(fn)
            vals = [Val(CLEAN, fieldvals={})] + list(argvals)
            full = vals + [Val(CLEAN)] * max(0, len(params) - len(vals))
            for name, v in kwvals:
                if name in params:
                    full[params.index(name)] = v
            sub_esc, _ = A.analyze(ctx_for(repo, owner.module, fn), full[:len(params)], via=self.via + (self.fctx.qual,))
            for k, v in sub_esc.items():
                esc.setdefault(k, v)
            return
        # dataclass: field order = annotated names of the MRO, bases first
        names: List[str] = []
        for c in reversed(repo.mro(ci)):
            for st in c.node.body:
                if isinstance(st, ast.AnnAssign) and isinstance(st.target, ast.Name) and "ClassVar" not in norm(st.annotation) \
                        and st.target.id not in names:
                    names.append(st.target.id)
        fv: Dict[str, Val] = {}
        for n_, v in zip(names, argvals):
            fv[n_] = v
        for n_, v in kwvals:
            if n_ is not None:
                fv[n_] = v
        owner, fn = post
        sub_esc, _ = A.analyze(ctx_for(repo, owner.module, fn), [Val(CLEAN, fieldvals=fv)], via=self.via + (self.fctx.qual,))
        for k, v in sub_esc.items():
            esc.setdefault(k, v)

    def _is_dynamic(self, node: ast.expr, env: Dict[str, Val]) -> bool:
        while isinstance(node, ast.Attribute):
            node = node.value
        if isinstance(node, ast.Name):
            return node.id in env
        return True

    def model_for_attr(self, av: AV, f: ast.expr) -> Optional[str]:
        # request.last_loc.type  -> the requested class
        if av[0] == "attr" and av[1] == "type" and av[2][0] == "attr" and av[2][1] == "last_loc":
            cls = self.fctx.cls
            if cls is not None and (self.A.repo.is_subclass(cls, "BaseEnumProvider") or self.A.repo.is_subclass(cls, "BaseFlagProvider")):
                return "EnumClass"
            return "RequestedClass"
        # <something>.fromisoformat etc: same row for every table key with this suffix
        if av[0] == "attr":
            rows = {k: v for k, v in M.CALLS.items() if k.endswith("." + av[1])}
            if rows and len({tuple(sorted(r["ANY"])) for r in rows.values()}) == 1:
                return "ext:" + sorted(rows)[0]
        return None

    def model_by_shape(self, avs: List[AV], f: ast.Name) -> Optional[str]:
        for av in avs:
            av = strip_elemof(av)
            if av[0] == "attr":
                m = self.model_for_attr(av, f)
                if m:
                    return m
        return None

    def call_model(self, model: str, call: ast.Call, argvals: List[Val], first_raw: Optional[Val], esc: Escapes,
                   env: Dict[str, Val]) -> Val:
        if model.startswith("ext:"):
            return self.call_ext(model[4:], call, argvals, [], first_raw, esc, env)
        if model == "EnumClass":
            # Enum lookup by value: ValueError for a non-member (default _missing_); unhashable values fall back to
            # a linear scan, so no TypeError.  A custom _missing_ is user code.
            # (a range test against the flag mask does NOT make Flag(value) total: with READ=1, PERM=12 the value 5 = READ|4 is
            # inside the mask and refused by Python 3.11+ -- the former shortcut here encoded the comment in the source)
            self.add(esc, {"ValueError"}, call)
            return Val(LOADED, frozenset({"enum-member"}))
        if model == "RequestedClass":
            if first_raw is not None:
                raise Undetermined(f"requested class called on raw data in {self.fctx.qual}: `{norm(call)}`")
            return Val(LOADED)
        raise Undetermined(f"unknown model {model}")

    def _flag_range_validated(self, call: ast.Call, env: Dict[str, Val]) -> bool:
        """Flag(i) cannot fail when i is an exact int and 0 <= i <= mask was checked by a dominating guard of the
        same function and the factory rejected non-contiguous masks (DESIGN Appendix A)."""
        if not (len(call.args) == 1 and isinstance(call.args[0], ast.Name)):
            return False
        var = call.args[0].id
        v = env.get(var)
        if v is None or v.types is None or not v.types <= {"int"}:
            return False
        fn = self.fctx.fn
        lo = hi = False
        for st in getattr(fn, "body", []):
            if st.lineno >= call.lineno:
                break
            if isinstance(st, ast.If) and st.body and isinstance(st.body[-1], ast.Raise):
                for cmp in ast.walk(st.test):
                    if isinstance(cmp, ast.Compare) and isinstance(cmp.left, ast.Name) and cmp.left.id == var \
                            and len(cmp.ops) == 1:
                        if isinstance(cmp.ops[0], ast.Lt) and isinstance(cmp.comparators[0], ast.Constant) \
                                and cmp.comparators[0].value == 0:
                            lo = True
                        if isinstance(cmp.ops[0], ast.Gt) and isinstance(cmp.comparators[0], ast.Name):
                            hi = True
        return lo and hi

    def call_ext(self, name: str, call: ast.Call, argvals: List[Val], kwvals, first_raw: Optional[Val],
                 esc: Escapes, env: Dict[str, Val]) -> Val:
        A = self.A
        allvals = argvals + [v for _, v in kwvals]
        # lazy wrappers
        if name == "builtins.map" and len(argvals) >= 2:
            it = argvals[1]
            if it.is_datum:
                self.ev("probe", "iter")
            if it.taint == RAW:
                self.add(esc, M.call_effect("builtins.map", it.types) or (), call)
            if it.pending:
                self.release(esc, it.pending, call)
            # effect of applying f to an element, released on consumption
            sub: Escapes = {}
            fake = ast.Call(func=call.args[0], args=[ast.Name(id="__elem__", ctx=ast.Load())], keywords=[])
            ast.copy_location(fake, call)
            ast.fix_missing_locations(fake)
            env2 = dict(env)
            env2["__elem__"] = self.elem_of(it, call.args[1], env)
            rv = self.eval_call(fake, env2, sub)
            for k, v in sub.items():
                A.pending_origins.setdefault(k, v)
            return Val(LOADED, frozenset({"iterator"}), pending=frozenset(sub.keys()))
        if name in ("builtins.isinstance", "builtins.type", "builtins.str", "builtins.repr", "builtins.bool",
                    "builtins.id", "builtins.callable", "builtins.hasattr", "builtins.print"):
            if name == "builtins.type" and len(call.args) == 1 and isinstance(call.args[0], ast.Name):
                return Val(CLEAN, frozenset({"type"}), typeof=call.args[0].id)
            return Val(CLEAN, frozenset({RESULT_TYPES.get(name, "bool")}))
        # pending lazies are consumed by any other call
        for v in argvals:
            if v.pending:
                self.release(esc, v.pending, call)
        if first_raw is None:
            # constructor applied to loaded/clean values: no raise in the data universe (A5)
            if name in ("builtins.next",):
                self.add(esc, {"StopIteration"}, call) if len(argvals) < 2 else None
            rt = RESULT_TYPES.get(name)
            taint = LOADED if any(v.taint == LOADED for v in allvals) else CLEAN
            if name == "datetime.timedelta":
                pass
            return Val(taint if taint != CLEAN else (LOADED if rt is None else CLEAN), frozenset({rt}) if rt else None)
        if first_raw.is_datum or any(v.is_datum for v in allvals):
            self.ev("probe", name.replace("builtins.", ""))
        eff = M.call_effect(name, first_raw.types)
        if eff is None:
            raise Undetermined(f"stdlib callable `{name}` applied to raw data is not in the effect table "
                               f"({self.fctx.qual}: `{norm(call)[:100]}`)")
        # several raw args: unite rows
        for v in allvals:
            if v.taint == RAW and v is not first_raw:
                eff = eff | (M.call_effect(name, v.types) or frozenset())
        if name in ("builtins.set", "builtins.frozenset") and first_raw.types is not None \
                and first_raw.types <= {"tuple", "list"} and False:
            pass
        self.add(esc, eff, call)
        # a successful len()/iter()/tuple() tells something about the datum
        if name in ("builtins.len", "builtins.iter", "builtins.tuple", "builtins.list") and call.args \
                and isinstance(call.args[0], ast.Name) and call.args[0].id in env:
            v0 = env[call.args[0].id]
            if v0.taint == RAW and v0.types is None and v0.bound is None:
                env[call.args[0].id] = replace(v0, types=frozenset({"Sized" if name == "builtins.len" else "Iterable"}))
        rt = RESULT_TYPES.get(name)
        if name in ("builtins.tuple", "builtins.list", "builtins.iter", "builtins.set", "builtins.frozenset",
                    "builtins.zip", "builtins.enumerate", "builtins.reversed", "builtins.sorted"):
            keys_of = None
            if call.args and isinstance(call.args[0], ast.Name) and first_raw.types is not None \
                    and first_raw.types <= {"Mapping", "dict"} and name not in ("builtins.zip", "builtins.enumerate"):
                keys_of = call.args[0].id
            elif first_raw.keys_of is not None:
                keys_of = first_raw.keys_of
            return Val(RAW, frozenset({rt}) if rt else None, keys_of=keys_of)
        if name in ("builtins.len",):
            return Val(CLEAN, frozenset({"int"}))
        if rt in ("int", "float", "complex", "str", "bool", "Decimal", "Fraction", "bytes", "bytearray"):
            # a converted scalar: still derived from raw data but of a known exact type
            return Val(RAW, frozenset({rt}))
        return Val(LOADED)


def _join_val(a: Optional[Val], b: Val) -> Val:
    if a is None:
        return b
    taint = RAW if RAW in (a.taint, b.taint) else (LOADED if LOADED in (a.taint, b.taint) else CLEAN)
    types = None if (a.types is None or b.types is None) else a.types | b.types
    return Val(taint, types, a.pending | b.pending, a.bound or b.bound)


def _load(t: ast.expr) -> ast.expr:
    import copy
    n = copy.deepcopy(t)
    for x in ast.walk(n):
        if hasattr(x, "ctx"):
            x.ctx = ast.Load()
    return n
