"""SIB — sibling cross-check: acceptance signatures of closures (DESIGN.md 2.3)."""
from __future__ import annotations

import ast
from collections import Counter
from dataclasses import dataclass, field
from typing import Any, Dict, List, Optional, Set, Tuple

from .core import AnalysisError, ClassInfo, Repo, norm
from .esc import Esc, Undetermined
from .modes import DT, FuncVal, closures_for
from .values import FnCtx, Resolver, ctx_for

GROUP_LIKE = {"AggregateLoadError", "UnionLoadError", "LoadExceptionGroup", "ExceptionGroup", "BaseExceptionGroup",
              "LoadError"}
# probes that are equivalent as far as acceptance is concerned
PROBE_CANON = {"map": "iter", "tuple": "iter", "list": "iter", "iter": "iter", "zip": "iter", "enumerate": "iter",
               "set": "iter", "frozenset": "iter"}


@dataclass
class Signature:
    name: str
    probes: Set[str] = field(default_factory=set)
    tests: Counter = field(default_factory=Counter)
    rejects: Counter = field(default_factory=Counter)
    applies: Counter = field(default_factory=Counter)
    returns: Set[str] = field(default_factory=set)
    n_events: int = 0

    def as_dict(self) -> Dict[str, Any]:
        return {"closure": self.name, "probes": sorted(self.probes), "tests": dict(self.tests),
                "rejects": {f"{k[0]}/{k[1]}": v for k, v in self.rejects.items()}, "applies": dict(self.applies),
                "returns": sorted(self.returns)}


def signature_of(repo: Repo, eng: Esc, fv: FuncVal) -> Signature:
    fctx = ctx_for(repo, fv.module, fv.fn)
    eng.events = []
    eng.log_events = True
    eng.freevar_funcs = fv.flat_bindings()
    try:
        eng.analyze(fctx)
    except Undetermined as e:
        raise AnalysisError(f"cannot summarise {fv.module.rel}:{fctx.qual}: {e}")
    finally:
        eng.log_events = False
        eng.freevar_funcs = {}
    names = [fv.name] + [f"{k}={v.name}" for k, v in sorted(fv.bindings.items())]
    sig = Signature("∘".join(names))
    seen = set()
    for ev in eng.events:
        sig.n_events += 1
        if ev[0] == "probe":
            sig.probes.add(PROBE_CANON.get(ev[1], ev[1]))
        elif ev[0] == "test":
            sig.tests[ev[1]] += 0
            sig.tests[ev[1]] = 1            # a set: loops are analysed twice by the engine
        elif ev[0] == "reject":
            if ev[1] not in GROUP_LIKE:
                sig.rejects[(ev[1], ev[2])] = 1
        elif ev[0] == "apply":
            sig.applies[ev[1]] = 1
        elif ev[0] == "return":
            sig.returns.add(ev[1])
    return sig


def diff(a: Signature, b: Signature, fields=("probes", "tests", "rejects", "applies")) -> List[str]:
    out = []
    for f in fields:
        va, vb = getattr(a, f), getattr(b, f)
        ka = set(va) if not isinstance(va, set) else va
        kb = set(vb) if not isinstance(vb, set) else vb
        for x in sorted(map(str, ka - kb)):
            out.append(f"{f}: {x} only in {a.name}")
        for x in sorted(map(str, kb - ka)):
            out.append(f"{f}: {x} only in {b.name}")
    return out
