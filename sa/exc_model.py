"""Builtin effect table: which exceptions a stdlib operation may raise on an argument of a given type.

Trusted base of C04/C18 (DESIGN.md, Appendix A).  Type names: exact builtin/stdlib type names; 'ANY' is an
unrefined raw datum.  The table is audited against the running interpreter by `check selftest --audit-table`
(stdlib callables only; nothing from adaptix is executed).
"""
from __future__ import annotations

import builtins
from typing import Dict, FrozenSet, Iterable, Optional, Set

E = frozenset
NONE: FrozenSet[str] = frozenset()

TE, VE, OE, KE, IE, AE, ZE = "TypeError", "ValueError", "OverflowError", "KeyError", "IndexError", "AttributeError", "ZeroDivisionError"
INVOP = "decimal.InvalidOperation"
DECOVF = "decimal.Overflow"
DECDIV = "decimal.DivisionByZero"
B64ERR = "binascii.Error"
REERR = "re.error"
UEE = "UnicodeEncodeError"
UDE = "UnicodeDecodeError"
OSE = "OSError"
NIE = "NotImplementedError"

HASHABLE_SCALARS = {"int", "bool", "float", "complex", "str", "bytes", "NoneType", "Decimal", "Fraction", "type",
                    "enum-member", "date", "datetime", "time", "timedelta"}
NUMERIC = {"int", "bool", "float"}

# callee -> {argtype -> exceptions}; 'ANY' is mandatory.  Only the FIRST (tainted) argument is typed.
CALLS: Dict[str, Dict[str, FrozenSet[str]]] = {
    "builtins.int": {"ANY": E({TE, VE, OE}), "int": NONE, "bool": NONE, "float": E({VE, OE}),
                     "Decimal": E({VE, OE}), "Fraction": NONE, "str": E({VE}), "bytes": E({VE}), "bytearray": E({VE})},
    "builtins.float": {"ANY": E({TE, VE, OE}), "int": E({OE}), "bool": NONE, "float": NONE, "str": E({VE}),
                       "Decimal": E({VE}), "Fraction": E({OE}), "bytes": E({VE})},
    "builtins.complex": {"ANY": E({TE, VE, OE}), "int": E({OE}), "bool": NONE, "float": NONE, "complex": NONE,
                         "str": E({VE})},
    "builtins.str": {"ANY": NONE},
    "builtins.repr": {"ANY": NONE},
    "builtins.bool": {"ANY": NONE},
    "builtins.type": {"ANY": NONE},
    "builtins.id": {"ANY": NONE},
    "builtins.isinstance": {"ANY": NONE},
    "builtins.issubclass": {"ANY": E({TE}), "type": NONE},
    "builtins.callable": {"ANY": NONE},
    "builtins.hash": {"ANY": E({TE}), **{t: NONE for t in HASHABLE_SCALARS}},
    "builtins.len": {"ANY": E({TE}), "IntSubscriptable": NONE, "tuple": NONE, "list": NONE, "dict": NONE, "set": NONE, "frozenset": NONE,
                     "str": NONE, "bytes": NONE, "bytearray": NONE, "Mapping": NONE, "Sized": NONE, "Sequence": NONE,
                     "Collection": NONE},
    "builtins.iter": {"ANY": E({TE}), "IntSubscriptable": NONE, "tuple": NONE, "list": NONE, "dict": NONE, "set": NONE, "frozenset": NONE,
                      "str": NONE, "bytes": NONE, "iterator": NONE, "Mapping": NONE, "Iterable": NONE,
                      "Sequence": NONE, "Collection": NONE},
    "builtins.tuple": {"ANY": E({TE}), "IntSubscriptable": NONE, "tuple": NONE, "list": NONE, "dict": NONE, "set": NONE, "frozenset": NONE,
                       "str": NONE, "bytes": NONE, "iterator": NONE, "Mapping": NONE, "Iterable": NONE,
                       "Sequence": NONE, "Collection": NONE},
    "builtins.list": {"ANY": E({TE}), "IntSubscriptable": NONE, "tuple": NONE, "list": NONE, "dict": NONE, "set": NONE, "frozenset": NONE,
                      "str": NONE, "bytes": NONE, "iterator": NONE, "Mapping": NONE, "Iterable": NONE,
                      "Sequence": NONE, "Collection": NONE},
    # hashing every element of raw data
    "builtins.set": {"ANY": E({TE}), "str": NONE, "bytes": NONE, "Mapping": NONE, "dict": NONE},
    "builtins.frozenset": {"ANY": E({TE}), "str": NONE, "bytes": NONE, "Mapping": NONE, "dict": NONE},
    "builtins.dict": {"ANY": E({TE, VE}), "dict": NONE},
    "builtins.sorted": {"ANY": E({TE})},
    "builtins.sum": {"ANY": E({TE, OE})},
    "builtins.min": {"ANY": E({TE, VE})},
    "builtins.max": {"ANY": E({TE, VE})},
    "builtins.abs": {"ANY": E({TE}), "int": NONE, "float": NONE, "bool": NONE},
    "builtins.round": {"ANY": E({TE, VE, OE}), "int": NONE, "bool": NONE, "float": E({VE, OE}),
                       "Decimal": E({VE, OE})},     # round(Decimal('NaN')) -> ValueError, round(Decimal('Infinity')) -> OverflowError
    "builtins.bytes": {"ANY": E({TE, VE, OE}), "bytes": NONE, "bytearray": NONE},
    "builtins.bytearray": {"ANY": E({TE, VE, OE}), "bytes": NONE, "bytearray": NONE},
    "builtins.enumerate": {"ANY": E({TE}), "tuple": NONE, "list": NONE, "iterator": NONE, "Iterable": NONE},
    "builtins.zip": {"ANY": E({TE}), "tuple": NONE, "list": NONE, "iterator": NONE, "Iterable": NONE,
                     "Sized": NONE, "Sequence": NONE, "Collection": NONE, "dict": NONE, "set": NONE,
                     "frozenset": NONE, "str": NONE, "bytes": NONE, "Mapping": NONE},
    "builtins.map": {"ANY": E({TE}), "tuple": NONE, "list": NONE, "iterator": NONE, "Iterable": NONE,
                     "dict": NONE, "set": NONE, "frozenset": NONE, "str": NONE, "bytes": NONE, "Mapping": NONE,
                     "Sequence": NONE, "Collection": NONE},
    "builtins.reversed": {"ANY": E({TE}), "tuple": NONE, "list": NONE, "Sequence": NONE},
    "builtins.getattr": {"ANY": E({AE})},
    "builtins.hasattr": {"ANY": NONE},
    "builtins.ord": {"ANY": E({TE})},
    "builtins.chr": {"ANY": E({TE, VE, OE})},
    "operator.index": {"ANY": E({TE}), "int": NONE, "bool": NONE},
    "math.floor": {"ANY": E({TE, VE, OE}), "int": NONE, "float": E({VE, OE})},
    "math.ceil": {"ANY": E({TE, VE, OE}), "int": NONE, "float": E({VE, OE})},
    "math.trunc": {"ANY": E({TE, VE, OE}), "int": NONE, "float": E({VE, OE})},
    "math.isnan": {"ANY": E({TE, OE}), "float": NONE, "int": E({OE})},
    "math.isinf": {"ANY": E({TE, OE}), "float": NONE, "int": E({OE})},
    "math.isfinite": {"ANY": E({TE, OE}), "float": NONE, "int": E({OE})},
    "math.log2": {"ANY": E({TE, VE}), "int": E({VE}), "float": E({VE})},
    "decimal.Decimal": {"ANY": E({TE, VE, INVOP}), "str": E({INVOP}), "Decimal": NONE, "int": NONE, "bool": NONE,
                        "float": NONE, "tuple": E({VE, TE})},
    "fractions.Fraction": {"ANY": E({TE, VE, ZE, OE}), "str": E({VE, ZE}), "Fraction": NONE, "int": NONE,
                           "bool": NONE, "float": E({VE, OE}), "Decimal": E({VE, OE})},
    "binascii.a2b_base64": {"ANY": E({TE, VE, B64ERR}), "bytes": E({B64ERR}), "str": E({B64ERR, VE})},
    "binascii.b2a_base64": {"ANY": E({TE}), "bytes": NONE, "bytearray": NONE},
    "binascii.unhexlify": {"ANY": E({TE, VE, B64ERR}), "bytes": E({B64ERR}), "str": E({B64ERR, VE})},
    "base64.b64decode": {"ANY": E({TE, VE, B64ERR}), "bytes": E({B64ERR}), "str": E({B64ERR, VE})},
    "builtins.bytes.fromhex": {"ANY": E({TE, VE}), "str": E({VE})},
    "builtins.int.from_bytes": {"ANY": E({TE}), "bytes": NONE},
    "re.compile": {"ANY": E({TE, REERR, OE}), "str": E({REERR, OE}), "bytes": E({REERR, OE})},
    "io.BytesIO": {"ANY": E({TE}), "bytes": NONE, "bytearray": NONE},
    "datetime.datetime.fromisoformat": {"ANY": E({TE, VE}), "str": E({VE})},
    "datetime.date.fromisoformat": {"ANY": E({TE, VE}), "str": E({VE})},
    "datetime.time.fromisoformat": {"ANY": E({TE, VE}), "str": E({VE})},
    "datetime.datetime.strptime": {"ANY": E({TE, VE}), "str": E({VE})},
    "datetime.datetime.fromtimestamp": {"ANY": E({TE, VE, OE, OSE}), "int": E({VE, OE, OSE}),
                                        "float": E({VE, OE, OSE}), "bool": NONE},
    "datetime.datetime.utcfromtimestamp": {"ANY": E({TE, VE, OE, OSE})},
    "datetime.date.fromtimestamp": {"ANY": E({TE, VE, OE, OSE}), "int": E({VE, OE, OSE}),
                                    "float": E({VE, OE, OSE}), "bool": NONE},
    "datetime.date.fromordinal": {"ANY": E({TE, VE, OE}), "int": E({VE, OE})},
    "datetime.timedelta": {"ANY": E({TE, OE, VE}), "int": E({OE}), "float": E({OE, VE}), "bool": NONE},
    "uuid.UUID": {"ANY": E({TE, VE, AE}), "str": E({VE})},
    "json.loads": {"ANY": E({TE, VE}), "str": E({VE})},
    "collections.defaultdict": {"ANY": E({TE, VE}), "dict": NONE},
    "collections.deque": {"ANY": E({TE}), "list": NONE, "tuple": NONE, "iterator": NONE},
    "collections.OrderedDict": {"ANY": E({TE, VE}), "dict": NONE},
}
for _ip in ("IPv4Address", "IPv6Address", "IPv4Network", "IPv6Network", "IPv4Interface", "IPv6Interface"):
    CALLS[f"ipaddress.{_ip}"] = {"ANY": E({VE, TE}), "str": E({VE}), "int": E({VE})}
for _ip in ("IPv4Network", "IPv6Network", "IPv4Interface", "IPv6Interface"):
    # the (address, prefix) tuple form indexes its argument: IPv4Network(()) raises IndexError (observed on 3.12)
    CALLS[f"ipaddress.{_ip}"]["ANY"] = E({VE, TE, "IndexError"})
# WindowsPath on POSIX (PosixPath on Windows) raises NotImplementedError for EVERY argument: a platform limitation,
# not a reaction to an unacceptable datum, hence not part of the rows (stated in C04's assumptions).
for _p in ("PurePath", "Path", "PurePosixPath", "PosixPath", "PureWindowsPath", "WindowsPath"):
    CALLS[f"pathlib.{_p}"] = {"ANY": E({TE}), "str": NONE}

# method call on a RAW receiver: .name -> {receiver type -> exceptions}  (includes the attribute load itself)
METHODS: Dict[str, Dict[str, FrozenSet[str]]] = {
    # only str has .encode / only bytes-likes have .decode in the data universe; codec names are constants
    "encode": {"ANY": E({AE, UEE}), "str": E({UEE})},
    "decode": {"ANY": E({AE, UDE}), "bytes": E({UDE}), "bytearray": E({UDE})},
    "items": {"ANY": E({AE, TE}), "dict": NONE, "Mapping": NONE},
    "keys": {"ANY": E({AE, TE}), "dict": NONE, "Mapping": NONE},
    "values": {"ANY": E({AE, TE}), "dict": NONE, "Mapping": NONE},
    "get": {"ANY": E({AE, TE}), "dict": NONE, "Mapping": NONE},
    "strip": {"ANY": E({AE, TE}), "str": NONE, "bytes": NONE},
    "lower": {"ANY": E({AE, TE}), "str": NONE, "bytes": NONE},
    "upper": {"ANY": E({AE, TE}), "str": NONE, "bytes": NONE},
    "split": {"ANY": E({AE, TE, VE}), "str": NONE},
    "startswith": {"ANY": E({AE, TE}), "str": NONE},
    "endswith": {"ANY": E({AE, TE}), "str": NONE},
    "replace": {"ANY": E({AE, TE}), "str": NONE},
    "isdigit": {"ANY": E({AE, TE}), "str": NONE},
    "is_integer": {"ANY": E({AE, TE}), "float": NONE, "int": NONE},
    "bit_length": {"ANY": E({AE, TE}), "int": NONE, "bool": NONE},
    "__fspath__": {"ANY": E({AE, TE})},
    "copy": {"ANY": E({AE, TE}), "dict": NONE, "list": NONE, "set": NONE},
}

# calling a bound method obtained earlier from RAW data (x = data.items; x())
BOUND_RAW_CALL = {"items": NONE, "keys": NONE, "values": NONE, "get": E({TE})}

# methods on clean (internal) receivers whose *argument* is raw
ARG_METHODS: Dict[str, FrozenSet[str]] = {
    # re.Pattern
    "fullmatch": E({TE}), "match": E({TE}), "search": E({TE}),
    # dict
    "get": E({TE}), "__getitem__": E({TE, KE}), "__contains__": E({TE}), "index": E({VE}), "count": NONE,
    # list/collection bookkeeping
    "append": NONE, "add": E({TE}), "extend": E({TE}), "insert": NONE, "appendleft": NONE, "extendleft": E({TE}),
    "startswith": E({TE}), "endswith": E({TE}), "join": E({TE}), "format": NONE,
}
ARG_METHODS_TYPED = {
    ("fullmatch", "bytes"): NONE, ("fullmatch", "str"): NONE, ("match", "bytes"): NONE, ("match", "str"): NONE,
    ("search", "str"): NONE, ("search", "bytes"): NONE,
    ("startswith", "str"): NONE, ("endswith", "str"): NONE,
}

ARITH_ANY = E({TE, ZE, OE, INVOP, DECOVF, DECDIV})
ARITH: Dict[str, FrozenSet[str]] = {
    "int": NONE, "bool": NONE, "float": NONE, "complex": NONE,
    "Decimal": E({INVOP, DECOVF}), "Fraction": NONE, "ANY": ARITH_ANY,
    "str": E({TE}), "enum-member": NONE,
}
ARITH_DIV_EXTRA = E({ZE, DECDIV})
# Decimal: % // and comparisons signal InvalidOperation only; * + - may also overflow the context
ARITH_DECIMAL_MODLIKE = E({INVOP})
ORDER: Dict[str, FrozenSet[str]] = {
    "int": NONE, "bool": NONE, "float": NONE, "Decimal": E({INVOP}), "Fraction": NONE, "str": NONE, "ANY": E({TE}),
}

# classes of the builtin exception hierarchy + the few stdlib ones the table names
_EXT_BASES = {
    INVOP: ("ArithmeticError",), DECOVF: ("ArithmeticError",), DECDIV: ("ZeroDivisionError",),
    "decimal.DecimalException": ("ArithmeticError",),
    B64ERR: ("ValueError",), REERR: ("Exception",), "json.JSONDecodeError": ("ValueError",),
    "ipaddress.AddressValueError": ("ValueError",), "ipaddress.NetmaskValueError": ("ValueError",),
    "pydantic.ValidationError": ("ValueError",),
}
EXT_ALIASES = {
    "decimal.InvalidOperation": INVOP, "binascii.Error": B64ERR, "re.error": REERR, "re.PatternError": REERR,
    "sre_constants.error": REERR,
}


class ExcHierarchy:
    """Subclass relation over builtin names, the stdlib names above and repo-defined exception classes."""

    def __init__(self, repo_bases: Dict[str, Iterable[str]]):
        self.repo_bases = {k: tuple(v) for k, v in repo_bases.items()}

    def canon(self, name: str) -> str:
        if name.startswith("builtins."):
            name = name[len("builtins."):]
        return EXT_ALIASES.get(name, name)

    def parents(self, name: str) -> Iterable[str]:
        name = self.canon(name)
        if name in self.repo_bases:
            return [self.canon(b) for b in self.repo_bases[name]]
        if name in _EXT_BASES:
            return _EXT_BASES[name]
        cls = getattr(builtins, name, None)
        if isinstance(cls, type) and issubclass(cls, BaseException):
            return [b.__name__ for b in cls.__bases__ if issubclass(b, BaseException)]
        return ["Exception"] if name not in ("BaseException", "object") else []

    def is_sub(self, a: str, b: str) -> bool:
        a, b = self.canon(a), self.canon(b)
        if a == b or b == "BaseException":
            return True
        seen: Set[str] = set()
        stack = [a]
        while stack:
            x = stack.pop()
            if x == b:
                return True
            if x in seen:
                continue
            seen.add(x)
            stack.extend(self.parents(x))
        return False

    def known(self, name: str) -> bool:
        name = self.canon(name)
        if name in self.repo_bases or name in _EXT_BASES:
            return True
        cls = getattr(builtins, name, None)
        return isinstance(cls, type) and issubclass(cls, BaseException)


def call_effect(callee: str, argtypes: Optional[FrozenSet[str]]) -> Optional[FrozenSet[str]]:
    """None = callee not in the table."""
    row = CALLS.get(callee)
    if row is None:
        return None
    if argtypes is None:
        return row["ANY"]
    out: Set[str] = set()
    for t in argtypes:
        out |= row.get(t, row["ANY"])
    return frozenset(out)


def method_effect(name: str, recvtypes: Optional[FrozenSet[str]]) -> Optional[FrozenSet[str]]:
    row = METHODS.get(name)
    if row is None:
        return None
    if recvtypes is None:
        return row["ANY"]
    out: Set[str] = set()
    for t in recvtypes:
        out |= row.get(t, row["ANY"])
    return frozenset(out)
