"""Self-test of the checkers: every mutation variant (a small edit that keeps the code compiling) is applied to a
scratch copy of the CURRENT /repo/src, the named check must fire and name the expected rule; behaviour-preserving
variants must stay silent.  Scratch copies live under a mktemp directory outside /repo and /verif and are removed.
"""
from __future__ import annotations

import os
import py_compile
import shutil
import subprocess
import sys
import tempfile
import time
from concurrent.futures import ProcessPoolExecutor
from pathlib import Path
from typing import Dict, List, Optional, Tuple

HERE = Path(__file__).resolve().parent


def apply_variant(repo_root: Path, scratch: Path, v: dict) -> Tuple[bool, str]:
    """copy src (+docs) and apply the textual edit; returns (applied, reason)"""
    (scratch / "src").mkdir(parents=True)
    shutil.copytree(repo_root / "src" / "adaptix", scratch / "src" / "adaptix",
                    ignore=shutil.ignore_patterns("__pycache__"))
    docs = repo_root / "docs" / "loading-and-dumping"
    if docs.is_dir():
        (scratch / "docs").mkdir()
        shutil.copytree(docs, scratch / "docs" / "loading-and-dumping")
    if v.get("patch"):
        # a saved seeded change (/verif/seeded/<id>-<name>/patch.diff, a git diff relative to the repository root)
        p = subprocess.run(["git", "apply", "--include=src/adaptix/*", str(v["patch"])], cwd=str(scratch), capture_output=True, text=True)
        if p.returncode != 0:
            return False, f"patch does not apply: {p.stderr.strip()[:200]}"
        return True, ""
    for edit in v["edits"]:
        f = scratch / "src" / "adaptix" / "_internal" / edit["file"]
        if not f.exists():
            return False, f"file {edit['file']} missing"
        text = f.read_text()
        if edit["old"] not in text:
            return False, f"anchor text absent in {edit['file']}"
        count = edit.get("count", 1)
        text = text.replace(edit["old"], edit["new"], count)
        f.write_text(text)
        try:
            compile(text, str(f), "exec")
        except SyntaxError as e:
            return False, f"variant does not compile: {e}"
    return True, ""


def run_variant(args) -> dict:
    v, repo_root, tier = args
    t0 = time.time()
    tmp = Path(tempfile.mkdtemp(prefix="sa_selftest_"))
    try:
        ok, why = apply_variant(Path(repo_root), tmp, v)
        if not ok:
            return {"name": v["name"], "status": "skipped", "why": why, "wall": time.time() - t0}
        env = dict(os.environ)
        env["PYTHONDONTWRITEBYTECODE"] = "1"
        p = subprocess.run([sys.executable, "-m", "sa.cli", v["property"], "--tier", v.get("tier", tier), "--repo", str(tmp),
                            "--no-write"], capture_output=True, text=True, cwd=str(HERE.parent), env=env, timeout=900)
        out = p.stdout
        expect_silent = v.get("silent", False)
        if expect_silent:
            status = "ok" if p.returncode == 0 else "false-alarm"
        else:
            fired = p.returncode == 1 and "VIOLATION" in out
            named = v.get("expect", "") in out
            status = "ok" if (fired and named) else ("missed" if p.returncode == 0 else
                                                     ("wrong-report" if fired else f"exit{p.returncode}"))
            if status == "missed" and v.get("known_miss"):
                status = "known-miss"      # a seeded change the check is known not to see; the reason is in its meta.json and DESIGN 8.5
        tail = "\n".join(out.strip().splitlines()[-6:])
        return {"name": v["name"], "property": v["property"], "status": status, "rc": p.returncode, "tail": tail,
                "wall": time.time() - t0}
    finally:
        shutil.rmtree(tmp, ignore_errors=True)


def main(args) -> int:
    from .variants import VARIANTS
    repo_root = args.repo
    allv = list(VARIANTS)
    seeded = HERE.parent / "seeded"
    if seeded.is_dir():
        # every confirmed seeded change is a variant too: the check of its property must report a violation
        for d in sorted(seeded.iterdir()):
            if (d / "patch.diff").is_file():
                v = {"name": "seed:" + d.name, "property": d.name.split("-")[0], "patch": d / "patch.diff", "expect": "rule="}
                try:
                    import json
                    v["known_miss"] = json.loads((d / "meta.json").read_text()).get("known_miss")
                except Exception:  # noqa: BLE001
                    pass
                allv.append(v)
    sel = [v for v in allv if not args.filter or args.filter in v["name"] or args.filter == v["property"]]
    t0 = time.time()
    with ProcessPoolExecutor(max_workers=args.jobs) as ex:
        results = list(ex.map(run_variant, [(v, repo_root, "quick") for v in sel]))
    bad = 0
    for r in results:
        mark = {"ok": "ok  ", "skipped": "skip", "known-miss": "miss"}.get(r["status"], "FAIL")
        print(f"[{mark}] {r.get('property', ''):4s} {r['name']:60s} {r['status']} ({r['wall']:.1f}s)")
        if r["status"] not in ("ok", "skipped", "known-miss"):
            bad += 1
            print("       " + r.get("tail", r.get("why", "")).replace("\n", "\n       "))
        elif r["status"] == "skipped":
            print("       " + r.get("why", ""))
    print(f"selftest: {len(results)} variants, {bad} failing, {sum(r['status'] == 'skipped' for r in results)} skipped, "
          f"{sum(r['status'] == 'known-miss' for r in results)} known misses, "
          f"{time.time() - t0:.1f}s")
    return 1 if bad else 0
