"""Abstract evaluation of the provider's mode dispatch: which closure (and which generator mapper bound to which
free variable) does provide_loader / provide_dumper hand out for a given (debug_trail, strict_coercion)?"""
from __future__ import annotations

import ast
from dataclasses import dataclass, field
from typing import Any, Dict, List, Optional, Tuple

from .core import AnalysisError, ClassInfo, ModuleInfo, Repo, func_params, norm

DT = ("DISABLE", "FIRST", "ALL")


@dataclass
class FuncVal:
    fn: ast.FunctionDef
    module: ModuleInfo
    cls: Optional[ClassInfo]
    bindings: Dict[str, "FuncVal"] = field(default_factory=dict)   # free variable -> function bound in this mode
    # undetermined branch decisions of the ENTRY method under which this closure is handed out: ((test text, taken), ...)
    entry_conds: Tuple[Tuple[str, bool], ...] = ()

    @property
    def name(self) -> str:
        return self.fn.name

    def flat_bindings(self) -> Dict[str, Tuple[ast.FunctionDef, ModuleInfo, Optional[ClassInfo]]]:
        out = {}
        for k, v in self.bindings.items():
            out[k] = (v.fn, v.module, v.cls)
            out.update(v.flat_bindings())
        return out


UNKNOWN = ("unknown",)


class ModeEvaluator:
    def __init__(self, repo: Repo, ci: ClassInfo, debug_trail: Optional[str], strict: Optional[bool]):
        self.repo = repo
        self.ci = ci
        self.dt = debug_trail
        self.strict = strict
        self.results: List[FuncVal] = []
        self.depth = 0
        self.cond_stack: List[Tuple[str, bool]] = []

    # values: ('dt', name) | ('bool', b) | FuncVal | ('method', FunctionDef, owner) | UNKNOWN
    def run(self, method: str) -> List[FuncVal]:
        meth = self.repo.find_method(self.ci, method)
        if meth is None:
            return []
        owner, fn = meth
        self.ext_results: List[Tuple[str, Tuple[Tuple[str, bool], ...]]] = []
        for rv in self.call_function(fn, owner, {}):
            if isinstance(rv, FuncVal):
                self.results.append(rv)
            elif isinstance(rv, tuple) and rv and rv[0] == "extcallable":
                self.ext_results.append((rv[1], rv[2]))
        # de-duplicate
        seen, out = set(), []
        for r in self.results:
            k = (id(r.fn), tuple(sorted((a, id(b.fn)) for a, b in r.bindings.items())))
            if k not in seen:
                seen.add(k)
                out.append(r)
        return out

    def call_function(self, fn: ast.FunctionDef, owner: Optional[ClassInfo], args: Dict[str, Any]) -> List[Any]:
        self.depth += 1
        if self.depth > 12:
            self.depth -= 1
            return [UNKNOWN]
        env = dict(args)
        rets: List[Any] = []
        self.exec_block(fn.body, env, rets, fn, owner)
        self.depth -= 1
        return rets

    def exec_block(self, stmts, env, rets, fn, owner) -> bool:
        """returns False when the block always terminates"""
        mark = len(self.cond_stack)
        try:
            return self._exec_block(stmts, env, rets, fn, owner)
        finally:
            del self.cond_stack[mark:]

    def _exec_block(self, stmts, env, rets, fn, owner) -> bool:
        for st in stmts:
            if isinstance(st, ast.FunctionDef):
                env[st.name] = ("def", st)
            elif isinstance(st, ast.Assign) and len(st.targets) == 1 and isinstance(st.targets[0], ast.Name):
                env[st.targets[0].id] = self.eval(st.value, env, fn, owner)
            elif isinstance(st, ast.Return):
                if st.value is not None:
                    v = self.eval(st.value, env, fn, owner)
                    vals = v if isinstance(v, list) else [v]
                    rets.extend(vals)
                return False
            elif isinstance(st, ast.Raise):
                return False
            elif isinstance(st, ast.If):
                t = self.truth(st.test, env, fn, owner)
                cont = False
                record = t is None and self.depth == 1
                if t is not False:
                    e1 = dict(env)
                    if record:
                        self.cond_stack.append((norm(st.test), True))
                    alive = self.exec_block(st.body, e1, rets, fn, owner)
                    if record:
                        self.cond_stack.pop()
                    if alive:
                        cont = True
                        env1 = e1
                    else:
                        env1 = None
                else:
                    env1 = None
                if t is not True:
                    e2 = dict(env)
                    if record:
                        self.cond_stack.append((norm(st.test), False))
                    alive = self.exec_block(st.orelse, e2, rets, fn, owner)
                    if record:
                        self.cond_stack.pop()
                    if alive:
                        cont = True
                        env2 = e2
                    else:
                        env2 = None
                else:
                    env2 = None
                if not cont:
                    return False
                if record and env1 is None and t is not False:
                    self.cond_stack.append((norm(st.test), False))    # `if c: return ...` -- the rest runs under not c
                elif record and env2 is None and t is not True:
                    self.cond_stack.append((norm(st.test), True))
                # merge: prefer the surviving branch
                for e in (env1, env2):
                    if e is not None:
                        env.update(e)
            elif isinstance(st, ast.Try):
                if not self.exec_block(st.body, env, rets, fn, owner):
                    return False
            # other statements are irrelevant to dispatch
        return True

    def truth(self, test: ast.expr, env, fn, owner) -> Optional[bool]:
        if isinstance(test, ast.UnaryOp) and isinstance(test.op, ast.Not):
            t = self.truth(test.operand, env, fn, owner)
            return None if t is None else (not t)
        if isinstance(test, ast.BoolOp):
            ts = [self.truth(v, env, fn, owner) for v in test.values]
            if isinstance(test.op, ast.And):
                if any(t is False for t in ts):
                    return False
                return True if all(t is True for t in ts) else None
            if any(t is True for t in ts):
                return True
            return False if all(t is False for t in ts) else None
        if isinstance(test, ast.Name):
            v = env.get(test.id)
            if isinstance(v, tuple) and v and v[0] == "bool":
                return v[1]
            return None
        if isinstance(test, ast.Compare) and len(test.ops) == 1:
            l = self.eval(test.left, env, fn, owner)
            if isinstance(l, tuple) and l and l[0] == "dt":
                right = test.comparators[0]
                names = []
                for n in ([right] if not isinstance(right, (ast.Tuple, ast.List, ast.Set)) else right.elts):
                    t = norm(n)
                    if t.startswith("DebugTrail."):
                        names.append(t.split(".")[1])
                    else:
                        return None
                if isinstance(test.ops[0], (ast.Eq, ast.Is)):
                    return l[1] == names[0]
                if isinstance(test.ops[0], (ast.NotEq, ast.IsNot)):
                    return l[1] != names[0]
                if isinstance(test.ops[0], ast.In):
                    return l[1] in names
                if isinstance(test.ops[0], ast.NotIn):
                    return l[1] not in names
        return None

    def eval(self, e: ast.expr, env, fn, owner) -> Any:
        if isinstance(e, ast.Name):
            v = env.get(e.id, UNKNOWN)
            if isinstance(v, tuple) and v and v[0] == "def":
                return self.make_funcval(v[1], env, fn, owner)
            if v is UNKNOWN and e.id not in env:
                # a bare external callable handed out as the loader / dumper (`return tuple`)
                m = owner.module if owner is not None else self.ci.module
                r = self.repo.resolve_global(m, e.id)
                if r.kind == "ext" and r.name.startswith("builtins.") and r.name.split(".")[-1] in (
                        "tuple", "list", "set", "frozenset", "dict", "str", "int", "float", "bytes", "bool"):
                    return ("extcallable", r.name, tuple(self.cond_stack))
            return v
        if isinstance(e, ast.Constant) and isinstance(e.value, bool):
            return ("bool", e.value)
        if isinstance(e, ast.IfExp):
            t = self.truth(e.test, env, fn, owner)
            outs = []
            if t is not False:
                outs.append(self.eval(e.body, env, fn, owner))
            if t is not True:
                outs.append(self.eval(e.orelse, env, fn, owner))
            flat = []
            for o in outs:
                flat.extend(o if isinstance(o, list) else [o])
            return flat if len(flat) != 1 else flat[0]
        if isinstance(e, ast.Attribute) and isinstance(e.value, ast.Name) and e.value.id == "self":
            meth = self.repo.find_method(self.ci, e.attr)
            if meth is not None:
                return ("method", meth[1], meth[0])
            # instance attribute holding a module-level loader (ScalarProvider._strict_coercion_loader)
            return ("selfattr", e.attr)
        if isinstance(e, ast.Call):
            f = e.func
            # mode requests
            if isinstance(f, ast.Attribute) and f.attr in ("mandatory_provide", "provide") and e.args:
                a0 = norm(e.args[0])
                if a0.startswith("DebugTrailRequest") and self.dt is not None:
                    return ("dt", self.dt)
                if a0.startswith("StrictCoercionRequest") and self.strict is not None:
                    return ("bool", self.strict)
                return UNKNOWN
            if isinstance(f, ast.Attribute) and f.attr == "cached_call" and e.args:
                target = self.eval(e.args[0], env, fn, owner)
                return self.invoke(target, e.args[1:], e.keywords, env, fn, owner)
            target = self.eval(f, env, fn, owner) if isinstance(f, (ast.Name, ast.Attribute)) else UNKNOWN
            if isinstance(target, tuple) and target and target[0] == "method":
                return self.invoke(target, e.args, e.keywords, env, fn, owner)
            return UNKNOWN
        return UNKNOWN

    def invoke(self, target, args, keywords, env, fn, owner) -> Any:
        if not (isinstance(target, tuple) and target and target[0] == "method"):
            return UNKNOWN
        callee, cowner = target[1], target[2]
        params = func_params(callee)[1:]
        bound: Dict[str, Any] = {}
        for p, a in zip(params, args):
            bound[p] = self.eval(a, env, fn, owner)
        for kw in keywords:
            if kw.arg:
                bound[kw.arg] = self.eval(kw.value, env, fn, owner)
        rets = self.call_function(callee, cowner, bound)
        flat = []
        for r in rets:
            flat.extend(r if isinstance(r, list) else [r])
        return flat if len(flat) != 1 else flat[0]

    def make_funcval(self, node: ast.FunctionDef, env, fn, owner) -> FuncVal:
        bindings: Dict[str, FuncVal] = {}
        free = {n.id for n in ast.walk(node) if isinstance(n, ast.Name)}
        for name in free:
            v = env.get(name)
            if isinstance(v, FuncVal):
                bindings[name] = v
            elif isinstance(v, list) and v and all(isinstance(x, FuncVal) for x in v) and len(v) == 1:
                bindings[name] = v[0]
        m = owner.module if owner is not None else self.ci.module
        return FuncVal(node, m, owner, bindings, tuple(self.cond_stack))


def closures_for(repo: Repo, ci: ClassInfo, method: str, dt: Optional[str], strict: Optional[bool]) -> List[FuncVal]:
    return ModeEvaluator(repo, ci, dt, strict).run(method)


def ext_callables_for(repo: Repo, ci: ClassInfo, method: str, dt: Optional[str], strict: Optional[bool]) -> List[str]:
    """bare builtin callables (tuple, list, ...) a provider may hand out as THE loader / dumper in this mode"""
    ev = ModeEvaluator(repo, ci, dt, strict)
    ev.run(method)
    return sorted({n for n, _c in ev.ext_results})
