"""TED — typed-equality discipline (DESIGN.md 2.2).

A small interprocedural (within a set of modules) taint analysis for *values of unknown type* (Literal arguments,
defaults, constants): such a value may be the operand of an equality- or hash-based container operation only when it is
paired with its type, dominated by an exact type test, or compared with the None singleton.

Kinds of tainted variables:  ELEM (one value), COLL (collection of values), TELEM / TCOLL (typed: (type, value) pairs).
"""
from __future__ import annotations

import ast
from dataclasses import dataclass, field
from typing import Dict, List, Optional, Set, Tuple

from .core import ModuleInfo, Repo, func_params, norm, walk_no_nested

ELEM, COLL, TELEM, TCOLL = "ELEM", "COLL", "TELEM", "TCOLL"
COLL_PASS = {"list", "tuple", "iter", "sorted", "reversed"}
HASH_BUILDERS = {"set", "frozenset", "dict.fromkeys", "OrderedDict.fromkeys", "collections.OrderedDict.fromkeys",
                 "Counter", "collections.Counter", "unique_everseen", "more_itertools.unique_everseen"}


@dataclass
class Sink:
    module: ModuleInfo
    fn: ast.AST
    node: ast.AST
    op: str
    operand: str
    kind: str
    why: str


@dataclass
class Ted:
    repo: Repo
    modules: List[ModuleInfo]
    # (module rel, function qualname, variable) -> kind
    seeds: Dict[Tuple[str, str, str], str]
    expr_seeds: Dict[Tuple[str, str], Set[str]] = field(default_factory=dict)  # (rel, qualname) -> expression texts (COLL)
    typed_pair_funcs: Set[str] = field(default_factory=set)   # functions returning [(type(x), x) ...]
    sinks: List[Sink] = field(default_factory=list)
    ok_sites: List[Tuple[str, str]] = field(default_factory=list)
    taint: Dict[Tuple[int, str], str] = field(default_factory=dict)   # (id(fn), var) -> kind
    _expr_seed_fn: Dict[int, Set[str]] = field(default_factory=dict)
    _fn_index: Dict[str, Tuple[ModuleInfo, ast.FunctionDef]] = field(default_factory=dict)

    def run(self) -> None:
        for m in self.modules:
            for node in ast.walk(m.tree):
                if isinstance(node, ast.FunctionDef):
                    self._fn_index.setdefault(node.name, (m, node))
                    if self._returns_typed_pairs(node):
                        self.typed_pair_funcs.add(node.name)
        for (rel, qual, var), kind in self.seeds.items():
            for m in self.modules:
                if m.rel.endswith(rel):
                    fn = self._find(m, qual)
                    if fn is not None:
                        self.taint[(id(fn), var)] = kind
        for (rel, qual), texts in self.expr_seeds.items():
            for m in self.modules:
                if m.rel.endswith(rel):
                    fn = self._find(m, qual)
                    if fn is not None:
                        self._expr_seed_fn.setdefault(id(fn), set()).update(texts)
        # fixpoint over functions
        changed = True
        rounds = 0
        while changed and rounds < 12:
            changed = False
            rounds += 1
            for m in self.modules:
                for node in ast.walk(m.tree):
                    if isinstance(node, (ast.FunctionDef, ast.Lambda)):
                        if self._propagate(m, node):
                            changed = True
        self.sinks = []
        self.ok_sites = []
        for m in self.modules:
            for node in ast.walk(m.tree):
                if isinstance(node, ast.FunctionDef):
                    self._sinks(m, node)

    # ------------------------------------------------------------------ helpers
    def _find(self, m: ModuleInfo, qual: str) -> Optional[ast.FunctionDef]:
        for node in ast.walk(m.tree):
            if isinstance(node, ast.FunctionDef) and m.qualname(node) == qual:
                return node
        return None

    @staticmethod
    def _returns_typed_pairs(fn: ast.FunctionDef) -> bool:
        rets = [r for r in ast.walk(fn) if isinstance(r, ast.Return) and r.value is not None]
        if len(rets) != 1:
            return False
        v = rets[0].value
        if isinstance(v, (ast.ListComp, ast.GeneratorExp)) and _is_typed_pair(v.elt):
            return True
        if isinstance(v, ast.Call) and norm(v.func) in ("tuple", "list", "frozenset", "set") and v.args \
                and isinstance(v.args[0], (ast.ListComp, ast.GeneratorExp)) and _is_typed_pair(v.args[0].elt):
            return True
        return False

    def kind_of(self, e: ast.expr, fn: ast.AST) -> Optional[str]:
        if isinstance(e, ast.Name):
            return self.taint.get((id(fn), e.id))
        if isinstance(e, ast.Attribute) and norm(e) in self._expr_seed_fn.get(id(fn), ()):
            return COLL
        if isinstance(e, ast.Starred):
            return self.kind_of(e.value, fn)
        if _is_typed_pair(e):
            inner = self.kind_of(e.elts[1], fn)
            return TELEM if inner in (ELEM, TELEM) else None
        if isinstance(e, ast.Call):
            f = norm(e.func)
            if f in self.typed_pair_funcs and e.args and self.kind_of(e.args[0], fn) in (COLL, TCOLL):
                return TCOLL
            if f in COLL_PASS | HASH_BUILDERS and e.args:
                k = self.kind_of(e.args[0], fn)
                if k in (COLL, TCOLL):
                    return k
            if isinstance(e.func, ast.Attribute) and e.func.attr in ("copy",) and not e.args:
                return self.kind_of(e.func.value, fn)
            return None
        if isinstance(e, (ast.ListComp, ast.GeneratorExp, ast.SetComp)):
            # [f(x) for x in COLL]: typed pairs or pass-through of the element
            if len(e.generators) == 1 and isinstance(e.generators[0].target, ast.Name):
                src = self.kind_of(e.generators[0].iter, fn)
                var = e.generators[0].target.id
                if src in (COLL, TCOLL):
                    if _is_typed_pair(e.elt) and isinstance(e.elt.elts[1], ast.Name) and e.elt.elts[1].id == var:
                        return TCOLL
                    if isinstance(e.elt, ast.Name) and e.elt.id == var:
                        return src
            return None
        if isinstance(e, (ast.Tuple, ast.List, ast.Set)):
            ks = {self.kind_of(x, fn) for x in e.elts}
            if ks & {COLL}:
                return COLL
            if ks & {ELEM}:
                return COLL
            if ks & {TELEM, TCOLL}:
                return TCOLL
            return None
        if isinstance(e, ast.BinOp) and isinstance(e.op, ast.Add):
            ks = {self.kind_of(e.left, fn), self.kind_of(e.right, fn)}
            if COLL in ks:
                return COLL
            if TCOLL in ks:
                return TCOLL
        if isinstance(e, ast.Subscript):
            k = self.kind_of(e.value, fn)
            if k == COLL:
                return COLL if isinstance(e.slice, ast.Slice) else ELEM
            if k == TCOLL:
                return TCOLL if isinstance(e.slice, ast.Slice) else TELEM
        if isinstance(e, ast.IfExp):
            return self.kind_of(e.body, fn) or self.kind_of(e.orelse, fn)
        return None

    def _set(self, fn: ast.AST, var: str, kind: Optional[str]) -> bool:
        if kind is None:
            return False
        key = (id(fn), var)
        old = self.taint.get(key)
        if old == kind:
            return False
        # untyped wins over typed (conservative)
        if old in (ELEM, COLL) and kind in (TELEM, TCOLL):
            return False
        self.taint[key] = kind
        return True

    def _propagate(self, m: ModuleInfo, fn: ast.AST) -> bool:
        changed = False
        for node in walk_no_nested(fn, include_root=False):
            if isinstance(node, ast.Assign):
                k = self.kind_of(node.value, fn)
                for t in node.targets:
                    if isinstance(t, ast.Name):
                        changed |= self._set(fn, t.id, k)
            elif isinstance(node, ast.AnnAssign) and node.value is not None and isinstance(node.target, ast.Name):
                changed |= self._set(fn, node.target.id, self.kind_of(node.value, fn))
            elif isinstance(node, (ast.For, ast.comprehension)):
                k = self.kind_of(node.iter, fn)
                ek = {COLL: ELEM, TCOLL: TELEM}.get(k or "")
                tgt = node.target
                if isinstance(tgt, ast.Name):
                    changed |= self._set(fn, tgt.id, ek)
            elif isinstance(node, ast.Call):
                f = node.func
                # xs.append(elem) / xs.extend(coll) / s.add(elem)
                if isinstance(f, ast.Attribute) and isinstance(f.value, ast.Name) and node.args:
                    ak = self.kind_of(node.args[0], fn)
                    if f.attr in ("append", "add") and ak in (ELEM, TELEM):
                        changed |= self._set(fn, f.value.id, COLL if ak == ELEM else TCOLL)
                    if f.attr in ("extend", "update") and ak in (COLL, TCOLL):
                        changed |= self._set(fn, f.value.id, ak)
                # interprocedural: callee parameters
                callee = None
                if isinstance(f, ast.Name) and f.id in self._fn_index:
                    callee = self._fn_index[f.id][1]
                    shift = 0
                elif isinstance(f, ast.Attribute) and f.attr in self._fn_index and isinstance(f.value, ast.Name) \
                        and f.value.id in ("self", "cls", "namespaced"):
                    callee = self._fn_index[f.attr][1]
                    shift = 1
                if callee is not None:
                    params = func_params(callee)[shift:]
                    for i, a in enumerate(node.args):
                        if i < len(params):
                            changed |= self._set(callee, params[i], self.kind_of(a, fn))
                    for kw in node.keywords:
                        if kw.arg in params:
                            changed |= self._set(callee, kw.arg, self.kind_of(kw.value, fn))
                    # return value taint: assigned by the Assign rule through _call_kind (below)
        # results of calls to functions whose return derives from tainted params
        for node in walk_no_nested(fn, include_root=False):
            if isinstance(node, ast.Assign) and isinstance(node.value, ast.Call):
                rk = self._call_result_kind(node.value, fn)
                for t in node.targets:
                    if isinstance(t, ast.Name):
                        changed |= self._set(fn, t.id, rk)
        return changed

    def _call_result_kind(self, call: ast.Call, fn: ast.AST) -> Optional[str]:
        f = call.func
        name = f.id if isinstance(f, ast.Name) else (f.attr if isinstance(f, ast.Attribute) else None)
        if name is None or name not in self._fn_index:
            return None
        callee = self._fn_index[name][1]
        kinds = set()
        for r in ast.walk(callee):
            if isinstance(r, ast.Return) and r.value is not None:
                kinds.add(self.kind_of(r.value, callee))
        kinds.discard(None)
        if COLL in kinds:
            return COLL
        if TCOLL in kinds:
            return TCOLL
        if ELEM in kinds:
            return ELEM
        return None

    # ------------------------------------------------------------------ sinks
    def _sinks(self, m: ModuleInfo, fn: ast.FunctionDef) -> None:
        for node in walk_no_nested(fn, include_root=False):
            if isinstance(node, ast.Compare):
                left = node.left
                for op, right in zip(node.ops, node.comparators):
                    lk, rk = self.kind_of(left, fn), self.kind_of(right, fn)
                    if isinstance(op, (ast.In, ast.NotIn)):
                        if lk == ELEM:
                            if _type_guarded(m, node, left):
                                self.ok_sites.append((m.qualname(fn), norm(node) + " [type-guarded]"))
                            else:
                                self.sinks.append(Sink(m, fn, node, "membership", norm(left), lk,
                                                       f"`{norm(node)}` tests an untyped value by ==/hash"))
                        elif rk == COLL and not _is_none(left):
                            if lk == TELEM:
                                self.sinks.append(Sink(m, fn, node, "kind-mismatch", norm(left), lk,
                                                       f"`{norm(node)}` searches a (type, value) pair in a collection "
                                                       "of plain values (constantly false)"))
                            elif lk is None and not isinstance(left, ast.Constant):
                                self.sinks.append(Sink(m, fn, node, "membership", norm(right), rk,
                                                       f"`{norm(node)}` compares against untyped values by =="))
                        elif rk == TCOLL and lk in (None, ELEM) and not _is_typed_pair(left):
                            if lk == ELEM or not isinstance(left, ast.Constant):
                                self.sinks.append(Sink(m, fn, node, "kind-mismatch", norm(left), lk or "?",
                                                       f"`{norm(node)}` searches a plain value in a collection of "
                                                       "(type, value) pairs (constantly false)"))
                        elif lk == TELEM or rk == TCOLL:
                            self.ok_sites.append((m.qualname(fn), norm(node) + " [typed]"))
                        elif rk == COLL and _is_none(left):
                            self.ok_sites.append((m.qualname(fn), norm(node) + " [None singleton]"))
                    elif isinstance(op, (ast.Eq, ast.NotEq)):
                        if (lk == COLL or rk == COLL) and not (_is_none_tuple(left) or _is_none_tuple(right)):
                            self.sinks.append(Sink(m, fn, node, "sequence-eq", norm(node), COLL,
                                                   f"`{norm(node)}` compares sequences of untyped values by =="))
                        elif lk == TCOLL or rk == TCOLL:
                            self.ok_sites.append((m.qualname(fn), norm(node) + " [typed]"))
                        elif (lk == COLL or rk == COLL):
                            self.ok_sites.append((m.qualname(fn), norm(node) + " [None singleton]"))
                    left = right
            elif isinstance(node, ast.Call):
                f = node.func
                fname = norm(f)
                if fname in HASH_BUILDERS and node.args and self.kind_of(node.args[0], fn) == COLL:
                    self.sinks.append(Sink(m, fn, node, "hash-build", norm(node.args[0]), COLL,
                                           f"`{norm(node)}` collapses values that are equal but of different type"))
                elif fname in HASH_BUILDERS and node.args and self.kind_of(node.args[0], fn) == TCOLL:
                    self.ok_sites.append((m.qualname(fn), norm(node) + " [typed]"))
                if isinstance(f, ast.Attribute) and node.args:
                    ak = self.kind_of(node.args[0], fn)
                    if f.attr in ("add", "index", "count", "remove", "get", "__contains__", "setdefault") and ak == ELEM \
                            and not _is_none(node.args[0]):
                        # xs.append is fine; set.add / list.index / dict.get use ==/hash
                        recv_kind = self.kind_of(f.value, fn)
                        if f.attr == "add" or recv_kind is not None or True:
                            self.sinks.append(Sink(m, fn, node, "hash-op", norm(node.args[0]), ELEM,
                                                   f"`{norm(node)}` uses ==/hash of an untyped value"))
            elif isinstance(node, ast.Subscript) and isinstance(node.ctx, (ast.Load, ast.Store)):
                if self.kind_of(node.slice, fn) == ELEM and self.kind_of(node.value, fn) not in (COLL, TCOLL):
                    if _type_guarded(m, node, node.slice):
                        self.ok_sites.append((m.qualname(fn), norm(node) + " [type-guarded]"))
                    else:
                        self.sinks.append(Sink(m, fn, node, "hash-lookup", norm(node.slice), ELEM,
                                               f"`{norm(node)}` looks an untyped value up by ==/hash"))
            elif isinstance(node, ast.Dict):
                for k in node.keys:
                    if k is not None and self.kind_of(k, fn) == ELEM:
                        self.sinks.append(Sink(m, fn, node, "hash-key", norm(k), ELEM,
                                               f"dict display keyed by an untyped value `{norm(k)}`"))
            elif isinstance(node, ast.DictComp):
                if self.kind_of(node.key, fn) == ELEM:
                    self.sinks.append(Sink(m, fn, node, "hash-key", norm(node.key), ELEM,
                                           f"dict comprehension keyed by an untyped value `{norm(node.key)}`"))


def _is_typed_pair(e: ast.AST) -> bool:
    return isinstance(e, ast.Tuple) and len(e.elts) == 2 and isinstance(e.elts[0], ast.Call) \
        and norm(e.elts[0].func) == "type" and len(e.elts[0].args) == 1 \
        and norm(e.elts[0].args[0]) == norm(e.elts[1])


def _is_none(e: ast.AST) -> bool:
    return isinstance(e, ast.Constant) and e.value is None


def _is_none_tuple(e: ast.AST) -> bool:
    return isinstance(e, ast.Tuple) and all(_is_none(x) for x in e.elts)


def _type_guarded(m: ModuleInfo, node: ast.AST, operand: ast.expr) -> bool:
    """The operation is dominated by an exact type test of the operand: `type(x) is T` / `type(x) in (...)` in an
    enclosing if-test (true branch) or an earlier `if type(x) ...: return` of the same block."""
    want = f"type({norm(operand)})"
    p = m.parent(node)
    child: ast.AST = node
    while p is not None and not isinstance(p, (ast.FunctionDef, ast.Lambda)):
        if isinstance(p, ast.If) and any(child is st for st in p.body):
            t = p.test
            for c in ast.walk(t):
                if isinstance(c, ast.Compare) and norm(c.left) == want and isinstance(c.ops[0], (ast.Is, ast.In, ast.Eq)):
                    return True
        child = p
        p = m.parent(p)
    return False
