"""SWALLOW — after a handler that catches *unexpected* exceptions (Exception/BaseException/bare) without re-raising, the
closure must not complete normally: every path to a `return` / to the end of the body has to pass a `raise`.

The analysis is a small path-sensitive abstract interpretation of one function body.  A state is
(origin, marks): origin = line of the broad handler that swallowed (None = nothing swallowed yet), marks = facts the handler
established and later tests may consult: 'F:<name>' (name was assigned True), 'L:<name>' (something was appended to name).
Tests `name`, `not name`, `len(name) > 0` ... on marked names prune the infeasible branch; everything else forks.
Loops are iterated to a fixed point (states are finite sets).  Used by C06 (modes must agree on acceptance: DISABLE/FIRST
propagate an unexpected exception, so ALL may not turn it into a normal result) on source closures and emitted programs.
"""
from __future__ import annotations

import ast
from typing import FrozenSet, List, Optional, Set, Tuple

from .core import norm

State = Tuple[Optional[int], FrozenSet[str]]
BROAD = {"Exception", "BaseException"}


def is_broad(h: ast.ExceptHandler) -> bool:
    if h.type is None:
        return True
    ts = h.type.elts if isinstance(h.type, ast.Tuple) else [h.type]
    return any(norm(t).split(".")[-1] in BROAD for t in ts)


def _ends_with_raise(body: List[ast.stmt]) -> bool:
    return bool(body) and isinstance(body[-1], ast.Raise)


class Swallow:
    def __init__(self, fn: ast.FunctionDef):
        self.fn = fn
        self.findings: List[Tuple[ast.AST, int, str]] = []   # (exit node, handler line, kind)
        self.handlers_seen = 0
        self._reported: Set[Tuple[int, int]] = set()

    # ------------------------------------------------------------------ tests
    def _split(self, test: ast.expr, st: State) -> Tuple[bool, bool]:
        """(may be true, may be false) in state st"""
        marks = st[1]

        def known_true(e: ast.expr) -> Optional[bool]:
            if isinstance(e, ast.Name):
                if f"F:{e.id}" in marks or f"L:{e.id}" in marks:
                    return True
                return None
            if isinstance(e, ast.UnaryOp) and isinstance(e.op, ast.Not):
                k = known_true(e.operand)
                return None if k is None else not k
            if isinstance(e, ast.Compare) and len(e.ops) == 1:
                l, r = e.left, e.comparators[0]
                # len(L) > 0 / len(L) != 0 / len(L) == 0 / F is True / F is False / F == True
                if isinstance(l, ast.Call) and norm(l.func) == "len" and l.args and isinstance(l.args[0], ast.Name) \
                        and f"L:{l.args[0].id}" in marks and isinstance(r, ast.Constant) and r.value == 0:
                    if isinstance(e.ops[0], (ast.Gt, ast.NotEq)):
                        return True
                    if isinstance(e.ops[0], (ast.Eq, ast.LtE)):
                        return False
                if isinstance(l, ast.Name) and f"F:{l.id}" in marks and isinstance(r, ast.Constant) and isinstance(r.value, bool):
                    if isinstance(e.ops[0], (ast.Is, ast.Eq)):
                        return r.value
                    if isinstance(e.ops[0], (ast.IsNot, ast.NotEq)):
                        return not r.value
                return None
            if isinstance(e, ast.BoolOp):
                ks = [known_true(v) for v in e.values]
                if isinstance(e.op, ast.And):
                    if any(k is False for k in ks):
                        return False
                    if all(k is True for k in ks):
                        return True
                else:
                    if any(k is True for k in ks):
                        return True
                    if all(k is False for k in ks):
                        return False
                return None
            return None
        k = known_true(test)
        if k is True:
            return True, False
        if k is False:
            return False, True
        return True, True

    # ------------------------------------------------------------------ statements
    def _effects(self, stmt: ast.stmt, st: State) -> State:
        origin, marks = st
        m = set(marks)
        for node in ast.walk(stmt):
            if isinstance(node, (ast.FunctionDef, ast.Lambda)):
                continue
            if isinstance(node, ast.Assign):
                for t in node.targets:
                    if isinstance(t, ast.Name):
                        if isinstance(node.value, ast.Constant) and node.value.value is True:
                            m.add(f"F:{t.id}")
                        else:
                            m.discard(f"F:{t.id}")
                            m.discard(f"L:{t.id}")
            elif isinstance(node, ast.Call) and isinstance(node.func, ast.Attribute) and node.func.attr in ("append", "extend", "add") \
                    and isinstance(node.func.value, ast.Name):
                if node.func.attr != "extend":
                    m.add(f"L:{node.func.value.id}")
        return origin, frozenset(m)

    def _report(self, node: ast.AST, st: State, kind: str) -> None:
        if st[0] is None:
            return
        key = (getattr(node, "lineno", 0), st[0])
        if key in self._reported:
            return
        self._reported.add(key)
        self.findings.append((node, st[0], kind))

    def run_block(self, body: List[ast.stmt], states: Set[State], loop_exits: Optional[Set[State]] = None,
                  loop_conts: Optional[Set[State]] = None) -> Set[State]:
        cur = set(states)
        for stmt in body:
            if not cur:
                break
            cur = self.run_stmt(stmt, cur, loop_exits, loop_conts)
        return cur

    def run_stmt(self, stmt: ast.stmt, states: Set[State], loop_exits, loop_conts) -> Set[State]:
        if isinstance(stmt, (ast.FunctionDef, ast.AsyncFunctionDef, ast.ClassDef)):
            return states
        if isinstance(stmt, ast.Return):
            for st in states:
                self._report(stmt, st, "return")
            return set()
        if isinstance(stmt, ast.Raise):
            return set()
        if isinstance(stmt, ast.Continue):
            if loop_conts is not None:
                loop_conts |= states
            return set()
        if isinstance(stmt, ast.Break):
            if loop_exits is not None:
                loop_exits |= states
            return set()
        if isinstance(stmt, ast.If):
            out: Set[State] = set()
            t_states, f_states = set(), set()
            for st in states:
                mt, mf = self._split(stmt.test, st)
                if mt:
                    t_states.add(st)
                if mf:
                    f_states.add(st)
            out |= self.run_block(stmt.body, t_states, loop_exits, loop_conts)
            out |= self.run_block(stmt.orelse, f_states, loop_exits, loop_conts) if stmt.orelse else f_states
            return out
        if isinstance(stmt, (ast.For, ast.While, ast.AsyncFor)):
            entry = set(states)
            seen: Set[State] = set(entry)
            exits: Set[State] = set()
            work = set(entry)
            for _ in range(12):
                conts: Set[State] = set()
                out = self.run_block(stmt.body, work, exits, conts) | conts
                new = out - seen
                if not new:
                    break
                seen |= new
                work = new
            after = seen | exits
            if stmt.orelse:
                after = self.run_block(stmt.orelse, seen, loop_exits, loop_conts) | exits
            return after
        if isinstance(stmt, ast.Try):
            inside: Set[State] = set(states)
            cur = set(states)
            for s in stmt.body:
                if not cur:
                    break
                cur = self.run_stmt(s, cur, loop_exits, loop_conts)
                inside |= cur
            out = set()
            normal = cur
            if stmt.orelse:
                normal = self.run_block(stmt.orelse, normal, loop_exits, loop_conts)
            out |= normal
            for h in stmt.handlers:
                hs = set(inside)
                if is_broad(h):
                    self.handlers_seen += 1
                    hs = {(st[0] if st[0] is not None else h.lineno, st[1]) for st in hs}
                out |= self.run_block(h.body, hs, loop_exits, loop_conts)
            if stmt.finalbody:
                out = self.run_block(stmt.finalbody, out, loop_exits, loop_conts)
            return out
        if isinstance(stmt, (ast.With, ast.AsyncWith)):
            return self.run_block(stmt.body, states, loop_exits, loop_conts)
        if hasattr(ast, "Match") and isinstance(stmt, ast.Match):
            out = set(states)
            for c in stmt.cases:
                out |= self.run_block(c.body, states, loop_exits, loop_conts)
            return out
        return {self._effects(stmt, st) for st in states}

    def analyse(self) -> "Swallow":
        end = self.run_block(self.fn.body, {(None, frozenset())})
        for st in end:
            self._report(self.fn, st, "end")
        return self


def _reraises(h: ast.ExceptHandler) -> bool:
    """handler whose every path ends in a raise (conservatively: last statement is a raise)"""
    return _ends_with_raise(h.body)


def analyse(fn: ast.FunctionDef) -> Swallow:
    return Swallow(fn).analyse()
