"""C05 — load errors are localised: trails are exact and, in ALL mode, complete (clauses: DESIGN.md 3/C05)."""
from __future__ import annotations

import ast
from typing import Dict, List, Optional, Set, Tuple

from ..closures import provider_classes
from ..core import AnalysisError, CheckResult, ClassInfo, Finding, ModuleInfo, Repo, func_params, norm, walk_no_nested
from ..modes import DT, closures_for
from ..paths import enumerate_paths
from ..values import Resolver, ctx_for, strip_elemof

LEVEL = "other"
EXHAUSTIVE = True
EXPLANATION = (
    "Path rules over every container loader/dumper closure that annotates trails: (1) each application of an element "
    "loader sits in a try whose every handler annotates the caught exception with the position of THAT element "
    "(iterables/tuples: a counter that is 0 before the loop and incremented exactly once on every continuing path of "
    "the loop body; dict values: the loop's key variable; dict keys: ItemKey(key)); (2) ALL mode: every handler path "
    "collects the caught exception exactly once, nothing leaves the loop early, the epilogue raises whenever something "
    "was collected and renders every collected trail exactly once; (3) FIRST mode: handler = annotate then bare raise; "
    "(4) closures handed out for DISABLE never touch trails, closures for FIRST/ALL that apply element loaders do; "
    "(5) the FIRST-mode facade wrapper renders the trail exactly once per failing call; (6) every LoadError raised by a "
    "builtin loader carries the offending datum in `input_value` (dataclass field order versus positional arguments); "
    "thorough tier: trails in emitted model loaders equal the crown path of the node (tier G)."
)
RULE = "one evaluation = one element application / one handler path / one LoadError construction site"
ASSUMPTIONS = ["that following the trail reaches the value needs an input and is not decided",
               "ordering of collected errors is documented as unspecified"]

MODS = ["morphing/iterable_provider", "morphing/dict_provider", "morphing/constant_length_tuple_provider",
        "morphing/generic_provider"]


def run(repo: Repo, tier: str, res: CheckResult, seed: int = 0) -> None:
    R = Resolver(repo)
    trail_pairing(repo, R, res)
    mode_trail_presence(repo, res)
    facade_wrapper(repo, res)
    input_value_binding(repo, res)
    from .c11 import caches_not_carried_over
    caches_not_carried_over(repo, res, prop="C05", rule="MODE.loaders-shared-across-debug-trail-modes",
                            consequence="a retort derived with replace(debug_trail=...) keeps raising in the mode of the original (trails under DISABLE, a single untrailed error under ALL)")
    from .. import genprog
    genprog.c05_checks(repo, tier, res, seed)
    # unknown keys under ExtraForbid are an independently invalid leaf: the forbid check may not depend on what else went wrong
    # (audit of C03 over the same emitted programs, reported here as a completeness clause)
    _sub3 = CheckResult("C03")
    genprog.c03_loader_checks(repo, tier, _sub3, seed, prop="C03")
    res.evaluated("generated:forbid-check-unconditional", True)
    for _f in _sub3.findings:
        if _f.rule in ("TV.forbid-check-conditional", "TV.forbid-rejection-guard"):
            res.add(Finding("C05", "ALL.generated-unknown-keys-not-reported", _f.file, _f.qualname, _f.construct,
                            "the check that reports unknown keys (ExtraFieldsLoadError) is skipped under a condition: with "
                            "DebugTrail.ALL a datum that has an unknown key AND another fault loses one of its independently invalid "
                            "leaves. " + _f.message[:200], _f.line))
    # an exception that is not a LoadError and escapes from a generated loader carries no trail, and under ALL it discards
    # every error collected so far -- none of the invalid leaves is reported (escape analysis of C04 over the same programs)
    from ..esc import Esc
    from ..values import Resolver as _Resolver
    _sub = CheckResult("C04")
    genprog.c04_checks(repo, tier, _sub, Esc(repo, _Resolver(repo), role="loader"), seed)
    res.evaluated("generated:escapes-lose-collected-errors", True)
    for _f in _sub.findings:
        if _f.rule == "ESC.generated-escape":
            res.add(Finding("C05", "ALL.generated-escape-loses-errors", _f.file, _f.qualname, _f.construct,
                            "a raw exception leaves the generated loader: it has no struct trail, and in DebugTrail.ALL the errors "
                            "collected before it are dropped, so the invalid leaves of the datum are not reported (a wrong-typed "
                            "nested mapping is met by code that runs after its type error was recorded). " + _f.message[:200], _f.line))
    res.assumptions = list(ASSUMPTIONS)


def _error_lists(fn: ast.FunctionDef) -> Set[str]:
    """local lists (`x = []`) that collect caught exceptions: `.append` is called on them inside an except handler"""
    inits = {norm(a.targets[0]) for a in walk_no_nested(fn, include_root=False) if isinstance(a, ast.Assign)
             and isinstance(a.value, ast.List) and not a.value.elts and isinstance(a.targets[0], ast.Name)}
    out = set()
    for h in [x for x in walk_no_nested(fn, include_root=False) if isinstance(x, ast.ExceptHandler)]:
        for c in ast.walk(h):
            if isinstance(c, ast.Call) and isinstance(c.func, ast.Attribute) and c.func.attr == "append" and norm(c.func.value) in inits:
                out.add(norm(c.func.value))
    return out


def _is_provided_call(R: Resolver, call: ast.Call, fctx) -> bool:
    if not isinstance(call.func, ast.Name):
        return False
    avs = R.resolve(call.func, fctx)
    return any(strip_elemof(a)[0] == "provided" for a in avs)


def _trail_calls(node: ast.AST) -> List[ast.Call]:
    return [c for c in ast.walk(node) if isinstance(c, ast.Call) and norm(c.func) in ("append_trail", "extend_trail")]


def trail_pairing(repo: Repo, R: Resolver, res: CheckResult) -> None:
    n_apply = 0
    n_funcs = 0
    for sm in MODS:
        m = repo.mod(sm)
        for fn in ast.walk(m.tree):
            if not isinstance(fn, ast.FunctionDef) or m.enclosing_function(fn) is None:
                continue
            own_trails = [c for c in _trail_calls(fn) if m.enclosing_function(c) is fn]
            if not own_trails:
                continue
            n_funcs += 1
            fctx = ctx_for(repo, m, fn)
            qual = m.qualname(fn)
            err_lists = _error_lists(fn)
            all_mode = bool(err_lists)
            loops = [l for l in walk_no_nested(fn) if isinstance(l, ast.For)]
            for loop in loops:
                # element applications inside this loop
                for call in [c for c in walk_no_nested(loop) if isinstance(c, ast.Call)]:
                    if not _is_provided_call(R, call, fctx):
                        continue
                    n_apply += 1
                    res.evaluated(f"apply:{m.rel}:{qual}:{norm(call)}", True)
                    tr = m.parent(call)
                    while tr is not None and tr is not loop and not (isinstance(tr, ast.Try) and _in_body(tr, call, m)):
                        tr = m.parent(tr)
                    if not isinstance(tr, ast.Try):
                        res.add(Finding("C05", "TRAIL.unprotected-apply", m.rel, qual, norm(call),
                                        "an element loader is applied outside any try block in a trail-annotating closure: "
                                        "its errors carry no position", call.lineno))
                        continue
                    if all_mode:
                        # an application that sits in the `else:` of a try around ANOTHER application runs only when that one
                        # succeeded: its own invalid leaves are lost whenever the other fails
                        node_: ast.AST = call
                        par = m.parent(node_)
                        while par is not None and par is not loop:
                            if isinstance(par, ast.Try) and any(node_ is x for x in par.orelse):
                                others = [norm(c) for b in par.body for c in ast.walk(b)
                                          if isinstance(c, ast.Call) and _is_provided_call(R, c, fctx)]
                                if others:
                                    res.add(Finding("C05", "ALL.skips-independent-leaf", m.rel, qual,
                                                    f"{norm(call)} only in the else of the try around {others[0]}",
                                                    f"`{norm(call)}` is applied only when `{others[0]}` succeeded (it sits in the "
                                                    "`else:` of that try): when both parts of one item are invalid the leaves "
                                                    "under the second are missing from the ALL-mode report", call.lineno))
                            node_ = par
                            par = m.parent(par)
                    want = _expected_position(loop, call)
                    for h in tr.handlers:
                        hv = h.name
                        tcs = [c for c in _trail_calls(h) if c.args and norm(c.args[0]) == hv]
                        if not tcs:
                            res.add(Finding("C05", "TRAIL.handler-without-trail", m.rel, qual,
                                            f"except {norm(h.type) if h.type else ''} around {norm(call)}",
                                            "a handler around an element application does not annotate the caught exception "
                                            "with the element position", h.lineno))
                            continue
                        for tc in tcs:
                            pos = tc.args[1] if len(tc.args) > 1 else None
                            ok, why = _position_ok(fn, loop, pos, want)
                            res.sample({"closure": qual, "apply": norm(call), "position": norm(pos) if pos else None,
                                        "expected": want}, limit=10)
                            if not ok:
                                res.add(Finding("C05", "TRAIL.wrong-position", m.rel, qual,
                                                f"{norm(tc)} around {norm(call)}", why, tc.lineno))
                        # mode specific handler shape
                        if all_mode:
                            for path in enumerate_paths(h.body):
                                colls = sum(1 for s in path if s[0] == "stmt" for c in ast.walk(s[1])
                                            if isinstance(c, ast.Call) and isinstance(c.func, ast.Attribute)
                                            and c.func.attr == "append" and norm(c.func.value) in err_lists
                                            and any(isinstance(x, ast.Name) and x.id == hv for x in ast.walk(c)))
                                res.evaluated(f"collect:{m.rel}:{qual}:{h.lineno}:{len(path)}", True)
                                if path[-1][0] == "continue":
                                    later = _later_applications(R, fctx, m, loop, tr)
                                    if later:
                                        res.add(Finding("C05", "ALL.skips-independent-leaf", m.rel, qual,
                                                        f"continue after collecting the error of {norm(call)}; skipped: {later[0]}",
                                                        f"after the error of `{norm(call)}` is collected the iteration is abandoned, so "
                                                        f"`{later[0]}` is never applied to the same item: an independently invalid leaf "
                                                        "under it is missing from the ALL-mode report", h.lineno))
                                if colls != 1 or path[-1][0] not in ("fall", "continue"):
                                    res.add(Finding("C05", "ALL.collect-exactly-once", m.rel, qual,
                                                    f"except {norm(h.type) if h.type else ''}: collects x{colls}, ends with {path[-1][0]}",
                                                    "in DebugTrail.ALL every handler path must collect the caught exception "
                                                    "exactly once and continue with the next element (an error is lost, "
                                                    "duplicated, or ends the collection early)", h.lineno))
                        else:
                            body = [s for s in h.body]
                            shape_ok = len(body) == 2 and isinstance(body[0], ast.Expr) and isinstance(body[1], ast.Raise) \
                                and body[1].exc is None
                            alt_ok = len(body) == 1 and isinstance(body[0], ast.Raise) and body[0].exc is not None \
                                and _trail_calls(body[0])
                            res.evaluated(f"first:{m.rel}:{qual}:{h.lineno}", True)
                            if not (shape_ok or alt_ok):
                                res.add(Finding("C05", "FIRST.annotate-and-reraise", m.rel, qual,
                                                "; ".join(norm(s) for s in body)[:120],
                                                "in DebugTrail.FIRST a handler annotates the exception and re-raises it "
                                                "unchanged", h.lineno))
                # counter discipline
                idxs = {norm(tc.args[1]) for tc in _trail_calls(loop) if len(tc.args) > 1 and isinstance(tc.args[1], ast.Name)}
                loop_targets = {n.id for n in ast.walk(loop.target) if isinstance(n, ast.Name)}
                for idx in idxs - loop_targets:
                    _counter_rule(m, fn, loop, idx, qual, res)
            if all_mode:
                _epilogue_rule(m, fn, qual, res)
    res.count("TRAIL.annotating-functions", n_funcs, 10)
    res.count("TRAIL.element-applications", n_apply, 14)


def _later_applications(R: Resolver, fctx, m: ModuleInfo, loop: ast.For, tr: ast.Try) -> List[str]:
    """provided-loader applications that follow `tr` inside one iteration of `loop`"""
    out: List[str] = []
    node: ast.AST = tr
    while node is not loop and node is not None:
        p = m.parent(node)
        for attr in ("body", "orelse", "finalbody"):
            blk = getattr(p, attr, None)
            if isinstance(blk, list) and any(node is b for b in blk):
                idx = next(i for i, b in enumerate(blk) if b is node)
                for st in blk[idx + 1:]:
                    for c in ast.walk(st):
                        if isinstance(c, ast.Call) and _is_provided_call(R, c, fctx):
                            out.append(norm(c))
        node = p
    return out


def _in_body(tr: ast.Try, node: ast.AST, m: ModuleInfo) -> bool:
    return any(node is x for st in tr.body for x in ast.walk(st))


def _expected_position(loop: ast.For, call: ast.Call) -> str:
    """what identifies the element the applied loader gets"""
    arg = norm(call.args[0]) if call.args else ""
    tgt = loop.target
    it = loop.iter
    if isinstance(tgt, ast.Tuple) and len(tgt.elts) == 2 and isinstance(it, ast.Call) and (
            (isinstance(it.func, ast.Attribute) and it.func.attr == "items") or norm(it.func) in ("items_method",)
            or "items" in norm(it.func)):
        k, v = norm(tgt.elts[0]), norm(tgt.elts[1])
        if arg == k:
            return f"ItemKey({k})"
        if arg == v:
            return k
    if isinstance(it, ast.Call) and norm(it.func) == "enumerate" and isinstance(tgt, ast.Tuple):
        return norm(tgt.elts[0])
    return "COUNTER"


def _position_ok(fn, loop, pos: Optional[ast.expr], want: str) -> Tuple[bool, str]:
    if pos is None:
        return False, "append_trail without position"
    p = norm(pos)
    if want == "COUNTER":
        if isinstance(pos, ast.Name):
            return True, ""
        return False, f"the element position must be the running index of the loop, found `{p}`"
    if p == want:
        return True, ""
    return False, (f"the trail element for this application must be `{want}` (dict keys are marked with ItemKey, values are "
                   f"addressed by their key), found `{p}`: following the trail does not reach the offending sub-value")


def _counter_rule(m: ModuleInfo, fn, loop: ast.For, idx: str, qual: str, res: CheckResult) -> None:
    res.evaluated(f"counter:{m.rel}:{qual}:{idx}", True)
    # initialised to 0 before the loop, at the same block level
    init = [s for s in walk_no_nested(fn) if isinstance(s, ast.Assign) and norm(s.targets[0]) == idx and s.lineno < loop.lineno]
    if not init or not (isinstance(init[-1].value, ast.Constant) and init[-1].value.value == 0):
        res.add(Finding("C05", "TRAIL.counter-start", m.rel, qual, norm(init[-1]) if init else f"{idx} undefined",
                        f"the element counter `{idx}` must start at 0 before the loop", loop.lineno))
    for path in enumerate_paths(loop.body, loop_unroll=(0, 1)):
        term = path[-1][0]
        if term not in ("fall", "continue"):
            continue
        incs = [s[1] for s in path if s[0] == "stmt" and isinstance(s[1], ast.AugAssign) and norm(s[1].target) == idx]
        good = len(incs) == 1 and isinstance(incs[0].op, ast.Add) and isinstance(incs[0].value, ast.Constant) \
            and incs[0].value.value == 1
        if not good:
            why = "through a handler" if any(s[0] == "enter-handler" for s in path) else "through the try body"
            res.add(Finding("C05", "TRAIL.counter-step", m.rel, qual, f"{idx}: {len(incs)} increment(s) on a path {why}",
                            f"on a path {why} of the loop body that continues with the next element the counter `{idx}` is "
                            f"incremented {len(incs)} times instead of exactly once: later errors are reported at a wrong index",
                            loop.lineno))
            return


def _epilogue_rule(m: ModuleInfo, fn, qual: str, res: CheckResult) -> None:
    res.evaluated(f"epilogue:{m.rel}:{qual}", True)
    err_lists = _error_lists(fn)
    ifs = [s for s in fn.body if isinstance(s, ast.If) and norm(s.test) in err_lists]
    if len(ifs) != 1:
        res.add(Finding("C05", "ALL.epilogue", m.rel, qual, "if errors:", "the ALL-mode closure must end with exactly one "
                        "`if errors:` epilogue after the loop", fn.lineno))
        return
    ep = ifs[0]
    for path in enumerate_paths(ep.body):
        if path[-1][0] != "raise":
            res.add(Finding("C05", "ALL.epilogue", m.rel, qual, f"if errors: ... {path[-1][0]}",
                            "when errors were collected every path of the epilogue must raise (otherwise collected errors "
                            "are dropped and a partial result is returned)", ep.lineno))
            return
        r = path[-1][1]
        # each collected error rendered exactly once
        renders = [c for c in ast.walk(r) if isinstance(c, ast.Call) and norm(c.func) == "render_trail_as_note"]
        is_union = "UnionLoadError" in norm(r) or "while loading {tp}" in norm(r)
        if len(renders) != 1 and not is_union:
            res.add(Finding("C05", "ALL.render-once", m.rel, qual, norm(r)[:120],
                            f"collected errors must be rendered with render_trail_as_note exactly once (found {len(renders)})",
                            r.lineno))
    # nothing between the loop and the epilogue returns
    loops = [s for s in fn.body if isinstance(s, ast.For)]
    if loops and fn.body.index(ep) < fn.body.index(loops[-1]):
        res.add(Finding("C05", "ALL.epilogue", m.rel, qual, "order", "the epilogue must follow the collecting loop", ep.lineno))


# ------------------------------------------------------------------------------------------ (4)
def _trail_calls_in(node: ast.AST) -> bool:
    return any(isinstance(c, ast.Call) and norm(c.func) in ("append_trail", "extend_trail") for c in ast.walk(node))


def mode_trail_presence(repo: Repo, res: CheckResult) -> None:
    n = 0
    for meth in ("provide_loader", "provide_dumper"):
        for ci in provider_classes(repo, meth):
            if "integrations/" in ci.module.rel or ci.module.rel.endswith("provider_template.py"):
                continue
            found = repo.find_method(ci, meth)
            if found is None or not found[1].body:
                continue
            per = {dt: closures_for(repo, ci, meth, dt, True) for dt in DT}
            ids = {dt: [id(f.fn) for f in v] for dt, v in per.items()}
            if ids["DISABLE"] == ids["FIRST"] == ids["ALL"]:
                continue
            for dt in DT:
                for fv in per[dt]:
                    fns = [fv.fn] + [b[0] for b in fv.flat_bindings().values()]
                    has_trail = any(_trail_calls(f) for f in fns)
                    n += 1
                    res.evaluated(f"presence:{ci.name}:{meth}:{dt}:{fv.name}", True)
                    if dt == "DISABLE" and has_trail:
                        res.add(Finding("C05", "MODE.trail-in-disable", fv.module.rel, f"{ci.name}:{meth}:DISABLE",
                                        fv.name, "a closure handed out for DebugTrail.DISABLE annotates trails", fv.fn.lineno))
                    if dt == "ALL" and has_trail:
                        # a closure that walks over SEVERAL leaves (a loop whose handlers annotate and re-raise) reports only the
                        # first invalid one; under ALL every leaf is visited and the errors are collected
                        for f in fns:
                            loops = [l for l in walk_no_nested(f, include_root=False) if isinstance(l, (ast.For, ast.While))]
                            stops = [h for l in loops for h in ast.walk(l) if isinstance(h, ast.ExceptHandler)
                                     and any(isinstance(x, ast.Raise) and x.exc is None for x in ast.walk(h)) and _trail_calls_in(h)]
                            if stops and not _error_lists(f):
                                res.add(Finding("C05", "MODE.all-stops-at-first-leaf", fv.module.rel, f"{ci.name}:{meth}:ALL", f.name,
                                                f"the closure `{f.name}` handed out for DebugTrail.ALL annotates the error of an item and "
                                                "re-raises it from inside the loop over the items, and collects nothing: the other "
                                                "invalid leaves of the container are never reported (ALL promises every leaf, in one "
                                                "aggregate)", stops[0].lineno))
                    if dt != "DISABLE" and not has_trail and ci.name != "UnionProvider":
                        res.add(Finding("C05", "MODE.no-trail-in-debug", fv.module.rel, f"{ci.name}:{meth}:{dt}",
                                        fv.name, f"the closure handed out for DebugTrail.{dt} does not annotate trails: errors "
                                        "of nested values are not localised", fv.fn.lineno))
    res.count("MODE.closures", n, 20)


# ------------------------------------------------------------------------------------------ (5)
def facade_wrapper(repo: Repo, res: CheckResult) -> None:
    m = repo.mod("morphing/facade/retort")
    ci = m.classes.get("AdornedRetort")
    if ci is None:
        raise AnalysisError("anchor vanished: AdornedRetort")
    for mname in ("_make_loader", "_make_dumper"):
        fn = ci.methods.get(mname)
        if fn is None:
            raise AnalysisError(f"anchor vanished: AdornedRetort.{mname}")
        res.evaluated(f"facade:{mname}", True)
        ifs = [s for s in fn.body if isinstance(s, ast.If) and "DebugTrail.FIRST" in norm(s.test) and "==" in norm(s.test)]
        ok = False
        if len(ifs) == 1:
            wr = [d for d in ifs[0].body if isinstance(d, ast.FunctionDef)]
            if len(wr) == 1:
                trs = [t for t in wr[0].body if isinstance(t, ast.Try)]
                if len(trs) == 1 and len(trs[0].handlers) == 1:
                    h = trs[0].handlers[0]
                    renders = [c for c in ast.walk(h) if isinstance(c, ast.Call) and norm(c.func) == "render_trail_as_note"]
                    if not any(c.args and norm(c.args[0]) == h.name for c in renders):
                        renders = []
                    reraises = isinstance(h.body[-1], ast.Raise) and h.body[-1].exc is None
                    catches_all = h.type is not None and norm(h.type) in ("Exception", "BaseException", "LoadError")
                    ok = len(renders) == 1 and reraises and catches_all
        if not ok:
            res.add(Finding("C05", "FACADE.render-once", m.rel, f"AdornedRetort.{mname}", "trail_rendering_wrapper",
                            "with DebugTrail.FIRST the facade must wrap the loader so that the trail of any escaping "
                            "exception is rendered exactly once and the exception is re-raised unchanged", fn.lineno))
    res.count("FACADE.wrappers", 2, 2)


# ------------------------------------------------------------------------------------------ (6)
def _dataclass_field_order(repo: Repo, ci: ClassInfo) -> Optional[List[str]]:
    """positional order of the synthesised dataclass __init__ (redeclared fields keep their first position); an
    explicit __init__ overrides it"""
    explicit = ci.methods.get("__init__")
    if explicit is not None:
        return [a.arg for a in explicit.args.args[1:]]
    order: List[str] = []
    for c in reversed(repo.mro(ci)):
        ex = c.methods.get("__init__")
        if ex is not None and c is not ci:
            order = [a.arg for a in ex.args.args[1:]]
            continue
        for st in c.node.body:
            if isinstance(st, ast.AnnAssign) and isinstance(st.target, ast.Name):
                if st.target.id not in order:
                    order.append(st.target.id)
    return order


def input_value_binding(repo: Repo, res: CheckResult) -> None:
    le = repo.mod("morphing/load_error")
    classes = {ci.name: ci for ci in le.classes.values() if repo.is_subclass(ci, "LoadError")}
    orders = {name: _dataclass_field_order(repo, ci) for name, ci in classes.items()}
    n = 0
    for m in repo.modules.values():
        if "/morphing/" not in m.rel or m.rel.endswith("load_error.py"):
            continue
        for call in ast.walk(m.tree):
            if not (isinstance(call, ast.Call) and isinstance(call.func, ast.Name) and call.func.id in classes):
                continue
            order = orders.get(call.func.id) or []
            if "input_value" not in order:
                continue
            fn = m.enclosing_function(call)
            if fn is None:
                continue
            bound: Dict[str, ast.expr] = {}
            for name, a in zip(order, call.args):
                bound[name] = a
            for kw in call.keywords:
                if kw.arg:
                    bound[kw.arg] = kw.value
            n += 1
            res.evaluated(f"input_value:{m.rel}:{m.qualname(call)}:{norm(call)}", True)
            iv = bound.get("input_value")
            params = set()
            f = fn
            while f is not None:
                params |= set(func_params(f)[:1])
                f = m.enclosing_function(f)
            problems = []
            if iv is not None and isinstance(iv, (ast.Name, ast.Attribute)):
                r = repo.resolve_expr_static(m, iv) if not (isinstance(iv, ast.Name) and iv.id in params) else None
                if r is not None and r.kind in ("ext", "class"):
                    problems.append(f"`input_value` is bound to the type `{norm(iv)}`")
            for fld, a in bound.items():
                if fld.endswith("_type") and isinstance(a, ast.Name) and a.id in params and a.id in ("data", "iterable"):
                    problems.append(f"`{fld}` is bound to the datum `{a.id}`")
            if problems:
                ci = classes[call.func.id]
                res.add(Finding("C05", "ERROR.input-value-binding", le.rel, ci.name,
                                f"{ci.name}({', '.join(order)})",
                                f"positional construction `{norm(call)}` in {m.rel}:{m.qualname(call)} does not match the "
                                f"dataclass field order {order} of {ci.name} ({'; '.join(problems)}): the reported error "
                                "does not carry the offending datum in input_value", ci.node.lineno))
    res.count("ERROR.construction-sites", n, 40)
