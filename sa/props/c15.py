"""C15 — type normalisation is a canonical form (clauses decided: DESIGN.md 3/C15)."""
from __future__ import annotations

import ast
from typing import Dict, List, Optional, Set, Tuple

from ..core import func_params, AnalysisError, CheckResult, ClassInfo, Finding, ModuleInfo, Repo, norm, walk_no_nested
from ..ted import COLL, Ted

LEVEL = "other"
EXHAUSTIVE = True
EXPLANATION = (
    "Four structural rules over type_tools/normalize_type.py: (1) typed-equality discipline: Literal arguments (values "
    "of unknown type, 0 == False) never become operands of ==/hash container operations unless paired with their type "
    "or compared with the None singleton (interprocedural taint from every `X.args` under `X.origin == Literal`); "
    "(2) every construction path of union/literal norm types orders its arguments and nothing replaces `_args` "
    "afterwards; (3) eq/hash consistency of every BaseNormType subclass (fields hashed are fields compared; own class "
    "family); (4) union normalisation applies unfold, dedup, literal merge, single-argument collapse in that order."
)
RULE = "one evaluation = one eq/hash container operation on Literal arguments, one class eq/hash pair, one def-use link"
ASSUMPTIONS = ["typing itself compares Literal args with their types (CPython >= 3.9.1)",
               "idempotence, implicit parameters and loader equivalence are not decided"]

NT = "type_tools/normalize_type"


def run(repo: Repo, tier: str, res: CheckResult, seed: int = 0) -> None:
    m = repo.mod(NT)
    ted_rule(repo, m, res)
    ordering_rule(repo, m, res)
    eq_hash_rule(repo, m, res)
    union_pipeline_rule(repo, m, res)
    implicit_params_rule(repo, res)
    literal_truthiness_rule(repo, m, res)
    arguments_go_through_the_aspects(repo, m, res)
    parametrized_means_has_arguments(repo, res)
    # a memo inside the normaliser keyed by Literal VALUES makes the normal form depend on what was normalised before
    from .. import memo
    memo.check(repo, res, "C15", only=("/type_tools/",), floors=False)
    res.assumptions = list(ASSUMPTIONS)


# ------------------------------------------------------------------------------------------ (1) TED
def literal_seeds(m: ModuleInfo) -> Tuple[Dict[Tuple[str, str, str], str], Dict[Tuple[str, str], Set[str]]]:
    seeds: Dict[Tuple[str, str, str], str] = {}
    expr_seeds: Dict[Tuple[str, str], Set[str]] = {}
    for fn in ast.walk(m.tree):
        if not isinstance(fn, ast.FunctionDef):
            continue
        qual = m.qualname(fn)
        for node in walk_no_nested(fn, include_root=False):
            if isinstance(node, ast.If):
                for c in ast.walk(node.test):
                    if isinstance(c, ast.Compare) and len(c.ops) == 1 and isinstance(c.ops[0], (ast.Eq, ast.Is)) \
                            and norm(c.comparators[0]) in ("Literal", "typing.Literal"):
                        left = c.left
                        if isinstance(left, ast.Attribute) and left.attr == "origin":
                            expr_seeds.setdefault((m.rel, qual), set()).add(norm(left.value) + ".args")
                        elif isinstance(left, ast.Name) and left.id == "origin":
                            # normaliser aspect (tp, origin, args) / make_norm_type(origin, args)
                            params = [a.arg for a in fn.args.args]
                            if "args" in params:
                                seeds[(m.rel, qual, "args")] = COLL
        cls = m.enclosing_class(fn)
        if cls is not None and cls.name == "_LiteralNormType":
            expr_seeds.setdefault((m.rel, qual), set()).update({"self._args", "other._args", "self.args", "other.args"})
            if "args" in [a.arg for a in fn.args.args]:
                seeds[(m.rel, qual, "args")] = COLL
    return seeds, expr_seeds


def ted_rule(repo: Repo, m: ModuleInfo, res: CheckResult) -> None:
    seeds, expr_seeds = literal_seeds(m)
    if len(seeds) + len(expr_seeds) < 4:
        raise AnalysisError(f"TED sources vanished in {m.rel}: {len(seeds)} + {len(expr_seeds)}")
    ted = Ted(repo, [m], seeds, expr_seeds)
    ted.run()
    for q, t in ted.ok_sites:
        res.evaluated(f"ted-ok:{q}:{t}", True)
        res.sample({"site": f"{q}: {t}", "verdict": "sanitised"}, limit=10)
    for s in ted.sinks:
        q = s.module.qualname(s.fn)
        res.evaluated(f"ted:{q}:{norm(s.node)}", True)
        res.add(Finding("C15", f"TED.{s.op}", s.module.rel, q, norm(s.node),
                        f"{s.why}: Literal arguments that are equal but of different type (0/False, 1/True) collapse or "
                        f"are confused (operand `{s.operand}` carries untyped Literal arguments)",
                        getattr(s.node, "lineno", 0)))
    res.count("TED.literal-arg-sources", len(seeds) + sum(len(v) for v in expr_seeds.values()), 6)
    res.count("TED.sites", len(ted.ok_sites) + len(ted.sinks), 3)


# ------------------------------------------------------------------------------------------ (2) ordering
def ordering_rule(repo: Repo, m: ModuleInfo, res: CheckResult, prop: str = "C15") -> None:
    for cname in ("_UnionNormType", "_LiteralNormType"):
        ci = m.classes.get(cname)
        if ci is None:
            raise AnalysisError(f"anchor vanished: {cname}")
        init = ci.methods.get("__init__")
        res.evaluated(f"order:{cname}.__init__", True)
        ok = False
        if init is not None:
            for c in ast.walk(init):
                if isinstance(c, ast.Call) and isinstance(c.func, ast.Attribute) and c.func.attr == "__init__" and c.args:
                    a0 = c.args[0]
                    if isinstance(a0, ast.Call) and isinstance(a0.func, ast.Attribute) and a0.func.attr == "_order_args":
                        ok = True
                    if isinstance(a0, ast.Call) and norm(a0.func) in ("tuple", "sorted") and "key" in norm(a0):
                        ok = True
        if not ok:
            res.add(Finding(prop, "ORDER.args-not-ordered", m.rel, f"{cname}.__init__",
                            norm(init) [:120] if init is not None else "no __init__",
                            f"{cname} must hand ordered arguments to the base constructor: equal unions/literals written "
                            "in different order would otherwise compare and hash differently",
                            init.lineno if init is not None else ci.node.lineno))
        oa = ci.methods.get("_order_args")
        res.evaluated(f"order:{cname}._order_args", True)
        if oa is None or not any(isinstance(c, ast.Call) and ((isinstance(c.func, ast.Attribute) and c.func.attr == "sort")
                                                              or norm(c.func) == "sorted") for c in ast.walk(oa)):
            res.add(Finding(prop, "ORDER.args-not-ordered", m.rel, f"{cname}._order_args", "no sort",
                            "_order_args no longer sorts its arguments", oa.lineno if oa else ci.node.lineno))
        # every path of _order_args goes through the sort: an early return (a "fast path" for inputs assumed to be sorted
        # already) makes the normal form depend on how the hint was spelled
        if oa is not None:
            sort_lines = [c.lineno for c in ast.walk(oa) if isinstance(c, ast.Call) and (
                (isinstance(c.func, ast.Attribute) and c.func.attr == "sort") or norm(c.func) == "sorted")]
            first_sort = min(sort_lines) if sort_lines else 10 ** 9
            for r in [x for x in ast.walk(oa) if isinstance(x, ast.Return) and x.value is not None]:
                res.evaluated(f"order:{cname}._order_args:return:{norm(r.value)[:30]}", True)
                has_sorted = any(isinstance(c, ast.Call) and norm(c.func) == "sorted" for c in ast.walk(r.value))
                if r.lineno < first_sort and not has_sorted:
                    res.add(Finding(prop, "ORDER.unsorted-path", m.rel, f"{cname}._order_args", norm(r)[:100],
                                    f"`{norm(r)[:80]}` leaves _order_args before the arguments are sorted: for those inputs the "
                                    "member order is the order of writing, so equal unions spelled differently (Optional[X] vs "
                                    "Union[None, X] with a NewType / Any / Annotated member) get different normal forms", r.lineno))
    # the ordering key is a function of the type alone: origin + the same key applied recursively to every argument;
    # leaves are keyed with repr() (str() conflates 1 and '1'), nothing spelling-dependent (source, repr of norm types)
    for cname in ("_UnionNormType", "_LiteralNormType"):
        ci = m.classes[cname]
        mo = ci.methods.get("_make_orderable")
        res.evaluated(f"order:{cname}._make_orderable", True)
        if mo is None:
            raise AnalysisError(f"anchor vanished: {cname}._make_orderable")
        obj = mo.args.args[1].arg
        problems = []
        rets = [r for r in ast.walk(mo) if isinstance(r, ast.Return) and r.value is not None]
        if cname == "_UnionNormType":
            norm_rets = []
            for node in ast.walk(mo):
                if isinstance(node, ast.If) and f"isinstance({obj}, BaseNormType)" in norm(node.test):
                    norm_rets = [r for s in node.body for r in ast.walk(s) if isinstance(r, ast.Return)]
            if not norm_rets:
                problems.append("no branch for normalised types")
            for r in norm_rets:
                txt = norm(r.value)
                if f"{obj}.origin" not in txt:
                    problems.append("the key of a normalised type does not include its origin")
                recursive = any(isinstance(c, ast.Call) and norm(c.func) == "self._make_orderable" for c in ast.walk(r.value))
                over_args = any(isinstance(g, ast.comprehension) and norm(g.iter) == f"{obj}.args" for g in ast.walk(r.value))
                if not (recursive and over_args):
                    problems.append("the key of a normalised type is not the same key applied recursively to every "
                                    "argument (members with equal origin tie and keep the order they were written in)")
                for fv in ast.walk(r.value):
                    if isinstance(fv, ast.FormattedValue) and norm(fv.value) in (obj, f"{obj}.args", f"{obj}.source"):
                        problems.append(f"the key formats `{norm(fv.value)}` directly: repr/str of normalised types depends "
                                        "on how the hint was spelled (source)")
                if ".source" in txt or "_source" in txt:
                    problems.append("the key depends on the source spelling")
                # origins are compared by identity; their repr is not injective (two classes made by one factory function, two
                # TypeVars named T): without an identity component such members tie and keep the written order
                if not any(isinstance(c, ast.Call) and norm(c.func) == "id" and c.args and f"{obj}.origin" in norm(c.args[0])
                           for c in ast.walk(r.value)):
                    problems.append("the key of a normalised type identifies its origin by repr only: distinct classes / TypeVars "
                                    "with the same module and name tie (Union[A1, A2] != Union[A2, A1])")
        if cname == "_LiteralNormType":
            # enum members: the class is part of the key by identity, not only by repr
            for r in rets:
                for e in ast.walk(r.value):
                    if isinstance(e, ast.JoinedStr) and f"type({obj})" in norm(e) and f"id(type({obj}))" not in norm(e):
                        problems.append("enum members are keyed by repr of their class and name: members of two enum classes with the "
                                        "same qualified name tie")
        if cname == "_UnionNormType":
            # an argument may be a TUPLE of normalised types (the parameter list of Callable): repr() of it formats the
            # members with their `source`, so the key must recurse into tuples as well
            tuple_branch = False
            for node in ast.walk(mo):
                if isinstance(node, ast.If) and f"isinstance({obj}, tuple)" in norm(node.test).replace("(tuple, list)", "tuple"):
                    tuple_branch = any(isinstance(c, ast.Call) and norm(c.func) == "self._make_orderable"
                                       for s_ in node.body for c in ast.walk(s_))
            if not tuple_branch:
                problems.append("a tuple argument (the parameter list of Callable) is keyed with repr(), which prints the "
                                "normalised parameter types together with their source spelling (List[int] vs list[int])")
            # the arguments of a nested Literal reach the leaf: repr() is injective on str / int / bytes / bool / None but not
            # on enum members (`<A.X: 1>` for every class named A) -- they need the identity of their class like in
            # _LiteralNormType._make_orderable
            enum_branch = False
            for node in ast.walk(mo):
                tests = []
                if isinstance(node, ast.If):
                    tests.append((node.test, node.body))
                if isinstance(node, ast.IfExp):
                    tests.append((node.test, [node.body]))
                for test, body in tests:
                    if f"isinstance({obj}, Enum)" in norm(test) or f"isinstance(type({obj}), EnumMeta)" in norm(test):
                        enum_branch = enum_branch or any(f"id(type({obj}))" in norm(s_) for s_ in body)
            if not enum_branch:
                problems.append("an enum member (argument of a nested Literal) is keyed with repr() only: members of two enum classes "
                                "with the same name tie (Union[List[Literal[A1.X]], List[Literal[A2.X]]] keeps the written order)")
        leaf = [r for r in rets if isinstance(r.value, ast.Call) and norm(r.value.func) in ("str", "repr")
                and r.value.args and norm(r.value.args[0]) == obj]
        leaf += [r.value.orelse for r in rets if isinstance(r.value, ast.IfExp)]  # type: ignore[misc]
        for l in leaf:
            e = l.value if isinstance(l, ast.Return) else l
            if isinstance(e, ast.Call) and norm(e.func) == "str" and e.args and norm(e.args[0]) == obj:
                problems.append(f"leaf values are keyed with str({obj}): 1 and '1' (or 0 and False inside nested literals) "
                                "tie, so the order of such members depends on the order they were written in")
        if problems:
            res.add(Finding(prop, "ORDER.key-not-canonical", m.rel, f"{cname}._make_orderable", "; ".join(sorted(set(problems)))[:300],
                            "the stable-ordering key of union/literal members is not a function of the type alone: "
                            + "; ".join(sorted(set(problems))) + " -- Union[A, B] and Union[B, A] normalise to different, "
                            "unequal forms", mo.lineno))
    # nothing writes _args outside _BasicNormType.__init__
    n = 0
    for node in ast.walk(m.tree):
        if isinstance(node, (ast.Assign, ast.AugAssign, ast.AnnAssign)):
            targets = node.targets if isinstance(node, ast.Assign) else [node.target]
            for t in targets:
                if isinstance(t, ast.Attribute) and t.attr == "_args":
                    n += 1
                    q = m.qualname(node)
                    res.evaluated(f"order:_args-store:{q}", True)
                    if q not in ("_BasicNormType.__init__", "NormTypeAlias.__init__"):
                        res.add(Finding(prop, "ORDER.args-bypass", m.rel, q, norm(node),
                                        "`_args` of a normalised type is replaced after construction, bypassing the "
                                        "ordering/typing done by the constructors", node.lineno))
    res.count("ORDER._args-stores", n, 2)


# ------------------------------------------------------------------------------------------ (3) eq/hash
def _self_fields(fn: ast.FunctionDef, who: str = "self") -> Set[str]:
    out: Set[str] = set()
    for n in ast.walk(fn):
        if isinstance(n, ast.Attribute) and isinstance(n.value, ast.Name) and n.value.id == who:
            out.add(n.attr)
    return out


def eq_hash_rule(repo: Repo, m: ModuleInfo, res: CheckResult) -> None:
    n = 0
    for ci in m.classes.values():
        if not repo.is_subclass(ci, "BaseNormType"):
            continue
        eq = repo.find_method(ci, "__eq__")
        # __hash__ may be a class attribute alias (__hash__ = _BasicNormType.__hash__)
        hs = repo.find_method(ci, "__hash__")
        alias = repo.find_class_attr(ci, "__hash__")
        if alias is not None and (hs is None or repo.mro(ci).index(alias[0]) <= repo.mro(ci).index(hs[0])):
            r = repo.resolve_expr_static(alias[0].module, alias[1])
            hs = (r.cls, r.node) if r.kind == "func" else hs
        if eq is None or hs is None:
            continue
        n += 1
        res.evaluated(f"eqhash:{ci.name}", True)
        hf = _expand_fields(repo, ci, _self_fields(hs[1]))
        ef = _expand_fields(repo, ci, _self_fields(eq[1]))
        # a precomputed hash field (self._hash) is computed from other fields: follow it
        if "_hash" in hf:
            calc = repo.find_method(ci, "_calc_hash")
            if calc is not None:
                hf = (hf - {"_hash"}) | _expand_fields(repo, ci, _self_fields(calc[1]))
        hf -= {"_calc_hash", "_hash", "__class__"}
        extra = {f for f in hf if f not in ef}
        res.sample({"class": ci.name, "hash_fields": sorted(hf), "eq_fields": sorted(ef)}, limit=14)
        if extra:
            res.add(Finding("C15", "EQHASH.hash-not-subset-of-eq", m.rel, f"{ci.name}.__hash__", ", ".join(sorted(extra)),
                            f"__hash__ of {ci.name} reads {sorted(extra)} which __eq__ does not compare: equal normal forms "
                            "may hash differently (cache misses, duplicate union members)", hs[1].lineno))
        # a hash precomputed in a constructor must be computed from what __eq__ compares -- the STORED (ordered, typed)
        # arguments -- not from the raw parameter the constructor transforms before storing it
        for mname, fn in ci.methods.items():
            for st in ast.walk(fn):
                if not (isinstance(st, ast.Assign) and any(norm(t) == "self._hash" for t in st.targets)):
                    continue
                params = {a.arg for a in fn.args.args + fn.args.kwonlyargs} - {"self"}
                raw = {x.id for x in ast.walk(st.value) if isinstance(x, ast.Name) and x.id in params}
                for p_ in sorted(raw):
                    transformed = None
                    for c in ast.walk(fn):
                        if isinstance(c, ast.Call) and c is not st.value and not any(c is x for x in ast.walk(st.value)):
                            inner = [a for a in list(c.args) + [k.value for k in c.keywords]
                                     if isinstance(a, ast.Call) and any(isinstance(x, ast.Name) and x.id == p_ for x in ast.walk(a))]
                            if inner and (norm(c.func).endswith("__init__") or norm(c.func).startswith("super()")):
                                transformed = norm(inner[0])
                    for a2 in ast.walk(fn):
                        if isinstance(a2, ast.Assign) and a2 is not st and isinstance(a2.value, ast.Call) \
                                and any(isinstance(t, ast.Attribute) and norm(t.value) == "self" for t in a2.targets) \
                                and any(isinstance(x, ast.Name) and x.id == p_ for x in ast.walk(a2.value)):
                            transformed = norm(a2.value)
                    if transformed is not None:
                        res.add(Finding("C15", "EQHASH.hash-from-untransformed-input", m.rel, f"{ci.name}.{mname}", norm(st)[:100],
                                        f"`{norm(st)[:80]}` computes the hash from the raw parameter `{p_}` while the object stores and "
                                        f"compares `{transformed[:60]}`: two equal normal forms built from differently written hints "
                                        "(Union[int, str] / Union[str, int] inside list / List) hash differently -- duplicate union members, "
                                        "cache misses", st.lineno))
        # zip() stops at the shorter operand: an __eq__ that compares argument tuples pairwise must compare their lengths too
        for z in ast.walk(eq[1]):
            if isinstance(z, ast.Call) and norm(z.func) == "zip" and not any(k.arg == "strict" for k in z.keywords):
                has_len = any(isinstance(c, ast.Compare) and "len(" in norm(c) for c in ast.walk(eq[1]))
                if not has_len:
                    res.add(Finding("C15", "EQHASH.eq-zip-truncates", m.rel, f"{eq[0].name}.__eq__", norm(z)[:100],
                                    f"`{norm(z)[:60]}` pairs the arguments up to the shorter tuple and nothing compares the lengths: a normal "
                                    "form equals every one whose (sorted) arguments it is a prefix of -- Literal['a'] == Literal['a', 'b']",
                                    z.lineno))
        # __eq__ answers for its own family: first isinstance test names a class of the MRO (or type(self))
        tests = [c for c in ast.walk(eq[1]) if isinstance(c, ast.Call) and norm(c.func) == "isinstance" and len(c.args) == 2]
        if tests:
            first = norm(tests[0].args[1])
            fam = {c.name for c in repo.mro(ci)} | {"type(self)"}
            if first not in fam:
                res.add(Finding("C15", "EQHASH.foreign-family", m.rel, f"{ci.name}.__eq__", norm(tests[0]),
                                f"__eq__ of {ci.name} tests against `{first}`, which is not in its own class family",
                                eq[1].lineno))
    res.count("EQHASH.classes", n, 6)


def _expand_fields(repo: Repo, ci: ClassInfo, fields: Set[str]) -> Set[str]:
    """replace property names by the instance fields they read"""
    out: Set[str] = set()
    for f in fields:
        meth = repo.find_method(ci, f)
        if meth is not None and any(norm(d) == "property" for d in meth[1].decorator_list):
            # a property that reads nothing from self is a per-class constant (e.g. origin of union/literal types)
            out |= _self_fields(meth[1])
        else:
            out.add(f)
    return out


# ------------------------------------------------------------------------------------------ (4) union pipeline
def union_pipeline_rule(repo: Repo, m: ModuleInfo, res: CheckResult) -> None:
    ci = m.classes.get("TypeNormalizer")
    if ci is None or "_norm_union" not in ci.methods:
        raise AnalysisError("anchor vanished: TypeNormalizer._norm_union")
    fn = ci.methods["_norm_union"]
    stages = ["_norm_iter", "_unfold_union_args", "_dedup_union_args", "_merge_literals"]
    produced: Dict[str, str] = {}   # variable -> stage that produced it
    consumed: Dict[str, str] = {}   # stage -> stage of its input
    for node in walk_no_nested(fn, include_root=False):
        if isinstance(node, ast.Assign) and isinstance(node.value, ast.Call) and isinstance(node.value.func, ast.Attribute) \
                and node.value.func.attr in stages and isinstance(node.targets[0], ast.Name):
            st = node.value.func.attr
            produced[node.targets[0].id] = st
            if node.value.args and isinstance(node.value.args[0], ast.Name) and node.value.args[0].id in produced:
                consumed[st] = produced[node.value.args[0].id]
            elif node.value.args and isinstance(node.value.args[0], ast.Call) and isinstance(node.value.args[0].func, ast.Attribute):
                consumed[st] = node.value.args[0].func.attr
    res.evaluated("union-pipeline", True)
    want = {"_unfold_union_args": "_norm_iter", "_dedup_union_args": "_unfold_union_args",
            "_merge_literals": "_dedup_union_args"}
    res.sample({"union_pipeline": consumed})
    for st, src in want.items():
        if consumed.get(st) != src:
            res.add(Finding("C15", "UNION.pipeline-order", m.rel, "TypeNormalizer._norm_union",
                            f"{st} <- {consumed.get(st)}",
                            f"union normalisation must feed {src} into {st} (unfold, then dedup, then literal merge); "
                            f"found {consumed.get(st)}", fn.lineno))
    # single-argument collapse uses the merged list
    merged_var = next((v for v, st in produced.items() if st == "_merge_literals"), None)
    ok_collapse = False
    for node in walk_no_nested(fn, include_root=False):
        if isinstance(node, ast.If) and merged_var and f"len({merged_var}) == 1" in norm(node.test):
            if any(isinstance(s, ast.Return) for s in node.body):
                ok_collapse = True
    res.evaluated("union-collapse", True)
    if not ok_collapse:
        res.add(Finding("C15", "UNION.single-arg-collapse", m.rel, "TypeNormalizer._norm_union", "len(...) == 1",
                        "a union that normalises to one member must collapse to that member", fn.lineno))
    # final construction uses the merged args
    rets = [r for r in walk_no_nested(fn) if isinstance(r, ast.Return) and r.value is not None and "_UnionNormType" in norm(r.value)]
    if not rets or not all(merged_var and merged_var in norm(r.value) for r in rets):
        res.add(Finding("C15", "UNION.pipeline-order", m.rel, "TypeNormalizer._norm_union", "return _UnionNormType(...)",
                        "the union is not built from the merged arguments", fn.lineno))
    res.count("UNION.pipeline-links", len(consumed), 3)


# ------------------------------------------------------------------------------------------ (5) implicit parameters
def implicit_params_rule(repo: Repo, res: CheckResult) -> None:
    """Bare generics get: union of constraints | Any when there is no bound | the bound; forward references inside
    bounds/constraints are evaluated in the module of the TypeVar itself (as the normaliser does)."""
    m = repo.mod("type_tools/implicit_params")
    ci = m.classes.get("ImplicitParamsGetter")
    if ci is None or "_derive_default" not in ci.methods:
        raise AnalysisError("anchor vanished: ImplicitParamsGetter._derive_default")
    fn = ci.methods["_derive_default"]
    from ..paths import enumerate_paths
    tv = next((a.arg for a in fn.args.args[1:] if "var" in a.arg), fn.args.args[-1].arg)
    n = 0
    seen = {"constraints": False, "any": False, "bound": False}
    for path in enumerate_paths(fn.body):
        if path[-1][0] != "return":
            continue
        n += 1
        conds = [(norm(s[1]), s[2]) for s in path if s[0] == "test"]
        rv = norm(path[-1][1].value)
        res.evaluated(f"implicit:{' and '.join(('' if v else 'not ') + c for c, v in conds)}", True)
        if any(c == f"{tv}.__constraints__" and v for c, v in conds):
            seen["constraints"] = True
            if not (rv.startswith("create_union(") and f"{tv}.__constraints__" in rv):
                res.add(Finding("C15", "IMPLICIT.constraints", m.rel, "ImplicitParamsGetter._derive_default", rv[:120],
                                "a constrained TypeVar of a bare generic must become the union of all its constraints",
                                path[-1][1].lineno))
        elif any(c == f"{tv}.__bound__ is None" and v for c, v in conds):
            seen["any"] = True
            if rv not in ("Any", "typing.Any"):
                res.add(Finding("C15", "IMPLICIT.unbound-is-any", m.rel, "ImplicitParamsGetter._derive_default", rv[:120],
                                "an unbound TypeVar of a bare generic must become Any", path[-1][1].lineno))
        elif any(c == f"{tv}.__bound__ is None" and not v for c, v in conds):
            seen["bound"] = True
            if f"{tv}.__bound__" not in rv:
                res.add(Finding("C15", "IMPLICIT.bound", m.rel, "ImplicitParamsGetter._derive_default", rv[:120],
                                "a bound TypeVar of a bare generic must become its bound", path[-1][1].lineno))
    if not all(seen.values()):
        res.add(Finding("C15", "IMPLICIT.decision-table", m.rel, "ImplicitParamsGetter._derive_default",
                        ", ".join(k for k, v in seen.items() if not v),
                        "the decision table constraints / no bound / bound is incomplete", fn.lineno))
    # namespace of forward references: the TypeVar's own module
    for mod_short, cls_name in (("type_tools/implicit_params", "ImplicitParamsGetter"),):
        mm = repo.mod(mod_short)
        cc = mm.classes[cls_name]
        calls = [c for f in cc.methods.values() for c in ast.walk(f) if isinstance(c, ast.Call) and norm(c.func) == "eval_forward_ref"]
        for c in calls:
            n += 1
            res.evaluated(f"implicit:namespace:{norm(c)}", True)
            ns = c.args[0] if c.args else None
            # expand one level of local helper
            txt = norm(ns) if ns is not None else ""
            if isinstance(ns, ast.Call) and isinstance(ns.func, ast.Attribute) and ns.func.attr in cc.methods:
                txt = norm(cc.methods[ns.func.attr])
            mods = [norm(s.slice) for s in ast.walk(ast.parse(txt)) if isinstance(s, ast.Subscript) and norm(s.value) == "sys.modules"]
            extra = "getattr(" in txt or " or " in txt
            if len(mods) != 1 or not mods[0].endswith(".__module__") or "var" not in mods[0] or extra:
                res.add(Finding("C15", "IMPLICIT.forward-ref-namespace", mm.rel, f"{cls_name}.{mm.qualname(c).split('.')[-1]}",
                                txt[:160],
                                "forward references in TypeVar bounds/constraints must be evaluated in the module of the "
                                "TypeVar itself (the normaliser does the same): a generic class defined elsewhere would "
                                "resolve the name to an unrelated object or fail", c.lineno))
    nt = repo.mod(NT).classes["TypeNormalizer"].methods.get("_norm_type_var")
    if nt is None or "self._with_module_namespace(origin.__module__)" not in norm(nt):
        res.add(Finding("C15", "IMPLICIT.forward-ref-namespace", repo.mod(NT).rel, "TypeNormalizer._norm_type_var", "namespace",
                        "TypeVar limits must be normalised in the TypeVar's module namespace", nt.lineno if nt else 0))
    # bare builtin / abstract generics: the table that supplies their type variables must know every generic collection the
    # library loads and dumps (otherwise `Mapping` and `Mapping[Any, Any]` normalise differently)
    cm = repo.mod("type_tools/constants")
    tbl = None
    for st in cm.tree.body:
        if isinstance(st, (ast.Assign, ast.AnnAssign)) and norm(st.targets[0] if isinstance(st, ast.Assign) else st.target) == "BUILTIN_ORIGIN_TO_TYPEVARS":
            tbl = st.value
    if not isinstance(tbl, ast.Dict):
        raise AnalysisError("anchor vanished: BUILTIN_ORIGIN_TO_TYPEVARS")
    arity = {norm(k): len(v.elts) if isinstance(v, ast.Tuple) else -1 for k, v in zip(tbl.keys, tbl.values)}
    want = {"list": 1, "set": 1, "frozenset": 1, "dict": 2, "collections.abc.Iterable": 1, "collections.abc.Reversible": 1,
            "collections.abc.Collection": 1, "collections.abc.Sequence": 1, "collections.abc.MutableSequence": 1,
            "collections.abc.Set": 1, "collections.abc.MutableSet": 1, "collections.abc.Mapping": 2,
            "collections.abc.MutableMapping": 2,
            # every generic ABC of collections.abc (arity from the typing documentation, stable across 3.9 - 3.13)
            "collections.abc.Iterator": 1, "collections.abc.Container": 1, "collections.abc.KeysView": 1,
            "collections.abc.ValuesView": 1, "collections.abc.ItemsView": 2, "collections.abc.MappingView": 1,
            "collections.abc.Awaitable": 1, "collections.abc.Coroutine": 3, "collections.abc.AsyncIterable": 1,
            "collections.abc.AsyncIterator": 1, "collections.abc.AsyncGenerator": 2, "collections.abc.Generator": 3}
    for k, a in want.items():
        n += 1
        res.evaluated(f"implicit:builtin-table:{k}", True)
        if arity.get(k) != a:
            res.add(Finding("C15", "IMPLICIT.builtin-table", cm.rel, "BUILTIN_ORIGIN_TO_TYPEVARS", f"{k}: {arity.get(k)} type variables",
                            f"the bare generic `{k}` must receive {a} implicit parameter(s) (Any): with "
                            f"{arity.get(k, 'no entry')} in the table `{k.split('.')[-1]}` and `{k.split('.')[-1]}[{', '.join(['Any'] * a)}]` "
                            "normalise to unequal forms", tbl.lineno))
    res.count("IMPLICIT.obligations", n, 4)


def literal_truthiness_rule(repo: Repo, m: ModuleInfo, res: CheckResult) -> None:
    """The arguments of a Literal are user values: 0, False, '' and b'' are legitimate cases. Wherever the normaliser selects or
    drops Literal arguments, the selection must name the value it means (`is None`, an isinstance test); a truth test
    (`filter(None, args)`, `[a for a in args if a]`, `if arg:`) drops every falsy case together with None, so
    Literal[None, 0, 1] normalises to Union[None, Literal[1]] -- no longer equal to Optional[Literal[0, 1]]."""
    n = 0
    fns = [(m.qualname(f), f) for f in ast.walk(m.tree) if isinstance(f, ast.FunctionDef)]
    for q, fn in fns:
        if "literal" not in fn.name.lower():
            continue
        n += 1
        res.evaluated(f"literal-truthiness:{q}", True)
        bad = []
        for x in ast.walk(fn):
            if isinstance(x, ast.Call) and norm(x.func) == "filter" and x.args and isinstance(x.args[0], ast.Constant) and x.args[0].value is None:
                bad.append(x)
            if isinstance(x, ast.Call) and norm(x.func) == "filter" and x.args and norm(x.args[0]) == "bool":
                bad.append(x)
            if isinstance(x, (ast.ListComp, ast.SetComp, ast.GeneratorExp, ast.DictComp)):
                for g in x.generators:
                    tv = {t.id for t in ast.walk(g.target) if isinstance(t, ast.Name)}
                    for c in g.ifs:
                        core = c.operand if isinstance(c, ast.UnaryOp) and isinstance(c.op, ast.Not) else c
                        if isinstance(core, ast.Name) and core.id in tv:
                            bad.append(c)
            if isinstance(x, ast.For):
                tv = {t.id for t in ast.walk(x.target) if isinstance(t, ast.Name)}
                for c in [y for y in ast.walk(x) if isinstance(y, (ast.If, ast.IfExp))]:
                    core = c.test.operand if isinstance(c.test, ast.UnaryOp) and isinstance(c.test.op, ast.Not) else c.test
                    if isinstance(core, ast.Name) and core.id in tv:
                        bad.append(c.test)
        for b in bad:
            res.add(Finding("C15", "LITERAL.args-selected-by-truth", m.rel, q, norm(b)[:100],
                            f"`{norm(b)[:80]}` selects Literal arguments by their truth value: 0, False, '' and b'' are dropped together "
                            "with None, so Literal[None, 0, 1] loses the case 0 and stops being equal to Optional[Literal[0, 1]]",
                            getattr(b, "lineno", fn.lineno)))
    res.count("LITERAL.functions", n, 3)


def arguments_go_through_the_aspects(repo: Repo, m: ModuleInfo, res: CheckResult) -> None:
    """Every type argument is normalised by the same pipeline as a top-level hint (`self.normalize(arg)`): the aspects give bare
    `tuple` its implicit `(Any, ...)`, bare generics their implicit parameters, etc. A shortcut in the argument path that builds
    a norm type directly makes `list[tuple]` differ from `list[Tuple[Any, ...]]` (and equal to `list[tuple[()]]`)."""
    ci = m.classes.get("TypeNormalizer")
    if ci is None:
        raise AnalysisError("anchor vanished: TypeNormalizer")
    n = 0
    for mname in ("_norm_generic_arg", "_norm_iter", "normalize"):
        fn = ci.methods.get(mname)
        if fn is None:
            continue
        n += 1
        res.evaluated(f"args-through-aspects:{mname}", True)
        for c in [x for x in ast.walk(fn) if isinstance(x, ast.Call) and isinstance(x.func, ast.Name)]:
            if c.func.id.endswith("NormType") or c.func.id in ("make_norm_type",):
                res.add(Finding("C15", "NORM.argument-bypasses-aspects", m.rel, f"TypeNormalizer.{mname}", norm(c)[:100],
                                f"`{norm(c)[:80]}` builds a normalised type inside the dispatch path `{mname}` instead of delegating to the "
                                "aspects: a bare builtin generic met there (list[tuple]) gets no implicit arguments and its normal form "
                                "differs from the spelled-out one (list[Tuple[Any, ...]])", c.lineno))
    res.count("NORM.dispatch-methods", n, 2)


def parametrized_means_has_arguments(repo: Repo, res: CheckResult) -> None:
    """`is_parametrized` decides whether a hint used as a predicate is compared as an exact type or by origin, and whether a
    generic still needs implicit parameters. It is a question about the ARGUMENTS of the hint; answering it by the class of
    the alias object misses alias classes (`int | str` is a types.UnionType): the hint degrades to its origin."""
    mb = repo.mod("type_tools/basic_utils")
    fn = mb.functions.get("is_parametrized")
    if fn is None:
        raise AnalysisError("anchor vanished: is_parametrized")
    p0 = func_params(fn)[0]
    res.evaluated("parametrized:args-based", True)
    want = f"bool(get_generic_args({p0}))"
    rets = [r for r in walk_no_nested(fn) if isinstance(r, ast.Return) and r.value is not None]
    ok = False
    for r in rets:
        if m_parent_is_function(mb, r, fn):
            v = r.value
            tops = v.values if isinstance(v, ast.BoolOp) and isinstance(v.op, ast.Or) else [v]
            if any(norm(t) == want for t in tops):
                ok = True
    if not ok:
        res.add(Finding("C15", "PARAM.not-decided-by-arguments", mb.rel, "is_parametrized", "; ".join(norm(r) for r in rets)[:160],
                        f"no unconditional path answers with `{want}`: hints whose alias object is of a class the function does not list "
                        "(`int | str` -- types.UnionType) count as not parametrised, predicates written with them match by origin "
                        "(every Union) and their normal forms stop agreeing with the typing spelling", fn.lineno))


def m_parent_is_function(m: ModuleInfo, node: ast.AST, fn: ast.FunctionDef) -> bool:
    """the statement sits directly in the body of fn (not under a condition)"""
    return any(node is st for st in fn.body)
