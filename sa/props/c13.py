"""C13 — a generated converter equals the field-wise construction the linking rules fix (clauses: DESIGN.md 3/C13)."""
from __future__ import annotations

import ast
from typing import Dict, List, Optional, Set, Tuple

from ..core import AnalysisError, CheckResult, ClassInfo, Finding, ModuleInfo, Repo, func_params, norm, walk_no_nested

LEVEL = "other"
EXHAUSTIVE = True
EXPLANATION = (
    "(1) Source search order: DefaultLinkingProvider consults the extra parameters only for top-level destinations "
    "(len(destination) == 2), right to left, before the source fields, and returns the first same-named source; "
    "MatchingLinkingProvider checks the destination first and searches fields then parameters (right to left) at any depth; "
    "link_constant/link_function answer exactly when the destination predicate matches; function parameters are fed from "
    "model fields (keyword-only), the model itself (first positional) and extra parameters (other positionals). "
    "(2) Plan construction: one linking request per destination field over ALL source fields; a FieldLinking becomes "
    "coercer(<data accessor or ctx element>, ctx) with the user coercer preferred; constants become ConstantElement / "
    "per-call factory calls; sub-plans are paired with their fields in order; lists consumed twice are lists. "
    "(3) Context tuple: the converter template passes None / the single parameter / the tuple of extra parameters and the "
    "plan reads ctx / ctx[index] by the same case split. (4) Tier G translation validation: every enumerated broaching "
    "plan (parameters, constants, accessors, coercer calls, constructor calls with positional/keyword/unpacked "
    "arguments, colliding function names) is rendered to an expression that is the plan's image, and the converter "
    "template keeps names, kinds and defaults of the requested signature, applies update_wrapper exactly for stubs and "
    "exposes the signature. (5) Whole pipeline: for enumerated (source model, destination model, nested model, extra "
    "parameters, conversion recipe) configurations the converter compilation is driven through the real retort with a "
    "CodeGenAccumulator, and each emitted model coercer must build the destination field-wise from exactly the sources "
    "an independent oracle derives from the documented linking rules (first matching link/link_constant/link_function "
    "in recipe order; fields before parameters for explicit links; same-named parameter, rightmost first, before the "
    "same-named field for top-level defaults only; from_param at any level; unlinked required or forbidden optional "
    "fields refuse the converter). Emitted text is audited; no converter is ever called. Linked user functions that do "
    "return when called (counter / container factories with a call recorder) must not be run by the code generator."
)
RULE = "one evaluation = one search-order component / one plan-construction obligation / one emitted program"
ASSUMPTIONS = ["which provider answers a LinkingRequest is recipe resolution (C09); predicate meaning is C10",
               "coercion of the values themselves (nested models, Optional, iterables, dicts) is C14 and the coercers' own code",
               "accessor-of-accessor plans are not produced by the builtin planners and are not enumerated"]

LP = "conversion/linking_provider"
MC = "conversion/model_coercer_provider"
CV = "conversion/converter_provider"


def _cls(m: ModuleInfo, name: str) -> ClassInfo:
    ci = m.classes.get(name)
    if ci is None:
        raise AnalysisError(f"anchor vanished: {m.rel}:{name}")
    return ci


def _meth(ci: ClassInfo, name: str) -> ast.FunctionDef:
    fn = ci.methods.get(name)
    if fn is None:
        raise AnalysisError(f"anchor vanished: {ci.module.rel}:{ci.name}.{name}")
    return fn


# clauses the emitted text cannot show (the body of a lambda that wraps the user's coercer): always reported from tier S
S_ONLY_RULES = {"LINK.matching-coercer"}


def run(repo: Repo, tier: str, res: CheckResult, seed: int = 0) -> None:
    """Tier G (emitted converters against an independent oracle) decides; the tier-S shape rules over the linking and
    planning functions localise a disagreement.  A shape rule that does not recognise a rewritten function while every
    emitted converter still agrees with the oracle is recorded as a note, not as a violation: the behaviour it guards is
    observed directly."""
    sub = CheckResult("C13")
    shape_problems: List[str] = []
    for rule_fn in (default_linking, matching_linking, constant_and_function_linking, plan_construction, context_passing):
        try:
            rule_fn(repo, sub)
        except AnalysisError as e:
            if "anchor vanished" in str(e):
                raise
            shape_problems.append(f"{rule_fn.__name__}: {e}")
    res.evaluations += sub.evaluations
    res.nontrivial |= sub.nontrivial
    res.samples += sub.samples
    from .. import genprog
    genprog.c13_checks(repo, tier, res, seed)
    genprog.c13_pipeline_checks(repo, tier, res, seed)
    # the facade cache must not hide the recipe: get_converter(src, dst, recipe=...) answers from the retort the recipe was
    # added to (shared rule with C11: lookup key == insert key, value produced and cached by the same retort)
    from .c11 import facade_caches
    fc = CheckResult("C11")
    facade_caches(repo, fc)
    res.evaluated("facade:converter-cache", True)
    for f in fc.findings:
        if "conversion/" in f.file:
            res.add(Finding("C13", "FACADE.converter-cache-ignores-recipe", f.file, f.qualname, f.construct,
                            "the converter cache is not owned by the retort that carries the per-call recipe: a later "
                            "get_converter/convert for the same (src, dst, name) with another recipe receives the converter "
                            "built for the first recipe, so its links/constants/coercers are silently ignored ("
                            + f.message[:160] + ")", f.line))
    _shared_cache_rule(repo, res)
    coercer_data_truthiness(repo, res)
    # memos of the planning stage (the hidden-memo family of C11 over conversion/): a coercer remembered per TYPE pair serves
    # fields whose location-bound recipe entries differ
    from .. import memo
    memo.check(repo, res, "C13", only=("/conversion/",), floors=False)
    corroborated = bool(res.findings)
    for f in sub.findings:
        if corroborated or f.rule in S_ONLY_RULES:
            res.add(f)
        else:
            res.notes.append(f"shape deviation not corroborated by the emitted converters (not a violation): {f.rule} at "
                             f"{f.file}:{f.qualname}: {f.construct[:100]}")
    for sp in shape_problems:
        res.notes.append(f"shape rule could not interpret a rewritten function (emitted converters "
                         f"{'disagree' if corroborated else 'agree'} with the oracle): {sp[:200]}")
    res.coverage["shape_rules_uncorroborated"] = len([1 for f in sub.findings if not corroborated and f.rule not in S_ONLY_RULES]) \
        + len(shape_problems)
    res.assumptions = list(ASSUMPTIONS)


# ------------------------------------------------------------------------------------------ (1) search order
def _yield_froms(fn: ast.FunctionDef) -> List[Tuple[ast.expr, Optional[ast.If]]]:
    out = []
    parents: Dict[int, ast.AST] = {}
    for p in ast.walk(fn):
        for c in ast.iter_child_nodes(p):
            parents[id(c)] = p
    for n in sorted([x for x in ast.walk(fn) if isinstance(x, ast.YieldFrom)], key=lambda x: (x.lineno, x.col_offset)):
        g = None
        p = parents.get(id(n))
        while p is not None and p is not fn:
            if isinstance(p, ast.If):
                g = p
                break
            p = parents.get(id(p))
        out.append((n.value, g))
    return out


def _is_reversed_ctx(e: ast.expr, req: str) -> Optional[bool]:
    """True: reversed(request.context.loc_stacks); False: the stacks unreversed; None: something else"""
    if isinstance(e, ast.Call) and norm(e.func) == "reversed" and len(e.args) == 1 and norm(e.args[0]) == f"{req}.context.loc_stacks":
        return True
    if isinstance(e, ast.Subscript) and norm(e.value) == f"{req}.context.loc_stacks" and norm(e.slice) == "::-1":
        return True
    if norm(e) == f"{req}.context.loc_stacks":
        return False
    return None


def default_linking(repo: Repo, res: CheckResult) -> None:
    m = repo.mod(LP)
    ci = _cls(m, "DefaultLinkingProvider")
    it = _meth(ci, "_iterate_sources")
    req = func_params(it)[1]
    qual = "DefaultLinkingProvider._iterate_sources"
    yfs = _yield_froms(it)
    res.evaluated("default:order", True)
    if len(yfs) != 2:
        raise AnalysisError(f"{qual}: expected two `yield from`, found {len(yfs)}")
    (first, g1), (second, g2) = yfs
    rc = _is_reversed_ctx(first, req)
    if rc is None or norm(second) != f"{req}.sources":
        if _is_reversed_ctx(second, req) is not None and norm(first) == f"{req}.sources":
            res.add(Finding("C13", "LINK.default-order", m.rel, qual, f"{norm(first)} before {norm(second)}",
                            "for top-level fields a same-named extra parameter must win over the source field: parameters "
                            "have to be yielded before the source fields", it.lineno))
        else:
            raise AnalysisError(f"{qual}: cannot classify `{norm(first)}` / `{norm(second)}`")
    elif rc is False:
        res.add(Finding("C13", "LINK.param-direction", m.rel, qual, norm(first),
                        "extra parameters must be searched right to left (rightmost first)", it.lineno))
    res.evaluated("default:top-level-only", True)
    ctx_y, ctx_g = (first, g1) if rc is not None else (second, g2)
    if ctx_g is None:
        res.add(Finding("C13", "LINK.default-depth", m.rel, qual, "parameters yielded unconditionally",
                        "the default linking may use extra parameters for top-level destination fields only (nested fields "
                        "need an explicit from_param)", it.lineno))
    else:
        t = ctx_g.test
        ok = isinstance(t, ast.Compare) and len(t.ops) == 1 and isinstance(t.ops[0], ast.Eq) and \
            {norm(t.left), norm(t.comparators[0])} == {f"len({req}.destination)", "2"}
        if not ok:
            res.add(Finding("C13", "LINK.default-depth", m.rel, qual, norm(t),
                            "top level means a destination stack of exactly two locations (converter result, field): "
                            f"`len({req}.destination) == 2`", ctx_g.lineno))
    other_g = g2 if ctx_g is g1 else g1
    if other_g is not None and other_g is ctx_g:
        res.add(Finding("C13", "LINK.default-order", m.rel, qual, "source fields under the top-level guard",
                        "source fields must be searched for every destination", it.lineno))
    # _provide_linking: first source whose field id equals the destination's
    pl = _meth(ci, "_provide_linking")
    req2 = func_params(pl)[2]
    res.evaluated("default:first-same-name", True)
    loops = [n for n in pl.body if isinstance(n, ast.For)]
    ok = False
    if len(loops) == 1 and norm(loops[0].iter) == f"self._iterate_sources({req2})" and isinstance(loops[0].target, ast.Name):
        src = loops[0].target.id
        ifs = [s for s in loops[0].body if isinstance(s, ast.If)]
        if len(ifs) == 1 and isinstance(ifs[0].test, ast.Compare) and isinstance(ifs[0].test.ops[0], ast.Eq):
            sides = {norm(ifs[0].test.left), norm(ifs[0].test.comparators[0])}
            tvars = {norm(a.targets[0]) for a in pl.body if isinstance(a, ast.Assign)
                     and norm(a.value) == f"{req2}.destination.last.cast(FieldLoc).field_id"}
            same = any(s == f"{src}.last.cast(FieldLoc).field_id" for s in sides) and bool(sides & (tvars | {f"{req2}.destination.last.cast(FieldLoc).field_id"}))
            rets = [r for r in ifs[0].body if isinstance(r, ast.Return)]
            built = len(rets) == 1 and norm(rets[0].value).replace(" ", "") == f"LinkingResult(linking=FieldLinking(source={src},coercer=None))"
            ok = same and built and not loops[0].orelse
    if not ok:
        res.add(Finding("C13", "LINK.default-match", m.rel, "DefaultLinkingProvider._provide_linking", norm(pl)[:200],
                        "the default linking is the FIRST iterated source whose field id equals the destination field id, "
                        "linked without a user coercer", pl.lineno))
    tail = pl.body[-1]
    if not (isinstance(tail, ast.Raise) and "CannotProvide" in norm(tail)):
        res.add(Finding("C13", "LINK.default-match", m.rel, "DefaultLinkingProvider._provide_linking", norm(tail),
                        "without a same-named source the provider must decline (CannotProvide)", tail.lineno))


def matching_linking(repo: Repo, res: CheckResult) -> None:
    m = repo.mod(LP)
    ci = _cls(m, "MatchingLinkingProvider")
    pl = _meth(ci, "_provide_linking")
    ps = func_params(pl)
    med, req = ps[1], ps[2]
    qual = "MatchingLinkingProvider._provide_linking"
    res.evaluated("matching:destination-first", True)
    first = pl.body[0]
    ok = isinstance(first, ast.If) and norm(first.test) == f"not self._dst_lsc.check_loc_stack({med}, {req}.destination)" \
        and any(isinstance(r, ast.Raise) and "CannotProvide" in norm(r) for r in first.body)
    if not ok:
        res.add(Finding("C13", "LINK.matching-destination", m.rel, qual, norm(first)[:120],
                        "link(src, dst) applies only to destinations matched by dst", pl.lineno))
    loops = [n for n in pl.body if isinstance(n, ast.For)]
    res.evaluated("matching:order", True)
    if len(loops) != 1:
        raise AnalysisError(f"{qual}: expected one search loop")
    it = loops[0].iter
    parts: List[ast.expr] = []
    if isinstance(it, ast.Call) and norm(it.func) in ("itertools.chain", "chain"):
        parts = list(it.args)
    elif isinstance(it, ast.BinOp) and isinstance(it.op, ast.Add):
        parts = [it.left, it.right]
    elif isinstance(it, (ast.Tuple, ast.List)) and all(isinstance(e, ast.Starred) for e in it.elts):
        parts = [e.value for e in it.elts]
    else:
        parts = [it]
    kinds = []
    for p in parts:
        if norm(p) in (f"{req}.sources", f"tuple({req}.sources)", f"list({req}.sources)"):
            kinds.append("fields")
        else:
            inner = p.args[0] if isinstance(p, ast.Call) and norm(p.func) in ("tuple", "list") and p.args else p
            rc = _is_reversed_ctx(inner, req)
            kinds.append({True: "params-rtl", False: "params-ltr", None: "?"}[rc])
    if "?" in kinds:
        raise AnalysisError(f"{qual}: cannot classify the searched sources `{norm(it)}`")
    if "params-ltr" in kinds:
        res.add(Finding("C13", "LINK.param-direction", m.rel, qual, norm(it),
                        "extra parameters must be searched right to left (rightmost first)", loops[0].lineno))
    if "fields" not in kinds or not any(k.startswith("params") for k in kinds):
        res.add(Finding("C13", "LINK.matching-sources", m.rel, qual, norm(it),
                        "an explicit link may name a source field or (from_param) an extra parameter, at any nesting level: "
                        "both have to be searched", loops[0].lineno))
    # no depth guard around the loop (from_param reaches any level)
    guards = [g for g in pl.body if isinstance(g, ast.If) and "len(" in norm(g.test) and "destination" in norm(g.test)]
    if guards:
        res.add(Finding("C13", "LINK.matching-depth", m.rel, qual, norm(guards[0].test),
                        "explicit links (from_param) must reach destination fields of any level", guards[0].lineno))
    # first match, with the user's coercer
    res.evaluated("matching:first-match", True)
    src = norm(loops[0].target)
    ifs = [s for s in loops[0].body if isinstance(s, ast.If)]
    ok = len(ifs) == 1 and norm(ifs[0].test) == f"self._src_lsc.check_loc_stack({med}, {src})" and any(
        isinstance(r, ast.Return) and norm(r.value).replace(" ", "") ==
        f"LinkingResult(linking=FieldLinking(source={src},coercer=self._get_coercer()))" for r in ifs[0].body)
    if not ok:
        res.add(Finding("C13", "LINK.matching-first", m.rel, qual, norm(loops[0])[:160],
                        "the link is the first searched source matched by the src predicate, with the coercer given to link()",
                        loops[0].lineno))
    gc = _meth(ci, "_get_coercer")
    res.evaluated("matching:coercer", True)
    lam = [x for x in ast.walk(gc) if isinstance(x, ast.Lambda)]
    ok = len(lam) == 1 and len(lam[0].args.args) == 2 and isinstance(lam[0].body, ast.Call) and \
        [norm(a) for a in lam[0].body.args] == [lam[0].args.args[0].arg]
    if not ok:
        res.add(Finding("C13", "LINK.matching-coercer", m.rel, "MatchingLinkingProvider._get_coercer", norm(gc)[:160],
                        "the one-argument user coercer must be applied to the source value (first argument), ignoring the "
                        "context", gc.lineno))


def constant_and_function_linking(repo: Repo, res: CheckResult) -> None:
    m = repo.mod(LP)
    ci = _cls(m, "ConstantLinkingProvider")
    pl = _meth(ci, "_provide_linking")
    ps = func_params(pl)
    res.evaluated("constant:predicate", True)
    ifs = [s for s in pl.body if isinstance(s, ast.If)]
    ok = len(ifs) == 1 and norm(ifs[0].test) == f"self._dst_lsc.check_loc_stack({ps[1]}, {ps[2]}.destination)" and any(
        isinstance(r, ast.Return) and norm(r.value).replace(" ", "") == "LinkingResult(linking=ConstantLinking(self._default))"
        for r in ifs[0].body) and isinstance(pl.body[-1], ast.Raise)
    if not ok:
        res.add(Finding("C13", "LINK.constant", m.rel, "ConstantLinkingProvider._provide_linking", norm(pl)[:160],
                        "link_constant answers exactly the destinations matched by its predicate with its constant", pl.lineno))
    ci = _cls(m, "FunctionLinkingProvider")
    gl = _meth(ci, "_get_linking")
    res.evaluated("function:parameter-sources", True)
    # KW_ONLY -> name_to_field_source[param.name]; idx == 0 -> ModelLinking; else -> name_to_context_source[param.name]
    top = [s for s in gl.body if isinstance(s, ast.If)]
    ok = False
    if top and norm(top[0].test) == "param.kind == ParamKind.KW_ONLY":
        kw_src = [norm(a.value) for a in ast.walk(ast.Module(body=top[0].body, type_ignores=[])) if isinstance(a, ast.Assign)]
        els = ast.Module(body=top[0].orelse, type_ignores=[])
        model = any(isinstance(i, ast.If) and norm(i.test) == "idx == 0" and any(
            isinstance(r, ast.Return) and "ModelLinking()" in norm(r.value) for r in i.body) for i in ast.walk(els))
        ctx_src = [norm(a.value) for a in ast.walk(els) if isinstance(a, ast.Assign)]
        ok = kw_src == ["name_to_field_source[param.name]"] and model and ctx_src == ["name_to_context_source[param.name]"]
    if not ok:
        res.add(Finding("C13", "LINK.function-params", m.rel, "FunctionLinkingProvider._get_linking", norm(gl)[:200],
                        "link_function feeds keyword-only parameters from same-named model fields, the first positional "
                        "parameter from the model itself and the other positional parameters from same-named converter "
                        "parameters", gl.lineno))
    cps = _meth(ci, "_create_param_specs")
    res.evaluated("function:tables", True)
    dcs = {}
    for a in ast.walk(cps):
        if isinstance(a, ast.Assign) and isinstance(a.value, ast.DictComp) and isinstance(a.targets[0], ast.Name):
            dcs[a.targets[0].id] = a.value
    ok = set(dcs) >= {"name_to_field_source", "name_to_context_source"}
    if ok:
        f, c = dcs["name_to_field_source"], dcs["name_to_context_source"]
        ok = norm(f.generators[0].iter) == "request.sources" and norm(c.generators[0].iter) == "request.context.loc_stacks" \
            and norm(f.value) == norm(f.generators[0].target) and norm(c.value) == norm(c.generators[0].target) \
            and "field_id" in norm(f.key) and "field_id" in norm(c.key) and not f.generators[0].ifs and not c.generators[0].ifs
    if not ok:
        res.add(Finding("C13", "LINK.function-tables", m.rel, "FunctionLinkingProvider._create_param_specs",
                        "; ".join(f"{k} = {norm(v)[:80]}" for k, v in dcs.items()),
                        "the name tables must map field ids of all source fields / all converter parameters to their own "
                        "location stacks", cps.lineno))
    pl = _meth(ci, "_provide_linking")
    ps = func_params(pl)
    res.evaluated("function:predicate", True)
    first = pl.body[0]
    if not (isinstance(first, ast.If) and norm(first.test) == f"not self._dst_lsc.check_loc_stack({ps[1]}, {ps[2]}.destination)"
            and any(isinstance(r, ast.Raise) for r in first.body)):
        res.add(Finding("C13", "LINK.function-predicate", m.rel, "FunctionLinkingProvider._provide_linking", norm(first)[:120],
                        "link_function applies only to destinations matched by its predicate", pl.lineno))


# ------------------------------------------------------------------------------------------ (2) plan construction
def plan_construction(repo: Repo, res: CheckResult) -> None:
    m = repo.mod(MC)
    ci = _cls(m, "ModelCoercerProvider")
    # _fetch_linkings: sources = all source fields, one request per destination field
    fl = _meth(ci, "_fetch_linkings")
    res.evaluated("plan:sources-all-fields", True)
    src_assign = [a for a in fl.body if isinstance(a, ast.Assign) and norm(a.targets[0]) == "sources"]
    ok = False
    if len(src_assign) == 1 and isinstance(src_assign[0].value, ast.Call) and norm(src_assign[0].value.func) == "tuple":
        g = src_assign[0].value.args[0]
        if isinstance(g, (ast.GeneratorExp, ast.ListComp)) and len(g.generators) == 1 and not g.generators[0].ifs \
                and norm(g.generators[0].iter) == "src_shape.fields":
            v = norm(g.generators[0].target)
            ok = norm(g.elt) == f"request.src.append_with(output_field_to_loc({v}))"
    if not ok:
        res.add(Finding("C13", "PLAN.sources", m.rel, "ModelCoercerProvider._fetch_linkings", norm(src_assign[0])[:160] if src_assign else "?",
                        "every field of the source model, in order and unfiltered, is offered to the linking providers",
                        fl.lineno))
    res.evaluated("plan:request-per-destination-field", True)
    ret = fl.body[-1]
    ok = isinstance(ret, ast.Return) and isinstance(ret.value, ast.Call) and norm(ret.value.func) == "mandatory_apply_by_iterable" \
        and len(ret.value.args) >= 2 and norm(ret.value.args[0]) == "fetch_field_linking" and norm(ret.value.args[1]) == "zip(dst_shape.fields)"
    if not ok:
        res.add(Finding("C13", "PLAN.destinations", m.rel, "ModelCoercerProvider._fetch_linkings", norm(ret)[:160],
                        "one linking is requested for every field of the destination shape", fl.lineno))
    inner = next((d for d in fl.body if isinstance(d, ast.FunctionDef) and d.name == "fetch_field_linking"), None)
    if inner is None:
        raise AnalysisError("anchor vanished: fetch_field_linking")
    reqs = [c for c in ast.walk(inner) if isinstance(c, ast.Call) and norm(c.func) == "LinkingRequest"]
    ok = len(reqs) == 1 and {k.arg: norm(k.value) for k in reqs[0].keywords} == {
        "sources": "sources", "context": "request.ctx", "destination": "destination"}
    dst_assign = [a for a in inner.body if isinstance(a, ast.Assign) and norm(a.targets[0]) == "destination"]
    ok = ok and len(dst_assign) == 1 and norm(dst_assign[0].value) == f"request.dst.append_with(input_field_to_loc({func_params(inner)[0]}))"
    if not ok:
        res.add(Finding("C13", "PLAN.linking-request", m.rel, "ModelCoercerProvider._fetch_linkings.fetch_field_linking",
                        norm(reqs[0])[:160] if reqs else "?",
                        "the request carries all sources, the converter's context and the destination field appended to the "
                        "destination stack", inner.lineno))
    # field linking -> coercer(data-arg, ctx), user coercer first
    gf = _meth(ci, "_generate_field_linking_to_sub_plan")
    res.evaluated("plan:field-linking", True)
    top = gf.body[0]
    # (two-armed conditionals arrive in positive polarity, core._canonical_polarity: the user's coercer is used in the arm where
    # `linking.coercer is None` does NOT hold)
    pref = isinstance(top, ast.If) and (
        (norm(top.test) == "linking.coercer is None" and any(isinstance(a, ast.Assign) and norm(a.value) == "linking.coercer" for a in top.orelse))
        or (norm(top.test) == "linking.coercer is not None" and any(isinstance(a, ast.Assign) and norm(a.value) == "linking.coercer" for a in top.body)))
    creq = [c for c in ast.walk(gf) if isinstance(c, ast.Call) and norm(c.func) == "CoercerRequest"]
    kws = {k.arg: norm(k.value) for k in creq[0].keywords} if len(creq) == 1 else {}
    req_ok = kws == {"src": "linking.source", "ctx": "request.ctx", "dst": "request.dst.append_with(loc)"}
    fe = [c for c in ast.walk(gf) if isinstance(c, ast.Call) and norm(c.func).startswith("FunctionElement")]
    fe_ok = False
    if len(fe) == 1:
        k = {x.arg: x.value for x in fe[0].keywords}
        fe_ok = norm(k.get("func", ast.Constant(None))) == "coercer" and isinstance(k.get("args"), ast.Tuple) and \
            [norm(a) for a in k["args"].elts] == ["PositionalArg(self._get_field_coercer_data_arg(mediator, request, linking))",
                                                 "PositionalArg(ParameterElement('ctx'))"]
    if not (pref and req_ok and fe_ok):
        res.add(Finding("C13", "PLAN.field-linking", m.rel, "ModelCoercerProvider._generate_field_linking_to_sub_plan",
                        f"prefers-user-coercer={pref} request={kws} call={norm(fe[0])[:100] if fe else None}",
                        "a linked field becomes coercer(<source value>, ctx): the coercer given to link() if any, otherwise the "
                        "coercer provided for (source location -> destination field) under the same context", gf.lineno))
    # constant linking
    gc = _meth(ci, "_generate_constant_linking_to_sub_plan")
    res.evaluated("plan:constant-linking", True)
    rets = [norm(r.value).replace(" ", "") for r in walk_no_nested(gc) if isinstance(r, ast.Return)]
    if rets != ["ConstantElement(value=linking.constant.value)", "FunctionElement(func=linking.constant.factory,args=())"]:
        res.add(Finding("C13", "PLAN.constant-linking", m.rel, "ModelCoercerProvider._generate_constant_linking_to_sub_plan",
                        "; ".join(rets), "link_constant(value=) is the value itself, link_constant(factory=) a call of the "
                        "factory in the converter body (a new object per conversion)", gc.lineno))
    gm = _meth(ci, "_generate_model_linking_to_sub_plan")
    res.evaluated("plan:model-linking", True)
    rets = [norm(r.value) for r in walk_no_nested(gm) if isinstance(r, ast.Return)]
    if rets != ["ParameterElement('data')"]:
        res.add(Finding("C13", "PLAN.model-linking", m.rel, "ModelCoercerProvider._generate_model_linking_to_sub_plan",
                        "; ".join(rets), "the first positional parameter of a linked function receives the source model", gm.lineno))
    # function linking args
    gfl = _meth(ci, "_generate_function_linking_to_sub_plan")
    res.evaluated("plan:function-args", True)
    loops = [l for l in gfl.body if isinstance(l, ast.For)]
    ok = False
    if len(loops) == 1 and norm(loops[0].iter) == "linking.param_specs":
        v = norm(loops[0].target)
        txt = norm(loops[0]).replace(" ", "")
        ok = f"sub_plan=field_to_sub_plan[{v}.field]" in txt and f"if{v}.param_kind==ParamKind.KW_ONLY:" in txt \
            and f"args.append(KeywordArg({v}.field.id,sub_plan))" in txt and "args.append(PositionalArg(sub_plan))" in txt
    fe = [c for c in ast.walk(gfl) if isinstance(c, ast.Call) and norm(c.func) == "FunctionElement"]
    ok = ok and len(fe) == 1 and {k.arg: norm(k.value) for k in fe[0].keywords} == {"func": "linking.func", "args": "tuple(args)"}
    if not ok:
        res.add(Finding("C13", "PLAN.function-args", m.rel, "ModelCoercerProvider._generate_function_linking_to_sub_plan",
                        norm(loops[0])[:200] if loops else "?",
                        "the linked function is called with one argument per parameter in parameter order: keyword-only "
                        "parameters by name, the others positionally", gfl.lineno))
    # pairing of sub plans with fields, re-iterable inputs
    gs = _meth(ci, "_generate_sub_plan")
    res.evaluated("plan:pairing", True)
    ret = gs.body[-1]
    ok = isinstance(ret, ast.Return) and isinstance(ret.value, ast.DictComp) and len(ret.value.generators) == 1 \
        and norm(ret.value.generators[0].iter) == "zip(field_linkings, field_sub_plans)"
    if ok:
        tg = ret.value.generators[0].target
        ok = isinstance(tg, ast.Tuple) and isinstance(tg.elts[0], ast.Tuple) and norm(ret.value.key) == norm(tg.elts[0].elts[0]) \
            and norm(ret.value.value) == norm(tg.elts[1])
    applied = [c for c in ast.walk(gs) if isinstance(c, ast.Call) and norm(c.func) == "mandatory_apply_by_iterable"]
    ok = ok and len(applied) == 1 and norm(applied[0].args[1]) == "field_linkings" and norm(applied[0].args[0]) == "generate_sub_plan"
    if not ok:
        res.add(Finding("C13", "PLAN.pairing", m.rel, "ModelCoercerProvider._generate_sub_plan", norm(ret)[:160],
                        "the i-th generated sub-plan belongs to the i-th (field, linking) pair", gs.lineno))
    res.evaluated("plan:dispatch", True)
    disp = next((d for d in gs.body if isinstance(d, ast.FunctionDef)), None)
    want = {"ConstantLinking": "_generate_constant_linking_to_sub_plan", "FunctionLinking": "_generate_function_linking_to_sub_plan",
            "ModelLinking": "_generate_model_linking_to_sub_plan", "FieldLinking": "_generate_field_linking_to_sub_plan"}
    got = {}
    if disp is not None:
        for i in disp.body:
            if isinstance(i, ast.If) and isinstance(i.test, ast.Call) and norm(i.test.func) == "isinstance":
                cls_ = norm(i.test.args[1])
                calls = [c.func.attr for r in i.body if isinstance(r, ast.Return) for c in ast.walk(r)
                         if isinstance(c, ast.Call) and isinstance(c.func, ast.Attribute) and c.func.attr.startswith("_generate_")]
                got[cls_] = calls[0] if calls else None
    if got != want:
        res.add(Finding("C13", "PLAN.dispatch", m.rel, "ModelCoercerProvider._generate_sub_plan.generate_sub_plan", str(got),
                        "every linking kind must be planned by its own generator", gs.lineno))
    # re-iterable arguments: field_linkings is consumed by the generator loop and by zip
    res.evaluated("plan:reiterable", True)
    for fn in ci.methods.values():
        for c in ast.walk(fn):
            if isinstance(c, ast.Call) and norm(c.func) == "self._generate_sub_plan":
                arg = next((k.value for k in c.keywords if k.arg == "field_linkings"), c.args[2] if len(c.args) > 2 else None)
                if not isinstance(arg, (ast.List, ast.ListComp, ast.Tuple)) and not (
                        isinstance(arg, ast.Call) and norm(arg.func) in ("list", "tuple")):
                    res.add(Finding("C13", "PLAN.one-shot-linkings", m.rel, f"ModelCoercerProvider.{fn.name}",
                                    norm(arg)[:100] if arg is not None else "?",
                                    "field_linkings is iterated twice (planning, pairing): a generator leaves the pairing empty "
                                    "and every field unlinked", c.lineno))
    essential = repo.mod("provider/essential")
    ma = essential.functions.get("mandatory_apply_by_iterable")
    if ma is None:
        raise AnalysisError("anchor vanished: mandatory_apply_by_iterable")
    rets = [r for r in walk_no_nested(ma) if isinstance(r, ast.Return) and r.value is not None]
    lists = {norm(a.targets[0]) for a in ma.body if isinstance(a, ast.Assign) and isinstance(a.value, ast.List)}
    if not rets or any(norm(r.value) not in lists for r in rets) or any(isinstance(x, (ast.Yield, ast.YieldFrom)) for x in ast.walk(ma)):
        res.add(Finding("C13", "PLAN.one-shot-linkings", essential.rel, "mandatory_apply_by_iterable", norm(rets[0]) if rets else "?",
                        "callers iterate the result more than once (dict(field_linkings) after the planning loop): it must be "
                        "a list", ma.lineno))
    # _make_broaching_plan: unlinked (None) filtered only for planning, constructor call sees all
    mb = _meth(ci, "_make_broaching_plan")
    res.evaluated("plan:constructor-call-inputs", True)
    mk = [c for c in ast.walk(mb) if isinstance(c, ast.Call) and norm(c.func) == "self._make_constructor_call"]
    ok = len(mk) == 1 and {k.arg: norm(k.value) for k in mk[0].keywords} == {
        "dst_shape": "dst_shape", "field_to_linking": "dict(field_linkings)", "field_to_sub_plan": "field_to_sub_plan"}
    if not ok:
        res.add(Finding("C13", "PLAN.constructor-inputs", m.rel, "ModelCoercerProvider._make_broaching_plan",
                        norm(mk[0])[:160] if mk else "?", "the constructor call is assembled from the destination shape, all "
                        "linkings (None = skipped optional field) and the planned sub-plans", mb.lineno))


# ------------------------------------------------------------------------------------------ (3) context passing
def context_passing(repo: Repo, res: CheckResult) -> None:
    m = repo.mod(MC)
    ci = _cls(m, "ModelCoercerProvider")
    fn = _meth(ci, "_get_field_coercer_data_arg")
    res.evaluated("ctx:reader", True)
    top = fn.body[0]
    ok = isinstance(top, ast.If) and norm(top.test) == "linking.source in request.ctx.loc_stacks"
    single = idx = False
    if ok:
        for s in top.body:
            if isinstance(s, ast.If) and norm(s.test) == "len(request.ctx.params) == 1":
                single = any(isinstance(r, ast.Return) and norm(r.value) == "ParameterElement('ctx')" for r in s.body)
        for r in top.body:
            if isinstance(r, ast.Return) and isinstance(r.value, ast.Call) and norm(r.value.func) == "AccessorElement":
                txt = norm(r.value).replace(" ", "")
                idx = "ParameterElement('ctx')" in txt and "key=request.ctx.loc_stacks.index(linking.source)" in txt
    last = fn.body[-1]
    data_ok = isinstance(last, ast.Return) and norm(last.value).replace(" ", "") == \
        "AccessorElement(ParameterElement('data'),linking.source.last.cast(OutputFieldLoc).accessor)"
    if not (ok and single and idx and data_ok):
        res.add(Finding("C13", "CTX.reader", m.rel, "ModelCoercerProvider._get_field_coercer_data_arg", norm(fn)[:240],
                        "a source that is a converter parameter is read from ctx (the value itself when there is exactly one "
                        "extra parameter, ctx[its index] otherwise); a source field is read from data through its accessor",
                        fn.lineno))
    m2 = repo.mod(CV)
    ci2 = _cls(m2, "BuiltinConverterProvider")
    gp = _meth(ci2, "_get_ctx_passing")
    p = func_params(gp)[1]
    res.evaluated("ctx:writer", True)
    cases = {}
    for s in gp.body:
        if isinstance(s, ast.If) and isinstance(s.test, ast.Compare) and norm(s.test.left) == f"len({p})" and isinstance(s.test.ops[0], ast.Eq):
            cases[norm(s.test.comparators[0])] = norm(next(r for r in s.body if isinstance(r, ast.Return)).value)
    tail = gp.body[-1]
    tuple_ok = isinstance(tail, ast.Return) and "', '.join(" in norm(tail.value) and norm(tail.value).startswith("'(' +") \
        and f"for param in {p}" in norm(tail.value) and "param.name" in norm(tail.value)
    if cases != {"0": "'None'", "1": f"{p}[0].name"} or not tuple_ok:
        res.add(Finding("C13", "CTX.writer", m2.rel, "BuiltinConverterProvider._get_ctx_passing", f"{cases} / {norm(tail)[:80]}",
                        "the template passes None, the single extra parameter, or the tuple of all extra parameters in "
                        "declaration order -- the case split the plan's reader relies on", gp.lineno))
    # the writer gets exactly the parameters after the first, the context gets the same ones in the same order
    pc = _meth(ci2, "_produce_code")
    res.evaluated("ctx:writer-input", True)
    calls = [c for c in ast.walk(pc) if isinstance(c, ast.Call) and norm(c.func) == "self._get_ctx_passing"]
    if len(calls) != 1 or norm(calls[0].args[0]) != "parameters[1:]":
        res.add(Finding("C13", "CTX.writer", m2.rel, "BuiltinConverterProvider._produce_code", norm(calls[0]) if calls else "?",
                        "the context consists of all parameters after the first", pc.lineno))
    mk = _meth(ci2, "_make_converter")
    res.evaluated("ctx:context-object", True)
    unpack = [a for a in mk.body if isinstance(a, ast.Assign) and isinstance(a.targets[0], ast.Tuple)
              and any(isinstance(e, ast.Starred) for e in a.targets[0].elts)]
    ok = len(unpack) == 1 and isinstance(unpack[0].targets[0].elts[0], ast.Name) and isinstance(unpack[0].targets[0].elts[1], ast.Starred) \
        and norm(unpack[0].value) == "map(self._param_to_loc, request.signature.parameters.values())"
    creq = [c for c in ast.walk(mk) if isinstance(c, ast.Call) and norm(c.func) == "CoercerRequest"]
    if ok and len(creq) == 1:
        first, rest = norm(unpack[0].targets[0].elts[0]), norm(unpack[0].targets[0].elts[1].value)
        kws = {k.arg: norm(k.value) for k in creq[0].keywords}
        ok = kws.get("src") == f"LocStack({first})" and kws.get("ctx") == f"ConversionContext(tuple({rest}))"
    else:
        ok = False
    if not ok:
        res.add(Finding("C13", "CTX.context-object", m2.rel, "BuiltinConverterProvider._make_converter",
                        norm(creq[0])[:160] if creq else "?",
                        "the first parameter is the source, all other parameters form the context in declaration order",
                        mk.lineno))


def _shared_cache_rule(repo: Repo, res: CheckResult) -> None:
    """shared rule with C11 (clone discipline + facade caches) restricted to the conversion facade"""
    from .c11 import clone_discipline, facade_caches
    sub = CheckResult("C11")
    clone_discipline(repo, sub)
    facade_caches(repo, sub)
    res.evaluated("facade:conversion-cache-ownership", True)
    for f in sub.findings:
        if "conversion/" in f.file:
            res.add(Finding("C13", "FACADE.converter-cache-shared-with-clones", f.file, f.qualname, f.construct,
                            "a converter cache shared between a conversion retort and its clones makes get_converter answer with a converter built under another recipe: " + f.message[:200], f.line))


def coercer_data_truthiness(repo: Repo, res: CheckResult) -> None:
    """A runtime coercer closure `f(data, ctx)` may test its datum for None (Optional) but never for truth: [] / {} / 0 / an
    object with a false __bool__ are values, `x if data else None` turns them into None without any error."""
    m = repo.mod("conversion/coercer_provider")
    n = 0
    for fn in [f for f in ast.walk(m.tree) if isinstance(f, ast.FunctionDef) and m.enclosing_function(f) is not None]:
        ps = func_params(fn)
        if len(ps) < 2 or ps[1] != "ctx":
            continue
        d = ps[0]
        n += 1
        res.evaluated(f"truthiness:{m.qualname(fn)}", True)
        for t in walk_no_nested(fn, include_root=False):
            tests: List[ast.expr] = []
            if isinstance(t, (ast.If, ast.While, ast.IfExp)):
                tests.append(t.test)
            elif isinstance(t, ast.BoolOp):
                tests += t.values
            for e in tests:
                if isinstance(e, ast.UnaryOp) and isinstance(e.op, ast.Not):
                    e = e.operand
                if isinstance(e, ast.Name) and e.id == d:
                    res.add(Finding("C13", "COERCER.datum-tested-for-truth", m.rel, m.qualname(fn), norm(t)[:100].split("\n")[0],
                                    f"the coercer tests `{d}` for truth: falsy values that are not None ([], {{}}, 0, '', an object with a "
                                    "false __bool__ / __len__) take the None branch -- Optional[List[X]] -> Optional[List[Y]] returns None "
                                    "for an empty list", getattr(t, "lineno", 0)))
    res.count("COERCER.runtime-closures", n, 3)
