"""C10 — predicates (types, strings, P patterns and combinators) match as documented (clauses: DESIGN.md 3/C10)."""
from __future__ import annotations

import ast
from typing import Dict, List, Optional, Set, Tuple

from ..core import AnalysisError, CheckResult, ClassInfo, Finding, ModuleInfo, Repo, func_params, norm, walk_no_nested

LEVEL = "other"
EXHAUSTIVE = True
EXPLANATION = (
    "The predicate algebra is a dozen small functions; each documented law is reduced to the shape of one of them and "
    "checked component-wise on the syntax tree (operands alpha-normalised): (1) operator table of LocStackChecker and "
    "LocStackPattern (| -> Or, & -> And, ^ -> Xor, ~ -> Invert, operand order kept, reflected variants swapped); "
    "(2) the reducers are any / all / xor-fold and BinOperatorLSC applies every operand to the same (mediator, stack); "
    "every construction site of an Or/And/Xor checker passes a re-iterable collection (the checker re-reads it on each "
    "request); (3) strings: identifier -> exact field name, otherwise regex with fullmatch; (4) abstract classes and "
    "protocols -> subclass test (argument order origin <= predicate), everything else exact origin equality; "
    "(5) P[...] builds: tuple -> Or of the elements, attribute access == item access, + concatenates left to right, "
    "a one-element pattern is its element, longer ones a tail matcher; (6) the tail matcher refuses shorter stacks, "
    "pairs the i-th checker from the end with the stack without its last i locations (ImmutableStack.reversed_slice) and "
    "is a conjunction; (7) bound(pred, provider) conjoins pred with the provider's own checker for located requests."
)
RULE = "one evaluation = one law component on one method (operator entry, reducer, construction site, comparison, slice)"
ASSUMPTIONS = ["normalize_type, is_subclass_soft, isabstract and is_protocol implement their documented meaning",
               "pointwise truth of the boolean identities follows from the operator table and the reducers; it is not "
               "evaluated on concrete stacks"]

LSF = "provider/loc_stack_filtering"
OPS = {ast.BitOr: "Or", ast.BitAnd: "And", ast.BitXor: "Xor"}
CLS2OP = {"OrLocStackChecker": "Or", "AndLocStackChecker": "And", "XorLocStackChecker": "Xor", "InvertLSC": "Not"}


def run(repo: Repo, tier: str, res: CheckResult, seed: int = 0) -> None:
    m = repo.mod(LSF)
    fast_path_classes_final(repo, m, res)
    router_table_stores(repo, m, res)
    facade_bound_wraps(repo, res)
    operator_table(m, res)
    reducers(m, res)
    reiterable_sites(repo, res)
    string_predicates(m, res)
    origin_checkers(m, res)
    pattern_building(m, res)
    tail_matching(repo, m, res)
    last_loc(m, res)
    create_flow(m, res)
    bounding(repo, res)
    res.assumptions = list(ASSUMPTIONS)


def _cls(m: ModuleInfo, name: str) -> ClassInfo:
    ci = m.classes.get(name)
    if ci is None:
        raise AnalysisError(f"anchor vanished: {m.rel}:{name}")
    return ci


def _meth(ci: ClassInfo, name: str) -> ast.FunctionDef:
    fn = ci.methods.get(name)
    if fn is None:
        raise AnalysisError(f"anchor vanished: {ci.module.rel}:{ci.name}.{name}")
    return fn


def _returns(fn: ast.FunctionDef) -> List[ast.Return]:
    return [r for r in walk_no_nested(fn) if isinstance(r, ast.Return) and r.value is not None]


# ------------------------------------------------------------------------------------------ (1) operator table
def _term(e: ast.expr, self_name: str, other: Optional[str]):
    """canonical term of a checker-building expression: ('Or'|'And'|'Xor', [l, r]) | ('Not', t) | 'self' | 'other'"""
    if isinstance(e, ast.Name):
        if e.id == self_name:
            return "self"
        if other is not None and e.id == other:
            return "other"
        return None
    if isinstance(e, ast.BinOp) and type(e.op) in OPS:
        l, r = _term(e.left, self_name, other), _term(e.right, self_name, other)
        return (OPS[type(e.op)], [l, r])
    if isinstance(e, ast.UnaryOp) and isinstance(e.op, ast.Invert):
        return ("Not", _term(e.operand, self_name, other))
    if isinstance(e, ast.Call):
        f = e.func
        fname = norm(f)
        if fname in CLS2OP:
            if CLS2OP[fname] == "Not":
                return ("Not", _term(e.args[0], self_name, other)) if len(e.args) == 1 else None
            if len(e.args) == 1 and isinstance(e.args[0], (ast.List, ast.Tuple)):
                return (CLS2OP[fname], [_term(x, self_name, other) for x in e.args[0].elts])
            return None
        if isinstance(f, ast.Attribute) and norm(f.value) in CLS2OP and CLS2OP[norm(f.value)] != "Not" and _FLATTEN.get(f.attr):
            # Cls.join(a, b): n-ary constructor that inlines operands of the same operator (associativity)
            return (CLS2OP[norm(f.value)], [_term(x, self_name, other) for x in e.args])
        if isinstance(f, ast.Attribute) and norm(f.value) == self_name:
            if f.attr == "build_loc_stack_checker" and not e.args:
                return "self"
            if f.attr == "_ensure_loc_stack_checker" and len(e.args) == 1:
                return _term(e.args[0], self_name, other)
            if f.attr == "_from_lsc" and len(e.args) == 1:
                return _term(e.args[0], self_name, other)
    return None


_FLATTEN: Dict[str, bool] = {}     # classmethod name of BinOperatorLSC -> verified flattening constructor


def _find_flatteners(m: ModuleInfo) -> None:
    """classmethods of BinOperatorLSC of the form: operands = []; for x in args: (extend with x's operands when type(x) is
    cls, else append x); return cls(operands) -- a constructor that is the n-ary operator, sound for |, & and ^ because they
    are associative"""
    _FLATTEN.clear()
    ci = m.classes.get("BinOperatorLSC")
    if ci is None:
        return
    for name, fn in ci.methods.items():
        if not any(norm(d) == "classmethod" for d in fn.decorator_list) or fn.args.vararg is None:
            continue
        cls_, va = fn.args.args[0].arg, fn.args.vararg.arg
        rets = _returns(fn)
        loops = [l for l in fn.body if isinstance(l, ast.For) and norm(l.iter) == va]
        if len(rets) != 1 or len(loops) != 1 or not isinstance(rets[0].value, ast.Call) or norm(rets[0].value.func) != cls_:
            continue
        acc = norm(rets[0].value.args[0]) if rets[0].value.args else None
        x = norm(loops[0].target)
        body = loops[0].body
        ok = False
        if len(body) == 1 and isinstance(body[0], ast.If):
            t = norm(body[0].test)
            same = t in (f"type({x}) is {cls_}", f"isinstance({x}, {cls_})")
            ext = any(isinstance(c, ast.Call) and norm(c.func) == f"{acc}.extend" and norm(c.args[0]) == f"{x}._loc_stack_checkers"
                      for st in body[0].body for c in ast.walk(st))
            app = any(isinstance(c, ast.Call) and norm(c.func) == f"{acc}.append" and norm(c.args[0]) == x
                      for st in body[0].orelse for c in ast.walk(st))
            ok = same and ext and app
        if ok:
            _FLATTEN[name] = True


EXPECT_OPS = {
    "__or__": ("Or", ["self", "other"]), "__and__": ("And", ["self", "other"]), "__xor__": ("Xor", ["self", "other"]),
    "__ror__": ("Or", ["other", "self"]), "__rand__": ("And", ["other", "self"]), "__rxor__": ("Xor", ["other", "self"]),
    "__invert__": ("Not", "self"),
}


def operator_table(m: ModuleInfo, res: CheckResult) -> None:
    n = 0
    _find_flatteners(m)
    for cname, names in (("LocStackChecker", ["__or__", "__and__", "__xor__", "__invert__"]),
                         ("LocStackPattern", ["__or__", "__ror__", "__and__", "__rand__", "__xor__", "__rxor__", "__invert__"])):
        ci = _cls(m, cname)
        for name in names:
            fn = _meth(ci, name)
            ps = func_params(fn)
            other = ps[1] if len(ps) > 1 else None
            n += 1
            res.evaluated(f"op:{cname}.{name}", True)
            rets = [r for r in _returns(fn) if norm(r.value) != "NotImplemented"]
            want = EXPECT_OPS[name]
            if not rets:
                raise AnalysisError(f"{cname}.{name}: no building return")
            if len(rets) > 1:
                # several paths: each of them has to build the documented combinator; a path that builds anything else (a rewritten
                # chain, a "simplified" form) makes the operator something other than the pointwise boolean operation
                for r in rets:
                    t = _term(r.value, ps[0], other)
                    if t != want:
                        res.add(Finding("C10", "OP.table", m.rel, f"{cname}.{name}", norm(r.value)[:120],
                                        f"`{name}` has a path that returns `{norm(r.value)[:100]}`, which is not the documented combinator "
                                        f"{want} applied to the two operands as they are (pointwise boolean operation, operands in source "
                                        "order): chain elements align from the END of the location stack, so regrouping or rewriting "
                                        "the operands changes which location each element is tested against", r.lineno))
                continue
            t = _term(rets[0].value, ps[0], other)
            res.sample({"method": f"{cname}.{name}", "builds": str(t)}, limit=12)
            if t is None or (isinstance(t, tuple) and (None in (t[1] if isinstance(t[1], list) else [t[1]]))):
                raise AnalysisError(f"{cname}.{name}: cannot interpret `{norm(rets[0].value)}`")
            if t != want:
                res.add(Finding("C10", "OP.table", m.rel, f"{cname}.{name}", norm(rets[0].value),
                                f"`{name}` builds {t} but the documented combinator is {want} (pointwise boolean operation with "
                                "the operands in source order)", rets[0].lineno))
            # NotImplemented for foreign operands (LocStackChecker): the building return is guarded by isinstance
        # reflected operators must exist on the pattern so that `checker | P...` works
    res.count("OP.operator-methods", n, 11)


# ------------------------------------------------------------------------------------------ (2) reducers
def reducers(m: ModuleInfo, res: CheckResult) -> None:
    want = {"OrLocStackChecker": "any", "AndLocStackChecker": "all", "XorLocStackChecker": "xor"}
    for cname, sem in want.items():
        ci = _cls(m, cname)
        res.evaluated(f"reduce:{cname}", True)
        got = None
        if "_reduce" in ci.attrs:
            got = norm(ci.attrs["_reduce"])
        elif "_reduce" in ci.methods:
            fn = ci.methods["_reduce"]
            ps = func_params(fn)
            rets = _returns(fn)
            if len(rets) == 1:
                v = rets[0].value
                if isinstance(v, ast.Call) and norm(v.func) in ("reduce", "functools.reduce") and len(v.args) >= 2 \
                        and norm(v.args[1]) == ps[1]:
                    f0 = norm(v.args[0])
                    init = norm(v.args[2]) if len(v.args) > 2 else None
                    if f0 in ("operator.xor", "xor", "operator.ne", "ne") and init in (None, "False"):
                        got = "xor"
                    elif f0 in ("operator.or_", "or_"):
                        got = "any"
                    elif f0 in ("operator.and_", "and_"):
                        got = "all"
                    else:
                        got = f"reduce({f0})"
                elif isinstance(v, ast.Call) and norm(v.func) in ("any", "all") and len(v.args) == 1 and norm(v.args[0]) == ps[1]:
                    got = norm(v.func)
                elif isinstance(v, ast.Compare) and "sum(" in norm(v) and "% 2" in norm(v):
                    got = "xor" if norm(v).replace(" ", "").endswith("%2==1") else f"parity:{norm(v)}"
                elif isinstance(v, ast.Compare) and norm(v).replace(" ", "") in (f"sum({ps[1]})==1", f"1==sum({ps[1]})"):
                    # exactly-one-true: equals xor for two operands only
                    got = "xor" if _max_arity(m.repo, cname) <= 2 else "one-hot"
        if got is None:
            raise AnalysisError(f"{cname}._reduce: unrecognised form")
        if got != sem:
            extra = " (exactly-one-true differs from the parity xor as soon as a checker has three or more operands, which the " \
                    "flattening constructor produces for a ^ b ^ c)" if got == "one-hot" else ""
            res.add(Finding("C10", "OP.reducer", m.rel, f"{cname}._reduce", got,
                            f"the reducer of {cname} is `{got}`, the combinator requires `{sem}`{extra}", ci.node.lineno))
    # every operand is applied to the same (mediator, loc_stack)
    base = _cls(m, "BinOperatorLSC")
    fn = _meth(base, "check_loc_stack")
    ps = func_params(fn)
    res.evaluated("reduce:BinOperatorLSC.check_loc_stack", True)
    rets = _returns(fn)
    ok = False
    if len(rets) == 1 and isinstance(rets[0].value, ast.Call) and norm(rets[0].value.func) == f"{ps[0]}._reduce" \
            and len(rets[0].value.args) == 1:
        g = rets[0].value.args[0]
        if isinstance(g, (ast.GeneratorExp, ast.ListComp)) and len(g.generators) == 1 and not g.generators[0].ifs:
            gen = g.generators[0]
            it_ok = norm(gen.iter) == f"{ps[0]}._loc_stack_checkers"
            el = g.elt
            el_ok = isinstance(el, ast.Call) and isinstance(el.func, ast.Attribute) and el.func.attr == "check_loc_stack" \
                and norm(el.func.value) == norm(gen.target) and [norm(a) for a in el.args] == [ps[1], ps[2]]
            ok = it_ok and el_ok
    if not ok:
        res.add(Finding("C10", "OP.operands", m.rel, "BinOperatorLSC.check_loc_stack", norm(rets[0].value)[:160] if rets else "?",
                        "the combinator must reduce over check_loc_stack(mediator, loc_stack) of every stored operand (all "
                        "operands, same request)", fn.lineno))
    inv = _meth(_cls(m, "InvertLSC"), "check_loc_stack")
    ps = func_params(inv)
    res.evaluated("reduce:InvertLSC.check_loc_stack", True)
    rets = _returns(inv)
    ok = len(rets) == 1 and isinstance(rets[0].value, ast.UnaryOp) and isinstance(rets[0].value.op, ast.Not) \
        and isinstance(rets[0].value.operand, ast.Call) and norm(rets[0].value.operand.func) == f"{ps[0]}._lsc.check_loc_stack" \
        and [norm(a) for a in rets[0].value.operand.args] == [ps[1], ps[2]]
    if not ok:
        res.add(Finding("C10", "OP.invert", m.rel, "InvertLSC.check_loc_stack", norm(rets[0].value) if rets else "?",
                        "~ must be the pointwise negation of the wrapped checker on the same request", inv.lineno))


def _max_arity(repo: Repo, cname: str) -> int:
    """largest number of operands a construction site of `cname` can pass (99 = unbounded)"""
    best = 0
    for mod in repo.modules.values():
        for c in ast.walk(mod.tree):
            if not isinstance(c, ast.Call):
                continue
            f = norm(c.func)
            if f.split(".")[-1] == cname and c.args:
                a = c.args[0]
                best = max(best, len(a.elts) if isinstance(a, (ast.List, ast.Tuple)) and not any(isinstance(e, ast.Starred) for e in a.elts) else 99)
            elif f.startswith(cname + ".") and _FLATTEN.get(f.split(".")[-1]):
                best = 99
            elif f in ("cls",) and mod.enclosing_class(c) is not None and mod.enclosing_class(c).name == "BinOperatorLSC":
                best = 99 if any(_FLATTEN.values()) and any(
                    isinstance(x, ast.Call) and norm(x.func).startswith(cname + ".") for x in ast.walk(mod.tree)) else best
    return best


def reiterable_sites(repo: Repo, res: CheckResult) -> None:
    n = 0
    for mod in repo.modules.values():
        for c in ast.walk(mod.tree):
            if isinstance(c, ast.Call) and norm(c.func).split(".")[-1] in ("OrLocStackChecker", "AndLocStackChecker", "XorLocStackChecker"):
                n += 1
                qual = mod.qualname(c)
                res.evaluated(f"site:{mod.rel}:{qual}:{norm(c)[:60]}", True)
                a = c.args[0] if c.args else None
                ok = isinstance(a, (ast.List, ast.Tuple, ast.ListComp)) or (
                    isinstance(a, ast.Call) and norm(a.func) in ("list", "tuple"))
                if isinstance(a, ast.Name):
                    # a local that is assigned a list/tuple
                    fn = mod.enclosing_function(c)
                    defs = [x.value for x in ast.walk(fn) if isinstance(x, ast.Assign) and norm(x.targets[0]) == a.id] if fn else []
                    ok = bool(defs) and all(isinstance(d, (ast.List, ast.Tuple, ast.ListComp)) or (
                        isinstance(d, ast.Call) and norm(d.func) in ("list", "tuple")) for d in defs)
                if not ok:
                    res.add(Finding("C10", "OP.one-shot-operands", mod.rel, qual, norm(c)[:120],
                                    "the combinator stores its operands and iterates them on every request: a generator / map "
                                    "/ filter is exhausted by the first request and the predicate silently changes afterwards "
                                    "(Or -> never matches, And -> always matches)", c.lineno))
    res.count("OP.construction-sites", n, 4)


# ------------------------------------------------------------------------------------------ (3) strings
def string_predicates(m: ModuleInfo, res: CheckResult) -> None:
    fn = m.functions.get("_create_non_type_hint_loc_stack_checker")
    if fn is None:
        raise AnalysisError("anchor vanished: _create_non_type_hint_loc_stack_checker")
    p = func_params(fn)[0]
    res.evaluated("str:dispatch", True)
    str_if = next((s for s in fn.body if isinstance(s, ast.If) and norm(s.test) == f"isinstance({p}, str)"), None)
    if str_if is None:
        raise AnalysisError("string predicate branch not found")
    inner = next((s for s in str_if.body if isinstance(s, ast.If)), None)
    exact_ok = regex_ok = False
    if inner is not None and norm(inner.test) == f"{p}.isidentifier()":
        exact_ok = any(isinstance(r, ast.Return) and norm(r.value) == f"ExactFieldNameLSC({p})" for r in inner.body)
        rest = inner.orelse or str_if.body[str_if.body.index(inner) + 1:]
        regex_ok = any(isinstance(r, ast.Return) and norm(r.value) in (f"ReFieldNameLSC(re.compile({p}))", f"ReFieldNameLSC(compile({p}))")
                       for r in rest)
    else:
        # no identifier optimisation: every string is a regex; exactness for identifiers follows from fullmatch
        exact_ok = True
        regex_ok = any(isinstance(r, ast.Return) and "ReFieldNameLSC(re.compile(" in norm(r.value) for r in str_if.body)
    if not (exact_ok and regex_ok):
        res.add(Finding("C10", "STR.dispatch", m.rel, "_create_non_type_hint_loc_stack_checker", norm(str_if)[:200],
                        "a string predicate must become an exact field-name test when it is an identifier and a compiled "
                        "regular expression otherwise", str_if.lineno))
    # regex semantics: fullmatch, on the field id, compared with None
    ci = _cls(m, "ReFieldNameLSC")
    fn2 = _meth(ci, "_check_location")
    ps = func_params(fn2)
    res.evaluated("str:regex-fullmatch", True)
    rets = _returns(fn2)
    calls = [c for r in rets for c in ast.walk(r) if isinstance(c, ast.Call) and isinstance(c.func, ast.Attribute)
             and c.func.attr in ("match", "search", "fullmatch", "findall", "finditer")]
    if len(calls) != 1 or len(rets) != 1:
        raise AnalysisError("ReFieldNameLSC._check_location: unrecognised form")
    call = calls[0]
    if call.func.attr != "fullmatch":
        res.add(Finding("C10", "STR.regex-not-fullmatch", m.rel, "ReFieldNameLSC._check_location", norm(rets[0].value),
                        f"the pattern is applied with `{call.func.attr}`: a non-identifier string predicate must match the "
                        "whole field id (documented: full match)", rets[0].lineno))
    if [norm(a) for a in call.args] != [f"{ps[2]}.field_id"] or norm(call.func.value) != f"{ps[0]}.pattern":
        res.add(Finding("C10", "STR.regex-subject", m.rel, "ReFieldNameLSC._check_location", norm(call),
                        "the regex must be applied to the field id of the location", call.lineno))
    v = rets[0].value
    truthy_ok = (isinstance(v, ast.Compare) and isinstance(v.ops[0], ast.IsNot) and norm(v.comparators[0]) == "None" and v.left is call) \
        or (isinstance(v, ast.Call) and norm(v.func) == "bool" and v.args and v.args[0] is call)
    if not truthy_ok:
        res.add(Finding("C10", "STR.regex-result", m.rel, "ReFieldNameLSC._check_location", norm(v),
                        "the match object must be turned into 'matched' (is not None)", rets[0].lineno))
    ci = _cls(m, "ExactFieldNameLSC")
    fn3 = _meth(ci, "_check_location")
    ps = func_params(fn3)
    res.evaluated("str:exact", True)
    rets = _returns(fn3)
    sides = set()
    if len(rets) == 1 and isinstance(rets[0].value, ast.Compare) and isinstance(rets[0].value.ops[0], ast.Eq):
        sides = {norm(rets[0].value.left), norm(rets[0].value.comparators[0])}
    if sides != {f"{ps[0]}.field_id", f"{ps[2]}.field_id"}:
        res.add(Finding("C10", "STR.exact", m.rel, "ExactFieldNameLSC._check_location", norm(rets[0].value) if rets else "?",
                        "an identifier predicate must compare the whole field id for equality", fn3.lineno))


# ------------------------------------------------------------------------------------------ (4) classes
def origin_checkers(m: ModuleInfo, res: CheckResult) -> None:
    fn = m.functions.get("_create_loc_stack_checker_by_origin")
    if fn is None:
        raise AnalysisError("anchor vanished: _create_loc_stack_checker_by_origin")
    p = func_params(fn)[0]
    res.evaluated("cls:selection", True)
    ifs = [s for s in fn.body if isinstance(s, ast.If)]
    ok = False
    if len(ifs) == 1 and isinstance(ifs[0].test, ast.BoolOp) and isinstance(ifs[0].test.op, ast.Or):
        tests = {norm(v) for v in ifs[0].test.values}
        sub = any(isinstance(r, ast.Return) and norm(r.value) == f"OriginSubclassLSC({p})" for r in ifs[0].body)
        rest = ifs[0].orelse or fn.body[fn.body.index(ifs[0]) + 1:]
        exact = any(isinstance(r, ast.Return) and norm(r.value) == f"ExactOriginLSC({p})" for r in rest)
        ok = tests == {f"is_protocol({p})", f"isabstract({p})"} and sub and exact
        if not ok and tests <= {f"is_protocol({p})", f"isabstract({p})", f"inspect.isabstract({p})"} | tests:
            pass
    if not ok:
        res.add(Finding("C10", "CLS.selection", m.rel, "_create_loc_stack_checker_by_origin", norm(fn)[:200],
                        "abstract classes and protocols (is_protocol(origin) or isabstract(origin)) must get the subclass "
                        "checker and every other class the exact-origin checker", fn.lineno))
    # comparison semantics
    for cname, want in (("OriginSubclassLSC", "subclass"), ("ExactOriginLSC", "origin-eq"), ("ExactTypeLSC", "norm-eq")):
        ci = _cls(m, cname)
        f = _meth(ci, "_check_location")
        ps = func_params(f)
        res.evaluated(f"cls:{cname}", True)
        rets = [r for r in _returns(f) if norm(r.value) != "False"]
        if len(rets) != 1:
            raise AnalysisError(f"{cname}._check_location: expected one deciding return")
        v = rets[0].value
        # local `norm = normalize_type(loc.type)`
        nvars = {norm(a.targets[0]) for a in ast.walk(f) if isinstance(a, ast.Assign) and isinstance(a.value, ast.Call)
                 and norm(a.value.func) == "normalize_type" and [norm(x) for x in a.value.args] == [f"{ps[2]}.type"]}
        if not nvars:
            raise AnalysisError(f"{cname}._check_location: the location's type is not normalised")
        nv = next(iter(nvars))
        good = False
        if want == "subclass":
            good = isinstance(v, ast.Call) and norm(v.func) == "is_subclass_soft" and \
                [norm(a) for a in v.args] == [f"{nv}.origin", f"{ps[0]}.type_"]
            why = "is_subclass_soft(<origin of the location>, <predicate class>) in this argument order"
        elif want == "origin-eq":
            good = isinstance(v, ast.Compare) and isinstance(v.ops[0], ast.Eq) and \
                {norm(v.left), norm(v.comparators[0])} == {f"{nv}.origin", f"{ps[0]}.origin"}
            why = "equality of the location's origin with the predicate class"
        else:
            good = isinstance(v, ast.Compare) and isinstance(v.ops[0], ast.Eq) and \
                {norm(v.left), norm(v.comparators[0])} == {nv, f"{ps[0]}.norm"}
            why = "equality of the full normalised types"
        if not good:
            res.add(Finding("C10", "CLS.comparison", m.rel, f"{cname}._check_location", norm(v),
                            f"{cname} must decide by {why}", rets[0].lineno))


# ------------------------------------------------------------------------------------------ (5) P building
def pattern_building(m: ModuleInfo, res: CheckResult) -> None:
    ci = _cls(m, "LocStackPattern")
    # __getattr__ delegates to __getitem__
    fn = _meth(ci, "__getattr__")
    ps = func_params(fn)
    res.evaluated("P:getattr", True)
    rets = _returns(fn)
    if not (len(rets) == 1 and norm(rets[0].value) in (f"{ps[0]}[{ps[1]}]", f"{ps[0]}.__getitem__({ps[1]})")):
        res.add(Finding("C10", "P.getattr", m.rel, "LocStackPattern.__getattr__", "; ".join(norm(r) for r in rets),
                        "P.name must be P['name'] (attribute access delegates to item access unchanged)", fn.lineno))
    # ... and the name reaches it unchanged: the parameter is never rebound on the way
    for st in ast.walk(fn):
        tgts = st.targets if isinstance(st, ast.Assign) else [st.target] if isinstance(st, (ast.AugAssign, ast.AnnAssign, ast.NamedExpr)) else []
        for t in tgts:
            if any(isinstance(x, ast.Name) and x.id == ps[1] for x in ast.walk(t)):
                res.add(Finding("C10", "P.getattr", m.rel, "LocStackPattern.__getattr__", norm(st)[:100],
                                f"`{norm(st)[:80]}` rewrites the attribute name before it becomes a field predicate: P.<name> no longer "
                                "equals P['<name>'] for the rewritten names (field ids are matched literally)", st.lineno))
    # __getitem__: tuple -> one Or element; else one element
    fn = _meth(ci, "__getitem__")
    ps = func_params(fn)
    res.evaluated("P:getitem", True)
    rets = _returns(fn)
    tuple_ret = single_ret = None
    for r in rets:
        v = r.value
        if isinstance(v, ast.Call) and norm(v.func) == f"{ps[0]}._extend_stack" and len(v.args) == 1 \
                and isinstance(v.args[0], (ast.List, ast.Tuple)) and len(v.args[0].elts) == 1:
            el = v.args[0].elts[0]
            if isinstance(el, ast.Call) and norm(el.func) == "OrLocStackChecker":
                tuple_ret = el
            else:
                single_ret = el
    ok_single = single_ret is not None and norm(single_ret) == f"{ps[0]}._ensure_loc_stack_checker_from_pred({ps[1]})"
    ok_tuple = False
    if tuple_ret is not None and len(tuple_ret.args) == 1 and isinstance(tuple_ret.args[0], ast.ListComp):
        lc = tuple_ret.args[0]
        g = lc.generators[0]
        ok_tuple = len(lc.generators) == 1 and not g.ifs and norm(g.iter) == ps[1] \
            and norm(lc.elt) == f"{ps[0]}._ensure_loc_stack_checker_from_pred({norm(g.target)})"
    if not ok_single or not ok_tuple:
        res.add(Finding("C10", "P.getitem", m.rel, "LocStackPattern.__getitem__", "; ".join(norm(r.value)[:80] for r in rets),
                        "P[x] must append the checker of x; P[a, b] must append ONE element: the Or of the checkers of all "
                        "items (P[A, B] == P[A] | P[B])", fn.lineno))
    # + : self's stack then other's stack
    fn = _meth(ci, "__add__")
    ps = func_params(fn)
    res.evaluated("P:add", True)
    rets = _returns(fn)
    if not (len(rets) == 1 and norm(rets[0].value) == f"{ps[0]}._extend_stack({ps[1]}._stack)"):
        res.add(Finding("C10", "P.add", m.rel, "LocStackPattern.__add__", "; ".join(norm(r) for r in rets),
                        "a + b must be the stack of a followed by the stack of b", fn.lineno))
    fn = _meth(ci, "_extend_stack")
    ps = func_params(fn)
    res.evaluated("P:extend", True)
    stores = [a for a in ast.walk(fn) if isinstance(a, ast.Assign) and isinstance(a.targets[0], ast.Attribute)
              and a.targets[0].attr == "_stack"]
    ok = len(stores) == 1 and isinstance(stores[0].value, ast.BinOp) and isinstance(stores[0].value.op, ast.Add) \
        and norm(stores[0].value.left) == f"{ps[0]}._stack" and norm(stores[0].value.right) in (f"tuple({ps[1]})", f"(*{ps[1]},)")
    tgt_ok = ok and norm(stores[0].targets[0].value) != ps[0]
    if not ok or not tgt_ok:
        res.add(Finding("C10", "P.extend", m.rel, "LocStackPattern._extend_stack", "; ".join(norm(s) for s in stores),
                        "extending must produce a copy whose stack is the old stack followed by the new elements (the shared "
                        "P object itself is never modified)", fn.lineno))
    # build: 0 -> error, 1 -> the element, n -> tail matcher over the whole stack
    fn = _meth(ci, "build_loc_stack_checker")
    ps = func_params(fn)
    res.evaluated("P:build", True)
    one = None
    for s in fn.body:
        if isinstance(s, ast.If) and norm(s.test) == f"len({ps[0]}._stack) == 1":
            one = [r for r in s.body if isinstance(r, ast.Return)]
    last = fn.body[-1]
    ok = one is not None and len(one) == 1 and norm(one[0].value) == f"{ps[0]}._stack[0]" \
        and isinstance(last, ast.Return) and norm(last.value) == f"LocStackEndChecker({ps[0]}._stack)"
    if not ok:
        res.add(Finding("C10", "P.build", m.rel, "LocStackPattern.build_loc_stack_checker", norm(last)[:100],
                        "a one-element pattern must be its element (P[A] == A) and a longer one the tail matcher over the "
                        "complete stack in order", fn.lineno))


# ------------------------------------------------------------------------------------------ (6) tail matching
def tail_matching(repo: Repo, m: ModuleInfo, res: CheckResult) -> None:
    ci = _cls(m, "LocStackEndChecker")
    fn = _meth(ci, "check_loc_stack")
    ps = func_params(fn)
    me, stack = ps[0], ps[2]
    chk = f"{me}.loc_stack_checkers"
    qual = "LocStackEndChecker.check_loc_stack"
    # (a) length guard
    res.evaluated("tail:length-guard", True)
    guard = None
    for s in fn.body:
        if isinstance(s, ast.If) and isinstance(s.test, ast.Compare) and f"len({stack})" in norm(s.test) and f"len({chk})" in norm(s.test):
            guard = s
    if guard is None:
        res.add(Finding("C10", "TAIL.length-guard", m.rel, qual, "no length guard",
                        "a stack shorter than the pattern can not match (and must not be sliced with a negative bound)",
                        fn.lineno))
    else:
        t = guard.test
        l, op, r = norm(t.left), type(t.ops[0]).__name__, norm(t.comparators[0])
        canon = (l, op, r)
        good = canon in ((f"len({stack})", "Lt", f"len({chk})"), (f"len({chk})", "Gt", f"len({stack})"))
        rej = all(isinstance(x, ast.Return) and norm(x.value) == "False" for x in guard.body)
        if not good or not rej:
            res.add(Finding("C10", "TAIL.length-guard", m.rel, qual, norm(t),
                            "the tail matcher must refuse exactly the stacks that are shorter than the pattern "
                            "(`len(stack) < len(pattern)`): an equal length is a legal full match", guard.lineno))
    # (b) pairing
    loops = [s for s in fn.body if isinstance(s, ast.For)]
    res.evaluated("tail:pairing", True)
    if len(loops) != 1:
        raise AnalysisError(f"{qual}: expected one loop over the checkers")
    lp = loops[0]
    it = lp.iter
    idx = elem = None
    rev = False
    start = 0
    if isinstance(it, ast.Call) and norm(it.func) == "enumerate" and it.args:
        inner = it.args[0]
        for k in it.keywords:
            if k.arg == "start":
                start = ast.literal_eval(k.value)
        if len(it.args) > 1:
            start = ast.literal_eval(it.args[1])
        if isinstance(inner, ast.Call) and norm(inner.func) == "reversed" and [norm(a) for a in inner.args] == [chk]:
            rev = True
        elif norm(inner) == chk:
            rev = False
        else:
            raise AnalysisError(f"{qual}: loop iterates over `{norm(inner)}`")
        if isinstance(lp.target, ast.Tuple) and len(lp.target.elts) == 2:
            idx, elem = norm(lp.target.elts[0]), norm(lp.target.elts[1])
    if idx is None:
        raise AnalysisError(f"{qual}: loop is not an enumerate over the checkers")
    if not rev or start != 0:
        res.add(Finding("C10", "TAIL.pairing", m.rel, qual, norm(it),
                        "the i-th checker counted from the END of the pattern must be paired with offset i starting at 0 "
                        "(last checker <-> whole stack)", lp.lineno))
    calls = [c for c in ast.walk(lp) if isinstance(c, ast.Call) and isinstance(c.func, ast.Attribute) and c.func.attr == "check_loc_stack"]
    if len(calls) != 1 or norm(calls[0].func.value) != elem:
        raise AnalysisError(f"{qual}: expected one check_loc_stack call on the loop element")
    args = calls[0].args
    if len(args) != 2 or norm(args[0]) != ps[1] or norm(args[1]) != f"{stack}.reversed_slice({idx})":
        res.add(Finding("C10", "TAIL.slice", m.rel, qual, norm(calls[0]),
                        f"each checker must see the stack without its last i locations: `{stack}.reversed_slice({idx})`",
                        calls[0].lineno))
    # (c) conjunction
    res.evaluated("tail:conjunction", True)
    ifs = [s for s in lp.body if isinstance(s, ast.If)]
    conj = len(ifs) == 1 and isinstance(ifs[0].test, ast.UnaryOp) and isinstance(ifs[0].test.op, ast.Not) \
        and ifs[0].test.operand is calls[0] and all(isinstance(x, ast.Return) and norm(x.value) == "False" for x in ifs[0].body) \
        and isinstance(fn.body[-1], ast.Return) and norm(fn.body[-1].value) == "True" and not lp.orelse
    if not conj:
        res.add(Finding("C10", "TAIL.conjunction", m.rel, qual, norm(lp)[:160],
                        "the tail matcher is the conjunction of its element checks: False on the first failing element, True "
                        "after all passed", lp.lineno))
    # (d) reversed_slice
    ds = repo.mod("datastructures")
    st = _cls(ds, "ImmutableStack")
    rs = _meth(st, "reversed_slice")
    ps2 = func_params(rs)
    res.evaluated("tail:reversed_slice", True)
    rets = _returns(rs)
    ok = False
    if len(rets) == 1:
        sl = [s for s in ast.walk(rets[0].value) if isinstance(s, ast.Subscript) and isinstance(s.slice, ast.Slice)]
        if len(sl) == 1 and norm(sl[0].value) == f"{ps2[0]}._tuple" and sl[0].slice.lower is None and sl[0].slice.step is None:
            up = norm(sl[0].slice.upper).replace(" ", "") if sl[0].slice.upper is not None else ""
            ok = up in (f"len({ps2[0]})-{ps2[1]}", f"len({ps2[0]}._tuple)-{ps2[1]}")
    if not ok:
        res.add(Finding("C10", "TAIL.reversed-slice", ds.rel, "ImmutableStack.reversed_slice", norm(rets[0].value) if rets else "?",
                        "reversed_slice(k) must keep the first len - k elements (k = 0 keeps the whole stack; `[:-k]` would "
                        "empty it)", rs.lineno))


def last_loc(m: ModuleInfo, res: CheckResult) -> None:
    ci = _cls(m, "LastLocChecker")
    fn = _meth(ci, "check_loc_stack")
    ps = func_params(fn)
    res.evaluated("last:location", True)
    last_vars = {norm(a.targets[0]) for a in ast.walk(fn) if isinstance(a, ast.Assign) and norm(a.value) == f"{ps[2]}.last"}
    uses = [c for c in ast.walk(fn) if isinstance(c, ast.Call) and norm(c.func) == f"{ps[0]}._check_location"]
    ok = len(uses) == 1 and len(uses[0].args) == 2 and (norm(uses[0].args[1]) in last_vars or norm(uses[0].args[1]) == f"{ps[2]}.last")
    if not ok:
        res.add(Finding("C10", "LAST.location", m.rel, "LastLocChecker.check_loc_stack", norm(uses[0]) if uses else "?",
                        "element checkers decide on the LAST location of the stack", fn.lineno))
    res.evaluated("last:cast-guard", True)
    ifs = [s for s in fn.body if isinstance(s, ast.If) and "is_castable" in norm(s.test)]
    tail = fn.body[-1]
    ok = len(ifs) == 1 and not isinstance(ifs[0].test, ast.UnaryOp) and any(isinstance(r, ast.Return) and r.value is uses[0] for r in ifs[0].body) \
        and isinstance(tail, ast.Return) and norm(tail.value) == "False" if uses else False
    if not ok:
        res.add(Finding("C10", "LAST.cast-guard", m.rel, "LastLocChecker.check_loc_stack", norm(fn)[:160],
                        "a location of another kind (type predicate on a field-less location, field predicate on a type "
                        "location) does not match", fn.lineno))


# ------------------------------------------------------------------------------------------ create flow
def create_flow(m: ModuleInfo, res: CheckResult) -> None:
    fn = m.functions.get("_create_non_type_hint_loc_stack_checker")
    p = func_params(fn)[0]
    res.evaluated("create:checker-and-pattern-passthrough", True)
    want = {f"isinstance({p}, LocStackChecker)": p, f"isinstance({p}, LocStackPattern)": f"{p}.build_loc_stack_checker()",
            f"isinstance({p}, re.Pattern)": f"ReFieldNameLSC({p})"}
    for test, ret in want.items():
        iff = next((s for s in fn.body if isinstance(s, ast.If) and norm(s.test) in (test, test.replace("re.Pattern", "Pattern"))), None)
        if iff is None or not any(isinstance(r, ast.Return) and norm(r.value) == ret for r in iff.body):
            res.add(Finding("C10", "CREATE.passthrough", m.rel, "_create_non_type_hint_loc_stack_checker", test,
                            f"a predicate satisfying `{test}` must become `{ret}`", fn.lineno))
    fn = m.functions.get("create_loc_stack_checker")
    if fn is None:
        raise AnalysisError("anchor vanished: create_loc_stack_checker")
    pr = func_params(fn)[0]
    nvars = {norm(a.targets[0]) for a in ast.walk(fn) if isinstance(a, ast.Assign) and isinstance(a.value, ast.Call)
             and norm(a.value.func) == "normalize_type" and [norm(x) for x in a.value.args] == [pr]}
    if len(nvars) != 1:
        raise AnalysisError("create_loc_stack_checker: the predicate is not normalised into one local")
    nv = next(iter(nvars))
    res.evaluated("create:type-predicates", True)
    rets = _returns(fn)
    txt = [norm(r.value) for r in rets]
    # parametrised generics need the full normalised type; everything else goes through the origin selection
    if f"ExactTypeLSC({nv})" not in txt or txt.count(f"_create_loc_stack_checker_by_origin({nv}.origin)") < 1:
        res.add(Finding("C10", "CREATE.type-predicates", m.rel, "create_loc_stack_checker", "; ".join(txt),
                        "class predicates go through the abstract/concrete selection on their origin, parametrised types "
                        "through exact comparison of normalised types", fn.lineno))
    # the optimisation branch is guarded: only non generic, non parametrised predicates may be compared by origin
    for r in rets:
        if norm(r.value) == f"_create_loc_stack_checker_by_origin({nv}.origin)":
            iff = m.parent(r)
            res.evaluated(f"create:origin-branch:{r.lineno - fn.lineno}", True)
            if not isinstance(iff, ast.If):
                res.add(Finding("C10", "CREATE.type-predicates", m.rel, "create_loc_stack_checker", norm(r),
                                "comparison by origin without a guard: List[int] would match List[str]", r.lineno))
                continue
            t = norm(iff.test)
            if t not in (f"is_bare_generic({pr})", f"not is_generic({nv}.origin) and (not is_parametrized({pr}))",
                         f"not is_generic({nv}.origin) and not is_parametrized({pr})"):
                res.add(Finding("C10", "CREATE.type-predicates", m.rel, "create_loc_stack_checker", t,
                                "comparison by origin is only sound for bare generics and for non generic, non parametrised "
                                "classes", iff.lineno))


# ------------------------------------------------------------------------------------------ (7) bound
def bounding(repo: Repo, res: CheckResult) -> None:
    m = repo.mod("provider/located_request")
    ci = _cls(m, "LocStackBoundingProvider")
    fn = _meth(ci, "_process_request_checker")
    ps = func_params(fn)
    res.evaluated("bound:conjunction", True)
    rets = _returns(fn)
    conj = [r for r in rets if isinstance(r.value, ast.Call) and norm(r.value.func) == "LocatedRequestChecker"
            and r.value.args and isinstance(r.value.args[0], ast.BinOp)]
    plain = [r for r in rets if isinstance(r.value, ast.Call) and norm(r.value.func) == "LocatedRequestChecker"
             and r.value.args and not isinstance(r.value.args[0], ast.BinOp)]
    ok = len(conj) == 1 and isinstance(conj[0].value.args[0].op, ast.BitAnd) and \
        {norm(conj[0].value.args[0].left), norm(conj[0].value.args[0].right)} == {f"{ps[0]}._loc_stack_checker", f"{ps[2]}.loc_stack_checker"}
    if not ok:
        res.add(Finding("C10", "BOUND.conjunction", m.rel, "LocStackBoundingProvider._process_request_checker",
                        "; ".join(norm(r.value) for r in conj) or "no conjunction",
                        "bound(pred, provider) must match exactly when pred AND the provider's own checker match", fn.lineno))
    ok2 = len(plain) == 1 and norm(plain[0].value.args[0]) == f"{ps[0]}._loc_stack_checker"
    if ok2:
        iff = m.parent(plain[0])
        ok2 = isinstance(iff, ast.If) and "AlwaysTrueRequestChecker" in norm(iff.test)
    if not ok2:
        res.add(Finding("C10", "BOUND.always-true", m.rel, "LocStackBoundingProvider._process_request_checker",
                        "; ".join(norm(r.value) for r in plain) or "missing",
                        "a provider that accepts every located request is restricted to pred alone", fn.lineno))
    # every handler of the wrapped provider is kept, with the processed checker
    gh = _meth(ci, "get_request_handlers")
    res.evaluated("bound:all-handlers", True)
    lcs = [x for x in ast.walk(gh) if isinstance(x, ast.ListComp)]
    ok3 = len(lcs) == 1 and not lcs[0].generators[0].ifs and "self._provider.get_request_handlers()" == norm(lcs[0].generators[0].iter) \
        and "self._process_request_checker(" in norm(lcs[0].elt)
    if not ok3:
        res.add(Finding("C10", "BOUND.handlers", m.rel, "LocStackBoundingProvider.get_request_handlers", norm(gh)[:160],
                        "bounding must keep every handler of the provider and only narrow its checker", gh.lineno))


# ------------------------------------------------------------------------------------------ router fast path / facade bound
def fast_path_classes_final(repo: Repo, m: ModuleInfo, res: CheckResult) -> None:
    """The router selects its table fast path with isinstance(checker, X) and then routes by X's key alone (the origin). A
    checker class that SUBCLASSES X to add a condition (exact type = origin + arguments) is routed by the origin only: inside
    a retort `loader(list[int], f)` then serves list[str]. Every class tested that way must have no subclass."""
    rm = repo.mod("retort/routers")
    n = 0
    for c in ast.walk(rm.tree):
        if isinstance(c, ast.Call) and norm(c.func) == "isinstance" and len(c.args) == 2:
            for t in (c.args[1].elts if isinstance(c.args[1], ast.Tuple) else [c.args[1]]):
                r = repo.resolve_expr_static(rm, t) if isinstance(t, (ast.Name, ast.Attribute)) else None
                if r is None or r.kind != "class" or r.cls is None or r.cls.module is not m:
                    continue
                n += 1
                res.evaluated(f"router-fast-path:{r.cls.name}", True)
                subs = [x.name for x in repo.all_classes() if x is not r.cls and repo.is_subclass(x, r.cls.name)]
                if subs:
                    res.add(Finding("C10", "ROUTER.fast-path-class-subclassed", m.rel, r.cls.name, f"{', '.join(sorted(subs))} < {r.cls.name}",
                                    f"retort/routers.py recognises {r.cls.name} with isinstance and routes by its key alone, but "
                                    f"{sorted(subs)} subclass it and add a condition: inside a retort their predicate is reduced to the "
                                    f"{r.cls.name} part (a parametrised type predicate matches every type of the same origin) while "
                                    "create_loc_stack_checker(...).check_loc_stack stays exact", r.cls.node.lineno))
    res.count("ROUTER.fast-path-classes", n, 1)


def router_table_stores(repo: Repo, m: ModuleInfo, res: CheckResult) -> None:
    """The router replaces a run of (checker, handler) pairs by one origin -> handler table. An entry of that table stands for the
    WHOLE checker of the pair it replaces, so it may be made only for a checker that IS an origin comparison: the key is the
    `.origin` of the very object an isinstance test against a fast-path class has accepted. Keys collected from the parts of a
    compound checker (the alternatives of an `|`, the members of `P[A, 'name']`) leave out every part that is not an origin
    comparison: inside a retort the predicate is reduced to its class alternatives while check_loc_stack stays exact."""
    rm = repo.mod("retort/routers")
    tables = set()
    for a in ast.walk(rm.tree):
        if isinstance(a, ast.AnnAssign) and "OriginToHandler" in norm(a.annotation) and isinstance(a.target, ast.Attribute):
            tables.add(norm(a.target))
    if not tables:
        raise AnalysisError("retort/routers.py: no attribute annotated OriginToHandler (the grouped origin table)")
    n = 0
    for st in ast.walk(rm.tree):
        if not (isinstance(st, ast.Assign) and len(st.targets) == 1 and isinstance(st.targets[0], ast.Subscript)
                and norm(st.targets[0].value) in tables):
            continue
        n += 1
        qual = rm.qualname(st)
        fn = rm.enclosing_function(st)
        key = st.targets[0].slice
        res.evaluated(f"router-table-store:{qual}:{norm(key)}", True)
        # the expression the key stands for
        src = key
        loop_over = None
        if isinstance(key, ast.Name):
            assigns = [a for a in ast.walk(fn) if isinstance(a, ast.Assign) and len(a.targets) == 1 and norm(a.targets[0]) == key.id]
            loops = [f for f in ast.walk(fn) if isinstance(f, (ast.For, ast.comprehension)) and key.id in {x.id for x in ast.walk(f.target) if isinstance(x, ast.Name)}]
            if loops:
                loop_over = loops[0].iter
            elif len(assigns) == 1:
                src = assigns[0].value
            else:
                raise AnalysisError(f"{qual}: cannot tell where the table key `{key.id}` comes from")
        if loop_over is not None:
            it = loop_over
            if isinstance(it, ast.Name):
                ia = [a for a in ast.walk(fn) if isinstance(a, ast.Assign) and len(a.targets) == 1 and norm(a.targets[0]) == it.id]
                if len(ia) == 1:
                    it = ia[0].value
            res.add(Finding("C10", "ROUTER.table-entry-not-the-whole-checker", rm.rel, qual, norm(st)[:100],
                            f"`{norm(st)}` runs once per element of `{norm(it)[:80]}`: the table entries are collected from the parts of a "
                            "checker instead of standing for one origin comparison; every part that is not an origin comparison (an "
                            "abstract class, a field name, a pattern chain inside `P[A] | ...` / `P[A, 'name']`) is dropped from the "
                            "predicate when a retort routes the request, while create_loc_stack_checker(...).check_loc_stack stays exact",
                            st.lineno))
            continue
        if not (isinstance(src, ast.Attribute) and src.attr == "origin"):
            raise AnalysisError(f"{qual}: the table key `{norm(src)[:60]}` is not the origin of a checker")
        tested = norm(src.value)
        # dominating isinstance(<tested>, <fast-path class>) on the true branch
        ok = False
        node: Optional[ast.AST] = st
        while node is not None and node is not fn:
            par = rm.parent(node)
            if isinstance(par, ast.If) and node in par.body:
                for c in ast.walk(par.test):
                    if isinstance(c, ast.Call) and norm(c.func) == "isinstance" and len(c.args) == 2 and norm(c.args[0]) == tested:
                        neg = isinstance(rm.parent(c), ast.UnaryOp)
                        in_or = any(isinstance(b, ast.BoolOp) and isinstance(b.op, ast.Or) for b in ast.walk(par.test))
                        r = repo.resolve_expr_static(rm, c.args[1]) if isinstance(c.args[1], (ast.Name, ast.Attribute)) else None
                        if not neg and not in_or and r is not None and r.kind == "class" and r.cls is not None and r.cls.module is m:
                            ok = True
            node = par
        if not ok:
            res.add(Finding("C10", "ROUTER.table-entry-not-the-whole-checker", rm.rel, qual, norm(st)[:100],
                            f"`{norm(st)}`: the key is `{norm(src)}` but no isinstance test of `{tested}` against an origin checker class "
                            "guards the store: the pair is replaced by a table entry although its checker may demand more than the origin",
                            st.lineno))
    res.count("ROUTER.table-stores", n, 1)


def facade_bound_wraps(repo: Repo, res: CheckResult) -> None:
    """bound(pred, provider) limits a provider by WRAPPING it; the provider object itself (which `enum_by_name()` and friends hand
    out and users reuse) must never be modified, or a second bound() of the same object also narrows the first one."""
    fm = repo.mod("provider/facade/provider")
    n = 0
    for fn in [f for f in fm.tree.body if isinstance(f, ast.FunctionDef)]:
        provs = {a.arg for a in fn.args.args + fn.args.kwonlyargs
                 if a.arg == "provider" or (a.annotation is not None and norm(a.annotation) == "Provider")}
        if not provs:
            continue
        n += 1
        res.evaluated(f"facade-bound:{fn.name}", True)
        for st in ast.walk(fn):
            tgts = st.targets if isinstance(st, ast.Assign) else [st.target] if isinstance(st, (ast.AugAssign, ast.AnnAssign)) else []
            for t in tgts:
                base = t
                while isinstance(base, (ast.Attribute, ast.Subscript)):
                    base = base.value
                if isinstance(t, (ast.Attribute, ast.Subscript)) and isinstance(base, ast.Name) and base.id in provs:
                    res.add(Finding("C10", "BOUND.provider-modified-in-place", fm.rel, fn.name, norm(st)[:100],
                                    f"`{norm(st)[:80]}` changes the provider that was passed in instead of wrapping it: the same provider "
                                    "object bound a second time (or used on its own) is narrowed by the first predicate as well -- "
                                    "bound(p2, x) after bound(p1, x) matches p2 & p1", st.lineno))
            if isinstance(st, ast.Call) and norm(st.func) in ("setattr", "object.__setattr__") and st.args \
                    and isinstance(st.args[0], ast.Name) and st.args[0].id in provs:
                res.add(Finding("C10", "BOUND.provider-modified-in-place", fm.rel, fn.name, norm(st)[:100],
                                f"`{norm(st)[:80]}` changes the provider that was passed in", st.lineno))
    res.count("BOUND.facade-functions", n, 2)
