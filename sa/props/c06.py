"""C06 — debug_trail changes only error reporting, never what is accepted or returned."""
from __future__ import annotations

import ast
from typing import Dict, List, Optional, Tuple

from ..closures import provider_classes
from ..core import AnalysisError, CheckResult, Finding, Repo, norm
from ..esc import Esc
from ..modes import DT, closures_for, ext_callables_for
from ..sib import Signature, diff, signature_of
from ..values import Resolver

LEVEL = "other"
EXHAUSTIVE = True
EXPLANATION = (
    "Sibling cross-check of the three debug_trail variants of every loader and dumper closure a builtin provider can "
    "hand out: the provider's mode dispatch is evaluated abstractly for every (debug_trail, strict_coercion) pair, each "
    "resulting closure (with the generator mapper bound in that mode inlined) is summarised by abstract interpretation "
    "into an acceptance signature -- which operations probe the raw datum (len / iteration / attribute / subscript), "
    "which type tests guard it, which LoadError classes reject it, whether element loaders are applied, what builds the "
    "result -- and the signatures of DISABLE, FIRST and ALL must be equal after erasing reporting (trail annotation, "
    "error collection, exception groups). Model loaders/dumpers: the same comparison on the emitted programs (tier G) "
    "and the ALL-mode collect rule shared with C04."
)
RULE = "one evaluation = one (provider, role, strictness) sibling group; non-trivial = the three modes are different closures"
ASSUMPTIONS = ["equality of returned values beyond the identity of the building expression is not decided",
               "the error class of the final union failure (LoadError vs UnionLoadError) is reporting"]


def group_findings(repo: Repo, res: CheckResult, prop: str, ci, meth: str, role: str, strict: bool, eng: Esc) -> int:
    per_mode: Dict[str, List] = {}
    for dt in DT:
        per_mode[dt] = closures_for(repo, ci, meth, dt, strict)
    ids = {dt: [id(f.fn) for f in fs] + [id(b.fn) for f in fs for b in f.bindings.values()] for dt, fs in per_mode.items()}
    # a mode that can hand out a bare builtin (`return tuple`) where its siblings hand out guarded closures skips their guards
    ext = {dt: ext_callables_for(repo, ci, meth, dt, strict) for dt in DT}
    if len({tuple(v) for v in ext.values()}) > 1:
        odd = [dt for dt in DT if ext[dt] != ext["FIRST"]] or ["FIRST"]
        res.evaluated(f"sib:{ci.name}:{role}:{'strict' if strict else 'lax'}:ext", True)
        res.add(Finding(prop, "SIB.mode-disagreement", ci.module.rel, f"{ci.name}:{role}:{'strict' if strict else 'lax'}",
                        f"bare callable handed out in {odd}: {ext}",
                        f"debug_trail={'/'.join(odd)} can hand out the bare builtin {sorted(set(sum(ext.values(), [])))} as the {ci.name} {role} "
                        f"while the other modes hand out closures that validate (length, type) before converting: data the other "
                        "modes reject is accepted in that mode", ci.node.lineno))
    if not any(per_mode.values()):
        return 0
    if ids["DISABLE"] == ids["FIRST"] == ids["ALL"]:
        res.evaluated(f"sib:{ci.name}:{role}:{'strict' if strict else 'lax'}", False)
        return 0
    lens = {len(v) for v in per_mode.values()}
    if len(lens) != 1:
        return unaligned_group(repo, res, prop, ci, role, strict, eng, per_mode)
    n = 0
    for i in range(lens.pop()):
        sigs = {dt: signature_of(repo, eng, per_mode[dt][i]) for dt in DT}
        n += 1
        res.evaluated(f"sib:{ci.name}:{role}:{'strict' if strict else 'lax'}:{i}", True)
        res.sample({"provider": ci.name, "role": role, "strict": strict,
                    "signatures": {dt: s.as_dict() for dt, s in sigs.items()}}, limit=6)
        base = sigs["FIRST"]
        for other in ("DISABLE", "ALL"):
            d = diff(base, sigs[other])
            if d:
                fv = per_mode[other][i]
                res.add(Finding(
                    prop, "SIB.mode-disagreement", fv.module.rel, f"{ci.name}:{role}:{'strict' if strict else 'lax'}",
                    f"{sigs['FIRST'].name} vs {sigs[other].name}: " + "; ".join(d),
                    f"debug_trail={other} and debug_trail=FIRST variants of the {ci.name} {role} do not have the same "
                    f"acceptance signature ({'; '.join(d)}): the same datum is accepted or rejected (or rejected with "
                    f"another error class) depending on the debug mode", fv.fn.lineno))
    return n


def unaligned_group(repo: Repo, res: CheckResult, prop: str, ci, role: str, strict: bool, eng: Esc, per_mode) -> int:
    """The modes hand out different numbers of closures (one mode has a specialised variant the others lack). The
    variants are grouped by the non-mode branch decisions of the entry method under which they are handed out; inside a
    group every variant of a mode must have a counterpart with an equal acceptance signature in the sibling mode."""
    tag = f"{ci.name}:{role}:{'strict' if strict else 'lax'}"
    groups: Dict[Tuple, Dict[str, List]] = {}
    for dt in DT:
        for fv in per_mode[dt]:
            groups.setdefault(fv.entry_conds, {d: [] for d in DT})[dt].append((fv, signature_of(repo, eng, fv)))
    res.evaluated(f"sib:{tag}:unaligned", True)
    for conds, g in groups.items():
        where = " and ".join(("" if taken else "not ") + f"({t})" for t, taken in conds) or "always"
        for other in ("DISABLE", "ALL"):
            for a, b in (("FIRST", other), (other, "FIRST")):
                for fv, sg in g[b]:
                    ds = [diff(x, sg) if a == "FIRST" else diff(sg, x) for _, x in g[a]]
                    if not ds or all(ds):
                        best = min(ds, key=len) if ds else [f"debug_trail={a} hands out nothing on that path"]
                        res.add(Finding(
                            prop, "SIB.mode-disagreement", fv.module.rel, tag,
                            f"{sg.name} has no counterpart in {a}: " + "; ".join(best),
                            f"on the dispatch path [{where}] debug_trail={b} can hand out the {ci.name} {role} variant "
                            f"`{sg.name}` whose acceptance signature equals that of no debug_trail={a} variant handed out "
                            f"on the same path (closest differs by: {'; '.join(best)}): the same datum is accepted, rejected "
                            f"or answered differently depending on the debug mode", fv.fn.lineno))
    return 1


def run(repo: Repo, tier: str, res: CheckResult, seed: int = 0) -> None:
    from .c20 import stateful_closures
    stateful_closures(repo, res, "C06", "SIB.mode-closure-keeps-state",
                      "the closure of ONE debug_trail mode carries state from call to call (and from an outer to a re-entrant inner call of a recursive type): what it accepts and returns depends on earlier input, its stateless siblings of the other modes do not, so the modes disagree")
    R = Resolver(repo)
    n_groups = 0
    for meth, role in (("provide_loader", "loader"), ("provide_dumper", "dumper")):
        eng = Esc(repo, R, role=role)
        for ci in provider_classes(repo, meth):
            if "integrations/" in ci.module.rel or ci.module.rel.endswith("provider_template.py"):
                continue
            found = repo.find_method(ci, meth)
            if found is None or not found[1].body:
                continue
            for strict in (True, False):
                n_groups += group_findings(repo, res, "C06", ci, meth, role, strict, eng)
    res.count("SIB.mode-sibling-groups", n_groups, 12)
    swallow_rule(repo, R, res)
    # ALL mode must visit every independent leaf: the error DISABLE raises first (it evaluates value before key in
    # `result[key_loader(k)] = value_loader(v)`) has to be among the collected ones (shared rule with C05)
    from . import c05 as _c05
    sub = CheckResult("C05")
    _c05.trail_pairing(repo, R, sub)
    res.evaluated("sib:all-visits-every-leaf", True)
    for f in sub.findings:
        if f.rule == "ALL.skips-independent-leaf":
            res.add(Finding("C06", "SIB.all-mode-skips-leaf", f.file, f.qualname, f.construct,
                            "debug_trail=ALL skips an element loader after a sibling of the same item failed, DISABLE and FIRST "
                            "apply it: for an item whose parts are both invalid the error the other modes raise is not among "
                            "the errors ALL collects (" + f.message[:200] + ")", f.line))
    unexpected_flag_monotone(repo, res)
    # generated programs
    from .. import genprog
    genprog.c06_checks(repo, tier, res, seed)
    from .c11 import caches_not_carried_over
    caches_not_carried_over(repo, res, prop="C06", rule="SIB.loaders-shared-across-debug-trail-modes",
                            consequence="a retort derived with replace(debug_trail=...) runs the loaders of the original's mode")
    res.assumptions = list(ASSUMPTIONS)


def swallow_rule(repo: Repo, R: Resolver, res: CheckResult) -> None:
    """DISABLE and FIRST variants let an unexpected (non-LoadError) exception of an element/field/case loader propagate; a
    variant that catches `Exception` must therefore never complete normally afterwards (SWALLOW, sa/swallow.py)"""
    from .. import swallow
    from ..closures import Inventory
    from ..core import func_params
    inv = Inventory(repo, R)
    seen = set()
    todo = []
    for c in inv.closures:
        if c.kind == "func" and c.fctx is not None:
            todo.append((c.fctx.module, c.fctx.fn))
    for m in repo.modules.values():
        if "/morphing/" not in m.rel and "/conversion/" not in m.rel:
            continue
        for node in ast.walk(m.tree):
            if isinstance(node, ast.FunctionDef) and m.enclosing_function(node) is not None and m.enclosing_class(node) is not None:
                todo.append((m, node))
    n = n_handlers = 0
    for m, fn in todo:
        if id(fn) in seen:
            continue
        seen.add(id(fn))
        if not any(isinstance(x, ast.Try) for x in ast.walk(fn)):
            continue
        sw = swallow.analyse(fn)
        if not sw.handlers_seen:
            continue
        n += 1
        n_handlers += sw.handlers_seen
        qual = m.qualname(fn)
        res.evaluated(f"swallow:{m.rel}:{qual}", True)
        for node, hline, kind in sw.findings:
            what = f"`{norm(node)[:80]}`" if kind == "return" else "the end of the body"
            res.add(Finding("C06", "SWALLOW.unexpected-error-then-success", m.rel, qual,
                            (norm(node)[:100] if kind == "return" else "falls off the end") + " after except Exception",
                            f"after the handler at line {hline} caught an unexpected exception (anything that is not a LoadError) "
                            f"the closure can still reach {what} and complete normally: in this mode the datum is accepted while "
                            "the DISABLE/FIRST variants propagate the exception", getattr(node, "lineno", fn.lineno)))
    res.count("SWALLOW.closures-with-broad-handler", n, 8)
    res.coverage["broad_handlers"] = n_handlers


def unexpected_flag_monotone(repo: Repo, res: CheckResult) -> None:
    """ALL-mode loaders remember in a flag that a non-LoadError was collected and then raise a plain exception group instead
    of an AggregateLoadError (a LoadError, which an enclosing Union or model treats as "this case does not fit"). The flag
    must be monotone: inside the loop it may only be set to the constant True. `flag = not isinstance(e, LoadError)` lets a
    later LoadError clear it, the unexpected error is then delivered as a LoadError and ALL accepts (through the next union
    case) what DISABLE and FIRST reject with the unexpected exception."""
    n = 0
    for m in repo.modules.values():
        if "/morphing/" not in m.rel:
            continue
        for fn in [f for f in ast.walk(m.tree) if isinstance(f, ast.FunctionDef)]:
            inits = {t.id for st in ast.walk(fn) if isinstance(st, ast.Assign) and isinstance(st.value, ast.Constant) and st.value.value is False
                     for t in st.targets if isinstance(t, ast.Name)}
            tested = {x.id for i in ast.walk(fn) if isinstance(i, ast.If) for x in ast.walk(i.test) if isinstance(x, ast.Name)}
            flags = {f for f in inits & tested if "unexpected" in f or "error" in f}
            for flag in flags:
                stores = [st for st in ast.walk(fn) if isinstance(st, (ast.Assign, ast.AugAssign, ast.AnnAssign))
                          and any(isinstance(t, ast.Name) and t.id == flag for t in (st.targets if isinstance(st, ast.Assign) else [st.target]))]
                in_handlers = [st for st in stores if m.enclosing_function(st) is fn
                               and any(isinstance(p, ast.ExceptHandler) for p in _ancestors(m, st, fn))]
                if not in_handlers:
                    continue
                n += 1
                res.evaluated(f"flag-monotone:{m.rel}:{m.qualname(fn)}:{flag}", True)
                for st in in_handlers:
                    v = getattr(st, "value", None)
                    if not (isinstance(st, ast.Assign) and isinstance(v, ast.Constant) and v.value is True):
                        res.add(Finding("C06", "SIB.unexpected-flag-not-monotone", m.rel, m.qualname(fn), norm(st)[:100],
                                        f"`{norm(st)[:80]}`: the flag that remembers an unexpected (non-LoadError) exception can be cleared by a "
                                        "later item; the group is then raised as AggregateLoadError, which an enclosing Union / model in "
                                        "ALL mode treats as an ordinary mismatch -- ALL accepts through the next case what DISABLE and "
                                        "FIRST reject with the unexpected exception", st.lineno))
    res.count("SIB.unexpected-flags", n, 3)


def _ancestors(m, node, stop):
    p = m.parent(node)
    while p is not None and p is not stop:
        yield p
        p = m.parent(p)
