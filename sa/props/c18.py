"""C18 — Enum and Flag representations are bijections on their members (clauses: DESIGN.md 3/C18)."""
from __future__ import annotations

import ast
from typing import Dict, List, Optional, Set, Tuple

from ..core import AnalysisError, CheckResult, ClassInfo, Finding, ModuleInfo, Repo, norm, walk_no_nested

LEVEL = "other"
EXHAUSTIVE = True
EXPLANATION = (
    "(1) Creation totality: every call of a partial stdlib function (math.log2/log/log10/sqrt, division, reduce without "
    "initial value over a filtered sequence) on an enum member value inside the factories of the five enum/flag "
    "providers is dominated by a guard excluding the values where it is undefined (zero-valued and negative flag "
    "members are legal). (2) Mapping inversion: generate_for_loading is the exact key/value inversion of "
    "_generate_mapping and generate_for_dumping returns it unchanged; loader and dumper of one provider feed the same "
    "case expression (modulo the documented reversal) into the same generator object. (3) Flag exact value: the factory "
    "refuses negative and non-contiguous masks before the loader exists and the loader's range test uses that mask. "
    "(4) Exact-value enum loader rejects members themselves (Enum(member) is member). The exception-escape analysis of "
    "the enum/flag loader closures themselves is part of C04."
)
RULE = "one evaluation = one partial-function call site / one inversion or pairing obligation"
ASSUMPTIONS = ["enum classes have at least one member", "bijectivity for a concrete enum (injective name mapping, alias "
               "handling) needs the enum's values and is not decided"]

EP = "morphing/enum_provider"
PARTIAL = {"math.log2": "<= 0", "math.log": "<= 0", "math.log10": "<= 0", "math.sqrt": "< 0", "log2": "<= 0"}


def run(repo: Repo, tier: str, res: CheckResult, seed: int = 0) -> None:
    m = repo.mod(EP)
    partial_calls(repo, m, res)
    inversion(repo, m, res)
    same_cases(repo, m, res)
    flag_exact(repo, m, res)
    exact_value_loader(repo, m, res)
    res.assumptions = list(ASSUMPTIONS)


def _value_exprs(e: ast.AST) -> List[str]:
    return [norm(n) for n in ast.walk(e) if isinstance(n, ast.Attribute) and n.attr == "value"]


def _guards_positive(test: ast.AST, vexpr: str) -> bool:
    """test (true) implies vexpr > 0 (or != 0 for functions undefined only at 0 is not enough for log)"""
    for c in ast.walk(test):
        if isinstance(c, ast.Compare) and len(c.ops) == 1:
            l, r = norm(c.left), norm(c.comparators[0])
            if l == vexpr and isinstance(c.ops[0], ast.Gt) and r in ("0",):
                return True
            if l == vexpr and isinstance(c.ops[0], ast.GtE) and r in ("1",):
                return True
            if r == vexpr and isinstance(c.ops[0], ast.Lt) and l in ("0",):
                return True
    return False


def partial_calls(repo: Repo, m: ModuleInfo, res: CheckResult) -> None:
    n = 0
    for node in ast.walk(m.tree):
        if not isinstance(node, ast.Call):
            continue
        fname = norm(node.func)
        if fname not in PARTIAL or not node.args:
            continue
        vals = _value_exprs(node.args[0])
        if not vals:
            continue
        n += 1
        vexpr = vals[0]
        qual = m.qualname(node)
        res.evaluated(f"partial:{qual}:{norm(node)}", True)
        guarded = False
        # (a) earlier operand of an enclosing `and`, (b) comprehension condition / enclosing if-test, (c) try/except
        p = m.parent(node)
        child: ast.AST = node
        while p is not None and not isinstance(p, (ast.FunctionDef, ast.Module)):
            if isinstance(p, ast.BoolOp) and isinstance(p.op, ast.And):
                idx = next((i for i, v in enumerate(p.values) if v is child), None)
                if idx is not None and any(_guards_positive(v, vexpr) for v in p.values[:idx]):
                    guarded = True
            if isinstance(p, ast.If) and any(child is s for s in p.body) and _guards_positive(p.test, vexpr):
                guarded = True
            if isinstance(p, ast.IfExp) and child is p.body and _guards_positive(p.test, vexpr):
                guarded = True
            if isinstance(p, ast.comprehension):
                pass
            if isinstance(p, (ast.ListComp, ast.GeneratorExp, ast.SetComp)):
                for g in p.generators:
                    for cond in g.ifs:
                        if cond is not child and not any(cond is x for x in ast.walk(child)) and _guards_positive(cond, vexpr):
                            # only conditions evaluated BEFORE the call: earlier ifs of the generator
                            if cond.lineno < node.lineno or (cond.lineno == node.lineno and cond.col_offset < node.col_offset):
                                guarded = True
            if isinstance(p, ast.Try) and any(child is s for s in p.body) and any(
                    h.type is None or "ValueError" in norm(h.type) or "Exception" in norm(h.type) for h in p.handlers):
                guarded = True
            child = p
            p = m.parent(p)
        res.sample({"call": norm(node), "in": qual, "guarded": guarded})
        if not guarded:
            res.add(Finding("C18", "PARTIAL.unguarded", m.rel, qual, norm(node),
                            f"`{norm(node)}` is undefined for member values {PARTIAL[fname]} and nothing excludes them: a "
                            f"flag class with a zero-valued member (NONE = 0) makes loader/dumper creation fail with "
                            f"ValueError although the documentation does not exclude such classes", node.lineno))
    res.count("PARTIAL.call-sites", n, 0)
    # zero-expected rule: keep a positive fixture alive
    fixture = ast.parse("def f(enum):\n    return [c for c in enum if not math.log2(c.value) % 1]\n")
    calls = [c for c in ast.walk(fixture) if isinstance(c, ast.Call) and norm(c.func) in PARTIAL and _value_exprs(c.args[0])]
    if len(calls) != 1:
        raise AnalysisError("PARTIAL rule fixture no longer matches")
    res.evaluated("partial:fixture", True)


def inversion(repo: Repo, m: ModuleInfo, res: CheckResult) -> None:
    ci = m.classes.get("BaseEnumMappingGenerator")
    if ci is None:
        raise AnalysisError("anchor vanished: BaseEnumMappingGenerator")
    fl = ci.methods.get("generate_for_loading")
    fd = ci.methods.get("generate_for_dumping")
    if fl is None or fd is None:
        raise AnalysisError("anchor vanished: generate_for_loading/generate_for_dumping")
    res.evaluated("inverse:generate_for_dumping", True)
    rets = [r for r in ast.walk(fd) if isinstance(r, ast.Return) and r.value is not None]
    cases_param = fd.args.args[1].arg
    if not (len(rets) == 1 and norm(rets[0].value) == f"self._generate_mapping({cases_param})"):
        res.add(Finding("C18", "INVERSE.dumping-mapping", m.rel, "BaseEnumMappingGenerator.generate_for_dumping",
                        "; ".join(norm(r) for r in rets), "generate_for_dumping must return _generate_mapping(cases) "
                        "unchanged (the loader inverts exactly this mapping)", fd.lineno))
    res.evaluated("inverse:generate_for_loading", True)
    rets = [r for r in ast.walk(fl) if isinstance(r, ast.Return) and r.value is not None]
    ok = False
    lparam = fl.args.args[1].arg
    if len(rets) == 1 and isinstance(rets[0].value, ast.DictComp):
        dc = rets[0].value
        g = dc.generators[0]
        if isinstance(g.target, ast.Tuple) and len(g.target.elts) == 2 and not g.ifs and len(dc.generators) == 1 \
                and norm(g.iter) == f"self._generate_mapping({lparam}).items()":
            k, v = norm(g.target.elts[0]), norm(g.target.elts[1])
            ok = norm(dc.key) == v and norm(dc.value) == k
    if not ok:
        res.add(Finding("C18", "INVERSE.loading-mapping", m.rel, "BaseEnumMappingGenerator.generate_for_loading",
                        "; ".join(norm(r) for r in rets)[:160],
                        "generate_for_loading must be the exact key/value inversion of _generate_mapping(cases) over all "
                        "items (no filtering, no transformation): otherwise load(dump(member)) is not member", fl.lineno))
    # both are @final: subclasses customise only _generate_mapping
    for f in (fl, fd):
        if not any(norm(d) in ("final", "typing.final") for d in f.decorator_list):
            res.add(Finding("C18", "INVERSE.not-final", m.rel, f"BaseEnumMappingGenerator.{f.name}", f.name,
                            "the loading/dumping pair must stay final so that subclasses cannot desynchronise them",
                            f.lineno))


def _cases_source(repo: Repo, ci: ClassInfo, fn: ast.FunctionDef, which: str) -> Optional[Tuple[str, bool]]:
    """(normalised source expression of the cases argument, reversed?) of the generate_for_<which> call"""
    calls = [c for c in ast.walk(fn) if isinstance(c, ast.Call) and isinstance(c.func, ast.Attribute)
             and c.func.attr == f"generate_for_{which}" and "_mapping_generator" in norm(c.func.value)]
    if not calls:
        return None
    arg = calls[0].args[0]
    defs: Dict[str, List[ast.expr]] = {}
    for node in walk_no_nested(fn, include_root=False):
        if isinstance(node, ast.Assign) and isinstance(node.targets[0], ast.Name):
            defs.setdefault(node.targets[0].id, []).append(node.value)
    rev = False
    srcs: Set[str] = set()

    visited: Set[int] = set()

    def expand(e: ast.expr, depth=0):
        nonlocal rev
        if depth > 8:
            srcs.add(norm(e))
            return
        if isinstance(e, ast.Name) and e.id in defs:
            todo = [d for d in defs[e.id] if id(d) not in visited]
            for d in todo:
                visited.add(id(d))
                expand(d, depth + 1)
            return
        if isinstance(e, ast.Call) and norm(e.func) in ("tuple", "list") and e.args:
            expand(e.args[0], depth + 1)
            return
        if isinstance(e, ast.Call) and norm(e.func) == "reversed" and e.args:
            rev = True
            expand(e.args[0], depth + 1)
            return
        srcs.add(norm(e))
    expand(arg)
    return " | ".join(sorted(srcs)), rev


def same_cases(repo: Repo, m: ModuleInfo, res: CheckResult) -> None:
    n = 0
    for ci in m.classes.values():
        ml, md = ci.methods.get("_make_loader"), ci.methods.get("_make_dumper")
        if ml is None or md is None:
            continue
        sl, sd = _cases_source(repo, ci, ml, "loading"), _cases_source(repo, ci, md, "dumping")
        if sl is None and sd is None:
            continue
        n += 1
        res.evaluated(f"pair:{ci.name}", True)
        res.sample({"provider": ci.name, "loader_cases": sl, "dumper_cases": sd})
        if sl is None or sd is None or sl[0] != sd[0]:
            res.add(Finding("C18", "PAIR.different-cases", m.rel, ci.name, f"loading: {sl} / dumping: {sd}",
                            "loader and dumper of one provider derive their tables from different member sets: a member the "
                            "dumper can emit is unknown to the loader (or vice versa)", ci.node.lineno))
        # wrong-direction use
        for fn, bad in ((ml, "dumping"), (md, "loading")):
            if any(isinstance(c, ast.Call) and isinstance(c.func, ast.Attribute) and c.func.attr == f"generate_for_{bad}"
                   for c in ast.walk(fn)):
                res.add(Finding("C18", "PAIR.wrong-direction", m.rel, f"{ci.name}.{fn.name}", f"generate_for_{bad}",
                                f"{fn.name} uses the table of the opposite direction", fn.lineno))
    res.count("PAIR.providers", n, 2)


def flag_exact(repo: Repo, m: ModuleInfo, res: CheckResult) -> None:
    ci = m.classes.get("FlagByExactValueProvider")
    if ci is None or "_make_loader" not in ci.methods:
        raise AnalysisError("anchor vanished: FlagByExactValueProvider._make_loader")
    fn = ci.methods["_make_loader"]
    res.evaluated("flag-exact:mask-validation", True)
    raises = []
    for node in fn.body:
        if isinstance(node, ast.If) and any(isinstance(s, ast.Raise) and "CannotProvide" in norm(s) for s in node.body):
            raises.append(norm(node.test))
    neg = any("< 0" in t for t in raises)
    contiguous = any("!=" in t and ("all_bits" in t or "bit_length" in t) for t in raises)
    if not neg:
        res.add(Finding("C18", "FLAG.negative-mask", m.rel, "FlagByExactValueProvider._make_loader", "; ".join(raises),
                        "flags with negative values must be refused at creation (documented exclusion)", fn.lineno))
    if not contiguous:
        res.add(Finding("C18", "FLAG.skipped-bits", m.rel, "FlagByExactValueProvider._make_loader", "; ".join(raises),
                        "flags with skipped bits must be refused at creation: the loader's range test would accept "
                        "integers that are not a combination of members", fn.lineno))
    # all_bits = 2 ** mask.bit_length() - 1
    ab = [n for n in ast.walk(fn) if isinstance(n, ast.Assign) and norm(n.targets[0]) == "all_bits"]
    if ab and norm(ab[0].value).replace(" ", "") not in ("2**flag_mask.bit_length()-1", "(1<<flag_mask.bit_length())-1"):
        res.add(Finding("C18", "FLAG.skipped-bits", m.rel, "FlagByExactValueProvider._make_loader", norm(ab[0]),
                        "contiguity test must compare the mask with 2**bit_length - 1", ab[0].lineno))
    # loader range test
    cl = [d for d in fn.body if isinstance(d, ast.FunctionDef)]
    res.evaluated("flag-exact:range", True)
    if len(cl) != 1:
        raise AnalysisError("FlagByExactValueProvider._make_loader: expected one closure")
    tests = [norm(n.test).replace(" ", "") for n in cl[0].body if isinstance(n, ast.If)]
    d = cl[0].args.args[0].arg
    ok_range = any(t in (f"{d}<0or{d}>flag_mask", f"{d}>flag_maskor{d}<0", f"not0<={d}<=flag_mask") for t in tests)
    ok_type = any(t == f"type({d})isnotint" for t in tests)
    if not ok_range:
        res.add(Finding("C18", "FLAG.range", m.rel, "FlagByExactValueProvider._make_loader.flag_loader", "; ".join(tests),
                        "the loader must reject integers outside [0, mask]", cl[0].lineno))
    if not ok_type:
        res.add(Finding("C18", "FLAG.type", m.rel, "FlagByExactValueProvider._make_loader.flag_loader", "; ".join(tests),
                        "the loader must accept exact ints only (bool is not the representation of a flag)", cl[0].lineno))


def exact_value_loader(repo: Repo, m: ModuleInfo, res: CheckResult) -> None:
    ci = m.classes.get("EnumExactValueProvider")
    if ci is None or "_make_loader" not in ci.methods:
        raise AnalysisError("anchor vanished: EnumExactValueProvider._make_loader")
    fn = ci.methods["_make_loader"]
    res.evaluated("enum-exact:member-not-representation", True)
    for cl in [d for d in ast.walk(fn) if isinstance(d, ast.FunctionDef) and d is not fn]:
        calls_enum = any(isinstance(c, ast.Call) and norm(c.func) == "enum" for c in ast.walk(cl))
        if not calls_enum:
            continue
        d = cl.args.args[0].arg
        guard = any(isinstance(n, ast.If) and norm(n.test).replace(" ", "") in (f"type({d})isenum", f"isinstance({d},enum)")
                    and any(isinstance(s, ast.Raise) for s in n.body) for n in cl.body)
        if not guard:
            res.add(Finding("C18", "ENUM.member-accepted", m.rel, f"EnumExactValueProvider._make_loader.{cl.name}",
                            "enum(data)", "Enum(member) returns the member, so without rejecting `type(data) is enum` the "
                            "loader accepts a datum that is not the representation (value) of a member", cl.lineno))
    # value table: built from the same members the dumper uses
    gv = ci.methods.get("_get_exact_value_to_member")
    md = ci.methods.get("_make_dumper")
    res.evaluated("enum-exact:tables", True)
    if gv is None or md is None:
        raise AnalysisError("anchor vanished: EnumExactValueProvider tables")
    t1 = [norm(n) for n in ast.walk(gv) if isinstance(n, ast.DictComp)]
    t2 = [norm(n) for n in ast.walk(md) if isinstance(n, ast.DictComp)]
    if not t1 or not t2 or "member.value: member" not in t1[0] or "member: member.value" not in t2[0]:
        res.add(Finding("C18", "ENUM.tables", m.rel, "EnumExactValueProvider", f"{t1} / {t2}",
                        "value->member and member->value tables must be inverse comprehensions over the same enum",
                        ci.node.lineno))
