"""C18 — Enum and Flag representations are bijections on their members (clauses: DESIGN.md 3/C18)."""
from __future__ import annotations

import ast
from typing import Dict, List, Optional, Set, Tuple

from ..core import AnalysisError, CheckResult, ClassInfo, Finding, ModuleInfo, Repo, norm, walk_no_nested

LEVEL = "other"
EXHAUSTIVE = True
EXPLANATION = (
    "(1) Creation totality: every call of a partial stdlib function (math.log2/log/log10/sqrt, division, reduce without "
    "initial value over a filtered sequence) on an enum member value inside the factories of the five enum/flag "
    "providers is dominated by a guard excluding the values where it is undefined (zero-valued and negative flag "
    "members are legal). (2) Mapping inversion: generate_for_loading is the exact key/value inversion of "
    "_generate_mapping and generate_for_dumping returns it unchanged; loader and dumper of one provider feed the same "
    "case expression (modulo the documented reversal) into the same generator object. (3) Flag exact value: the factory "
    "refuses negative and non-contiguous masks before the loader exists and the loader's range test uses that mask. "
    "(4) Exact-value enum loader rejects members themselves (Enum(member) is member). (5) The predicates of the enum and "
    "the flag provider families are evaluated abstractly on {plain Enum class, Flag class, other class} and must select "
    "exactly their family. (6) A `map` keyed by members is matched on (class, name), names are looked up in a table without "
    "member keys (members of str/int mixed-in enums hash and compare as their values). (7) Silent loss: the inversion needs "
    "an injectivity refusal, the member-name-list dumper a residual refusal (both absent today: known findings). The "
    "exception-escape analysis of the enum/flag loader closures themselves is part of C04."
)
RULE = "one evaluation = one partial-function call site / one inversion or pairing obligation"
ASSUMPTIONS = ["enum classes have at least one member", "bijectivity for a concrete enum (injective name mapping, alias "
               "handling) needs the enum's values and is not decided"]

EP = "morphing/enum_provider"
PARTIAL = {"math.log2": "<= 0", "math.log": "<= 0", "math.log10": "<= 0", "math.sqrt": "< 0", "log2": "<= 0"}


def run(repo: Repo, tier: str, res: CheckResult, seed: int = 0) -> None:
    m = repo.mod(EP)
    # tier G first: what the tables say stands on its own when a shape rule below loses its anchor
    from .. import genprog
    genprog.c18_checks(repo, tier, res, seed)
    partial_calls(repo, m, res)
    inversion(repo, m, res)
    same_cases(repo, m, res)
    flag_exact(repo, m, res)
    exact_value_loader(repo, m, res)
    flag_list_dumper(repo, m, res)
    flag_list_loader(repo, m, res)
    predicate_partition(repo, m, res)
    member_key_lookup(repo, m, res)
    silent_loss(repo, m, res)
    member_truthiness(repo, m, res)
    seen_before_refusals(repo, m, res)
    mapped_names_not_tested_for_truth(repo, m, res)
    flag_dumper_emits_names_of_the_cases_only(repo, m, res)
    representation_bound_by_a_lasting_predicate(repo, res)
    res.assumptions = list(ASSUMPTIONS)


def _value_exprs(e: ast.AST) -> List[str]:
    return [norm(n) for n in ast.walk(e) if isinstance(n, ast.Attribute) and n.attr == "value"]


def _guards_positive(test: ast.AST, vexpr: str) -> bool:
    """test (true) implies vexpr > 0 (or != 0 for functions undefined only at 0 is not enough for log)"""
    for c in ast.walk(test):
        if isinstance(c, ast.Compare) and len(c.ops) == 1:
            l, r = norm(c.left), norm(c.comparators[0])
            if l == vexpr and isinstance(c.ops[0], ast.Gt) and r in ("0",):
                return True
            if l == vexpr and isinstance(c.ops[0], ast.GtE) and r in ("1",):
                return True
            if r == vexpr and isinstance(c.ops[0], ast.Lt) and l in ("0",):
                return True
    return False


def partial_calls(repo: Repo, m: ModuleInfo, res: CheckResult) -> None:
    n = 0
    for node in ast.walk(m.tree):
        if not isinstance(node, ast.Call):
            continue
        fname = norm(node.func)
        if fname not in PARTIAL or not node.args:
            continue
        vals = _value_exprs(node.args[0])
        if not vals:
            continue
        n += 1
        vexpr = vals[0]
        qual = m.qualname(node)
        res.evaluated(f"partial:{qual}:{norm(node)}", True)
        guarded = False
        # (a) earlier operand of an enclosing `and`, (b) comprehension condition / enclosing if-test, (c) try/except
        p = m.parent(node)
        child: ast.AST = node
        while p is not None and not isinstance(p, (ast.FunctionDef, ast.Module)):
            if isinstance(p, ast.BoolOp) and isinstance(p.op, ast.And):
                idx = next((i for i, v in enumerate(p.values) if v is child), None)
                if idx is not None and any(_guards_positive(v, vexpr) for v in p.values[:idx]):
                    guarded = True
            if isinstance(p, ast.If) and any(child is s for s in p.body) and _guards_positive(p.test, vexpr):
                guarded = True
            if isinstance(p, ast.IfExp) and child is p.body and _guards_positive(p.test, vexpr):
                guarded = True
            if isinstance(p, ast.comprehension):
                pass
            if isinstance(p, (ast.ListComp, ast.GeneratorExp, ast.SetComp)):
                for g in p.generators:
                    for cond in g.ifs:
                        if cond is not child and not any(cond is x for x in ast.walk(child)) and _guards_positive(cond, vexpr):
                            # only conditions evaluated BEFORE the call: earlier ifs of the generator
                            if cond.lineno < node.lineno or (cond.lineno == node.lineno and cond.col_offset < node.col_offset):
                                guarded = True
            if isinstance(p, ast.Try) and any(child is s for s in p.body) and any(
                    h.type is None or "ValueError" in norm(h.type) or "Exception" in norm(h.type) for h in p.handlers):
                guarded = True
            child = p
            p = m.parent(p)
        res.sample({"call": norm(node), "in": qual, "guarded": guarded})
        if not guarded:
            res.add(Finding("C18", "PARTIAL.unguarded", m.rel, qual, norm(node),
                            f"`{norm(node)}` is undefined for member values {PARTIAL[fname]} and nothing excludes them: a "
                            f"flag class with a zero-valued member (NONE = 0) makes loader/dumper creation fail with "
                            f"ValueError although the documentation does not exclude such classes", node.lineno))
    res.count("PARTIAL.call-sites", n, 0)
    # zero-expected rule: keep a positive fixture alive
    fixture = ast.parse("def f(enum):\n    return [c for c in enum if not math.log2(c.value) % 1]\n")
    calls = [c for c in ast.walk(fixture) if isinstance(c, ast.Call) and norm(c.func) in PARTIAL and _value_exprs(c.args[0])]
    if len(calls) != 1:
        raise AnalysisError("PARTIAL rule fixture no longer matches")
    res.evaluated("partial:fixture", True)


def _mapping_source(ci: ClassInfo, m: ModuleInfo, e: ast.expr, param: str, res: CheckResult, where: str) -> Optional[str]:
    """`self._generate_mapping(<param>)` directly, or through a helper method that returns exactly that mapping (possibly
    memoised); returns the name of the helper ('' for the direct call) or None when the expression is something else"""
    if not (isinstance(e, ast.Call) and isinstance(e.func, ast.Attribute) and norm(e.func.value) == "self" and len(e.args) == 1
            and not e.keywords and norm(e.args[0]) == param):
        return None
    name = e.func.attr
    if name == "_generate_mapping":
        return ""
    helper = ci.methods.get(name)
    if helper is None:
        return None
    hp = [a.arg for a in helper.args.args if a.arg != "self"]
    if len(hp) != 1:
        return None
    # names that denote the parameter's cases (the parameter or a tuple/list copy of it)
    same = {hp[0]}
    for n in ast.walk(helper):
        if isinstance(n, ast.Assign) and isinstance(n.targets[0], ast.Name) and (
                norm(n.value) in same or (isinstance(n.value, ast.Call) and norm(n.value.func) in ("tuple", "list")
                                          and n.value.args and norm(n.value.args[0]) in same)):
            same.add(n.targets[0].id)
    gen_calls = [c for c in ast.walk(helper) if isinstance(c, ast.Call) and norm(c.func) == "self._generate_mapping"]
    if not gen_calls or any(len(c.args) != 1 or norm(c.args[0]) not in same for c in gen_calls):
        return None
    # memo: stores of the generated mapping into an attribute container, keyed by ...
    holders = {}
    for n in ast.walk(helper):
        if isinstance(n, ast.Assign):
            for t in n.targets:
                if isinstance(t, ast.Subscript) and norm(t.value).startswith("self."):
                    holders[norm(t.value)] = t.slice
    mapping_names = {norm(t) for n in ast.walk(helper) if isinstance(n, ast.Assign) and any(n.value is c for c in gen_calls)
                     for t in n.targets if isinstance(t, ast.Name)}
    for r in [x for x in ast.walk(helper) if isinstance(x, ast.Return) and x.value is not None]:
        v = r.value
        ok = any(v is c for c in gen_calls) or norm(v) in mapping_names or (
            isinstance(v, ast.Subscript) and norm(v.value) in holders)
        if not ok:
            return None
    for holder, key in holders.items():
        res.evaluated(f"inverse:memo-key:{holder}", True)
        ktxt = norm(key)
        kdef = ktxt
        for n in ast.walk(helper):
            if isinstance(n, ast.Assign) and any(norm(t) == ktxt for t in n.targets):
                kdef = norm(n.value)
        if not any(tok in kdef for tok in ("type(", "id(", "__class__")):
            res.add(Finding("C18", "INVERSE.memo-key-by-value", m.rel, f"{ci.name}.{name}", f"{holder}[{ktxt}] with {ktxt} = {kdef}",
                            f"the mapping memo `{holder}` is keyed by `{kdef}`: members of int/str mixed-in enums compare and hash "
                            "by value, so two different classes with equal member values share one entry and the second class is "
                            "dumped and loaded with the first one's table", helper.lineno))
    return name


def inversion(repo: Repo, m: ModuleInfo, res: CheckResult) -> None:
    ci = m.classes.get("BaseEnumMappingGenerator")
    if ci is None:
        raise AnalysisError("anchor vanished: BaseEnumMappingGenerator")
    fl = ci.methods.get("generate_for_loading")
    fd = ci.methods.get("generate_for_dumping")
    if fl is None or fd is None:
        raise AnalysisError("anchor vanished: generate_for_loading/generate_for_dumping")
    res.evaluated("inverse:generate_for_dumping", True)
    rets = [r for r in ast.walk(fd) if isinstance(r, ast.Return) and r.value is not None]
    cases_param = fd.args.args[1].arg
    src_d = _mapping_source(ci, m, rets[0].value, cases_param, res, "dumping") if len(rets) == 1 else None
    if src_d is None:
        res.add(Finding("C18", "INVERSE.dumping-mapping", m.rel, "BaseEnumMappingGenerator.generate_for_dumping",
                        "; ".join(norm(r) for r in rets), "generate_for_dumping must return _generate_mapping(cases) "
                        "unchanged (the loader inverts exactly this mapping)", fd.lineno))
    res.evaluated("inverse:generate_for_loading", True)
    rets = [r for r in ast.walk(fl) if isinstance(r, ast.Return) and r.value is not None]
    ok = False
    lparam = fl.args.args[1].arg
    src_l = None
    if len(rets) == 1 and isinstance(rets[0].value, ast.DictComp):
        dc = rets[0].value
        g = dc.generators[0]
        if isinstance(g.target, ast.Tuple) and len(g.target.elts) == 2 and not g.ifs and len(dc.generators) == 1 \
                and isinstance(g.iter, ast.Call) and isinstance(g.iter.func, ast.Attribute) and g.iter.func.attr == "items" \
                and not g.iter.args:
            src_l = _mapping_source(ci, m, g.iter.func.value, lparam, res, "loading")
            k, v = norm(g.target.elts[0]), norm(g.target.elts[1])
            ok = src_l is not None and norm(dc.key) == v and norm(dc.value) == k
    if not ok:
        res.add(Finding("C18", "INVERSE.loading-mapping", m.rel, "BaseEnumMappingGenerator.generate_for_loading",
                        "; ".join(norm(r) for r in rets)[:160],
                        "generate_for_loading must be the exact key/value inversion of _generate_mapping(cases) over all "
                        "items (no filtering, no transformation): otherwise load(dump(member)) is not member", fl.lineno))
    elif src_d is not None and src_l != src_d:
        res.add(Finding("C18", "INVERSE.different-sources", m.rel, "BaseEnumMappingGenerator", f"{src_l!r} vs {src_d!r}",
                        "loading and dumping tables come from different mapping sources", fl.lineno))
    # both are @final: subclasses customise only _generate_mapping
    for f in (fl, fd):
        if not any(norm(d) in ("final", "typing.final") for d in f.decorator_list):
            res.add(Finding("C18", "INVERSE.not-final", m.rel, f"BaseEnumMappingGenerator.{f.name}", f.name,
                            "the loading/dumping pair must stay final so that subclasses cannot desynchronise them",
                            f.lineno))


def _cases_source(repo: Repo, ci: ClassInfo, fn: ast.FunctionDef, which: str) -> Optional[Tuple[str, bool]]:
    """(normalised source expression of the cases argument, reversed?) of the generate_for_<which> call"""
    calls = [c for c in ast.walk(fn) if isinstance(c, ast.Call) and isinstance(c.func, ast.Attribute)
             and c.func.attr == f"generate_for_{which}" and "_mapping_generator" in norm(c.func.value)]
    if not calls:
        return None
    arg = calls[0].args[0]
    defs: Dict[str, List[ast.expr]] = {}
    for node in walk_no_nested(fn, include_root=False):
        if isinstance(node, ast.Assign) and isinstance(node.targets[0], ast.Name):
            defs.setdefault(node.targets[0].id, []).append(node.value)
    rev = False
    srcs: Set[str] = set()

    visited: Set[int] = set()

    def expand(e: ast.expr, depth=0):
        nonlocal rev
        if depth > 8:
            srcs.add(norm(e))
            return
        if isinstance(e, ast.Name) and e.id in defs:
            todo = [d for d in defs[e.id] if id(d) not in visited]
            for d in todo:
                visited.add(id(d))
                expand(d, depth + 1)
            return
        if isinstance(e, ast.Call) and norm(e.func) in ("tuple", "list") and e.args:
            expand(e.args[0], depth + 1)
            return
        if isinstance(e, ast.Call) and norm(e.func) == "reversed" and e.args:
            rev = True
            expand(e.args[0], depth + 1)
            return
        srcs.add(norm(e))
    expand(arg)
    return " | ".join(sorted(srcs)), rev


def same_cases(repo: Repo, m: ModuleInfo, res: CheckResult) -> None:
    n = 0
    for ci in m.classes.values():
        ml, md = ci.methods.get("_make_loader"), ci.methods.get("_make_dumper")
        if ml is None or md is None:
            continue
        sl, sd = _cases_source(repo, ci, ml, "loading"), _cases_source(repo, ci, md, "dumping")
        if sl is None and sd is None:
            continue
        n += 1
        res.evaluated(f"pair:{ci.name}", True)
        res.sample({"provider": ci.name, "loader_cases": sl, "dumper_cases": sd})
        if sl is None or sd is None or sl[0] != sd[0]:
            res.add(Finding("C18", "PAIR.different-cases", m.rel, ci.name, f"loading: {sl} / dumping: {sd}",
                            "loader and dumper of one provider derive their tables from different member sets: a member the "
                            "dumper can emit is unknown to the loader (or vice versa)", ci.node.lineno))
        # wrong-direction use
        for fn, bad in ((ml, "dumping"), (md, "loading")):
            if any(isinstance(c, ast.Call) and isinstance(c.func, ast.Attribute) and c.func.attr == f"generate_for_{bad}"
                   for c in ast.walk(fn)):
                res.add(Finding("C18", "PAIR.wrong-direction", m.rel, f"{ci.name}.{fn.name}", f"generate_for_{bad}",
                                f"{fn.name} uses the table of the opposite direction", fn.lineno))
    res.count("PAIR.providers", n, 2)


def flag_exact(repo: Repo, m: ModuleInfo, res: CheckResult) -> None:
    ci = m.classes.get("FlagByExactValueProvider")
    if ci is None or "_make_loader" not in ci.methods:
        raise AnalysisError("anchor vanished: FlagByExactValueProvider._make_loader")
    fn = ci.methods["_make_loader"]
    res.evaluated("flag-exact:mask-validation", True)
    raise_tests = [node.test for node in fn.body
                   if isinstance(node, ast.If) and any(isinstance(s, ast.Raise) and "CannotProvide" in norm(s) for s in node.body)]
    raises = [norm(t) for t in raise_tests]
    defs = {norm(a.targets[0]): a.value for a in fn.body if isinstance(a, ast.Assign) and isinstance(a.targets[0], ast.Name)}
    mask_var = None
    for t in raise_tests:
        for c in ast.walk(t):
            if isinstance(c, ast.Compare) and len(c.ops) == 1:
                l, r = c.left, c.comparators[0]
                if isinstance(c.ops[0], ast.Lt) and isinstance(l, ast.Name) and norm(r) == "0":
                    mask_var = l.id
                if isinstance(c.ops[0], ast.Gt) and isinstance(r, ast.Name) and norm(l) == "0":
                    mask_var = r.id
    if mask_var is None:
        res.add(Finding("C18", "FLAG.negative-mask", m.rel, "FlagByExactValueProvider._make_loader", "; ".join(raises),
                        "flags with negative values must be refused at creation (documented exclusion)", fn.lineno))
        mask_var = next((k for k, v in defs.items() if "reduce" in norm(v) or "|" in norm(v)), "flag_mask")
    full = (f"2**{mask_var}.bit_length()-1", f"(1<<{mask_var}.bit_length())-1")

    def expands_to_full(e: ast.expr) -> bool:
        if isinstance(e, ast.Name) and e.id in defs:
            e = defs[e.id]
        return norm(e).replace(" ", "") in full
    contiguous = False
    for t in raise_tests:
        for c in ast.walk(t):
            if isinstance(c, ast.Compare) and len(c.ops) == 1 and isinstance(c.ops[0], (ast.NotEq, ast.Eq)):
                l, r = c.left, c.comparators[0]
                if (norm(l) == mask_var and expands_to_full(r)) or (norm(r) == mask_var and expands_to_full(l)):
                    contiguous = isinstance(c.ops[0], ast.NotEq)
    if not contiguous:
        res.add(Finding("C18", "FLAG.skipped-bits", m.rel, "FlagByExactValueProvider._make_loader", "; ".join(raises),
                        "flags with skipped bits must be refused at creation (mask != 2**mask.bit_length() - 1): the loader's "
                        "range test would accept integers that are not a combination of members", fn.lineno))
    # loader range test
    cl = [d for d in fn.body if isinstance(d, ast.FunctionDef)]
    res.evaluated("flag-exact:range", True)
    if len(cl) != 1:
        raise AnalysisError("FlagByExactValueProvider._make_loader: expected one closure")
    tests = [norm(n.test).replace(" ", "") for n in cl[0].body if isinstance(n, ast.If)]
    d = cl[0].args.args[0].arg
    ok_range = any(t in (f"{d}<0or{d}>{mask_var}", f"{d}>{mask_var}or{d}<0", f"not0<={d}<={mask_var}") for t in tests)
    ok_type = any(t == f"type({d})isnotint" for t in tests)
    if not ok_range:
        res.add(Finding("C18", "FLAG.range", m.rel, "FlagByExactValueProvider._make_loader.flag_loader", "; ".join(tests),
                        "the loader must reject integers outside [0, mask]", cl[0].lineno))
    if not ok_type:
        res.add(Finding("C18", "FLAG.type", m.rel, "FlagByExactValueProvider._make_loader.flag_loader", "; ".join(tests),
                        "the loader must accept exact ints only (bool is not the representation of a flag)", cl[0].lineno))


def exact_value_loader(repo: Repo, m: ModuleInfo, res: CheckResult) -> None:
    ci = m.classes.get("EnumExactValueProvider")
    if ci is None or "_make_loader" not in ci.methods:
        raise AnalysisError("anchor vanished: EnumExactValueProvider._make_loader")
    fn = ci.methods["_make_loader"]
    res.evaluated("enum-exact:member-not-representation", True)
    for cl in [d for d in ast.walk(fn) if isinstance(d, ast.FunctionDef) and d is not fn]:
        calls_enum = any(isinstance(c, ast.Call) and norm(c.func) == "enum" for c in ast.walk(cl))
        if not calls_enum:
            continue
        d = cl.args.args[0].arg
        guard = any(isinstance(n, ast.If) and norm(n.test).replace(" ", "") in (f"type({d})isenum", f"isinstance({d},enum)")
                    and any(isinstance(s, ast.Raise) for s in n.body) for n in cl.body)
        if not guard:
            res.add(Finding("C18", "ENUM.member-accepted", m.rel, f"EnumExactValueProvider._make_loader.{cl.name}",
                            "enum(data)", "Enum(member) returns the member, so without rejecting `type(data) is enum` the "
                            "loader accepts a datum that is not the representation (value) of a member", cl.lineno))
    # value table: built from the same members the dumper uses
    gv = ci.methods.get("_get_exact_value_to_member")
    md = ci.methods.get("_make_dumper")
    res.evaluated("enum-exact:tables", True)
    if gv is None or md is None:
        raise AnalysisError("anchor vanished: EnumExactValueProvider tables")
    tb1, tb2 = dict_tables(gv), dict_tables(md)
    t1, t2 = [t for t, _n, _b in tb1], [t for t, _n, _b in tb2]
    enum_l, enum_d = _enum_param(gv), _enum_param(md)
    ok = len(t1) == 1 and len(t2) == 1 and t1[0] is not None and t2[0] is not None
    if ok:
        (k1, v1, s1), (k2, v2, s2) = t1[0], t2[0]
        # loader table: value -> member; dumper table: member -> value; both over every member of the class itself
        ok = (k1, v1) == ("_x.value", "_x") and (k2, v2) == ("_x", "_x.value") and s1 == enum_l and s2 == enum_d
        # the loader must return this very table
        rets = [r for r in walk_no_nested(gv) if isinstance(r, ast.Return) and r.value is not None and norm(r.value) != "None"]
        tbl_names = {norm(a.targets[0]) for a in ast.walk(gv) if isinstance(a, ast.Assign) and isinstance(a.value, ast.DictComp)}
        tbl_names |= {b for _t, _n, b in tb1 if b}
        if not rets or any(norm(r.value) not in tbl_names for r in rets):
            ok = False
    if not ok:
        res.add(Finding("C18", "ENUM.tables", m.rel, "EnumExactValueProvider", f"{t1} / {t2}"[:200],
                        "the loader's value->member table and the dumper's member->value table must be inverse "
                        "comprehensions over all members of the enum class itself (internal caches such as "
                        "_value2member_map_ omit unhashable values)", ci.node.lineno))
    # the dict-based loader is only correct when every value is hashable: building the table must be allowed to fail
    # (TypeError -> None -> enum(data) fallback)
    res.evaluated("enum-exact:unhashable-fallback", True)
    builders = {id(n_) for _t, n_, _b in tb1}
    tr = [t for t in ast.walk(gv) if isinstance(t, ast.Try) and any(id(x) in builders for b in t.body for x in ast.walk(b))]
    fallback = any(h.type is not None and "TypeError" in norm(h.type) and any(isinstance(x, ast.Return) and (x.value is None or norm(x.value) == "None")
                                                                          for x in h.body) for t in tr for h in t.handlers)
    if not fallback:
        res.add(Finding("C18", "ENUM.unhashable-fallback", m.rel, "EnumExactValueProvider._get_exact_value_to_member",
                        "value table without TypeError fallback", "enums with unhashable member values cannot use the dict "
                        "table: the TypeError of building it must select the enum(data) fallback", gv.lineno))


class _Rename(ast.NodeTransformer):
    def __init__(self, mapping: Dict[str, str]):
        self.mapping = mapping

    def visit_Name(self, node: ast.Name):
        return ast.copy_location(ast.Name(id=self.mapping.get(node.id, node.id), ctx=node.ctx), node)


def alpha(e: ast.AST, mapping: Dict[str, str]) -> str:
    import copy
    return norm(_Rename(mapping).visit(copy.deepcopy(e)))


def comp_table(dc: ast.DictComp) -> Optional[Tuple[str, str, str]]:
    """(key function, value function, source) of a one-generator dict comprehension, bound names alpha-normalised"""
    if len(dc.generators) != 1 or dc.generators[0].ifs:
        return None
    g = dc.generators[0]
    if isinstance(g.target, ast.Name):
        mp = {g.target.id: "_x"}
    elif isinstance(g.target, ast.Tuple) and all(isinstance(x, ast.Name) for x in g.target.elts):
        mp = {x.id: f"_x{i}" for i, x in enumerate(g.target.elts)}
    else:
        return None
    return alpha(dc.key, mp), alpha(dc.value, mp), norm(g.iter)


def dict_tables(fn: ast.AST) -> List[Tuple[Optional[Tuple[str, str, str]], ast.AST, str]]:
    """every dict built element-wise from one iteration inside fn, in either idiom: a one-generator dict comprehension, or
    `name = {}` followed by `for <target> in <source>: name[<key>] = <value>`. Returns (comp_table-style triple or None when the
    shape is not a plain table, the node that performs the build, the name it is bound to or '')."""
    out: List[Tuple[Optional[Tuple[str, str, str]], ast.AST, str]] = []
    for n in ast.walk(fn):
        if isinstance(n, ast.DictComp):
            out.append((comp_table(n), n, ""))
    for n in ast.walk(fn):
        for field in ("body", "orelse", "finalbody"):
            stmts = getattr(n, field, None)
            if not (isinstance(stmts, list) and stmts and isinstance(stmts[0], ast.stmt)):
                continue
            for a, b in zip(stmts, stmts[1:]):
                if not (isinstance(a, ast.Assign) and len(a.targets) == 1 and isinstance(a.targets[0], ast.Name)
                        and ((isinstance(a.value, ast.Dict) and not a.value.keys) or norm(a.value) == "dict()")):
                    continue
                if not (isinstance(b, ast.For) and len(b.body) == 1 and not b.orelse and isinstance(b.body[0], ast.Assign)
                        and len(b.body[0].targets) == 1 and isinstance(b.body[0].targets[0], ast.Subscript)
                        and norm(b.body[0].targets[0].value) == a.targets[0].id):
                    continue
                fake = ast.DictComp(key=b.body[0].targets[0].slice, value=b.body[0].value,
                                    generators=[ast.comprehension(target=b.target, iter=b.iter, ifs=[], is_async=0)])
                out.append((comp_table(fake), b, a.targets[0].id))
    return out


def _enum_param(fn: ast.FunctionDef) -> str:
    ps = [a.arg for a in fn.args.args if a.arg != "self"]
    return ps[0] if ps else "?"


# ------------------------------------------------------------------------------------------------ flag <-> list of names
def _closures(fn: ast.FunctionDef) -> List[ast.FunctionDef]:
    return [d for d in ast.walk(fn) if isinstance(d, ast.FunctionDef) and d is not fn]


def _is_zero(e: ast.expr, outer_defs: Dict[str, ast.expr]) -> bool:
    if isinstance(e, ast.Constant) and e.value == 0 and not isinstance(e.value, bool):
        return True
    if isinstance(e, ast.Call) and len(e.args) == 1 and isinstance(e.args[0], ast.Constant) and e.args[0].value == 0:
        return True     # enum(0)
    if isinstance(e, ast.Name) and e.id in outer_defs:
        return _is_zero(outer_defs[e.id], {k: v for k, v in outer_defs.items() if k != e.id})
    return False


def flag_list_dumper(repo: Repo, m: ModuleInfo, res: CheckResult) -> None:
    """greedy cover of the value by members: a member is emitted iff it is contained in the (undiminished) value and is not
    yet covered; then OR(emitted) == OR(members contained in value), which is what the loader rebuilds"""
    ci = m.classes.get("FlagByListProvider")
    if ci is None or "_make_dumper" not in ci.methods:
        raise AnalysisError("anchor vanished: FlagByListProvider._make_dumper")
    fn = ci.methods["_make_dumper"]
    outer_defs = {n.targets[0].id: n.value for n in walk_no_nested(fn, include_root=False)
                  if isinstance(n, ast.Assign) and isinstance(n.targets[0], ast.Name)}
    cls = _closures(fn)
    if len(cls) != 1:
        raise AnalysisError("FlagByListProvider._make_dumper: expected one closure")
    cl = cls[0]
    qual = f"FlagByListProvider._make_dumper.{cl.name}"
    V = cl.args.args[0].arg
    loops = [n for n in walk_no_nested(cl, include_root=False) if isinstance(n, ast.For)]
    emit_loops = [lp for lp in loops if any(isinstance(c, ast.Call) and isinstance(c.func, ast.Attribute) and c.func.attr == "append"
                                            for c in ast.walk(lp))]
    if len(emit_loops) != 1:
        raise AnalysisError(f"{qual}: expected one emitting loop, found {len(emit_loops)}")
    loop = emit_loops[0]
    cset = {n.id for n in ast.walk(loop.target) if isinstance(n, ast.Name)}
    modified_in_loop = set()
    for n in ast.walk(loop):
        if isinstance(n, (ast.Assign, ast.AugAssign)):
            for t in (n.targets if isinstance(n, ast.Assign) else [n.target]):
                if isinstance(t, ast.Name):
                    modified_in_loop.add(t.id)
    pre = {}
    for n in cl.body:
        if n is loop:
            break
        if isinstance(n, ast.Assign) and isinstance(n.targets[0], ast.Name):
            pre[n.targets[0].id] = n.value

    def v_like(e: ast.expr, depth=0) -> bool:
        if isinstance(e, ast.Name):
            if e.id == V:
                return V not in modified_in_loop
            if e.id in pre and e.id not in modified_in_loop and depth < 4:
                return v_like(pre[e.id], depth + 1)
            return False
        if isinstance(e, ast.Attribute) and e.attr in ("value", "_value_"):
            return v_like(e.value, depth)
        if isinstance(e, ast.Call) and norm(e.func) == "int" and len(e.args) == 1:
            return v_like(e.args[0], depth)
        return False

    def role(e: ast.expr) -> str:
        if isinstance(e, ast.Attribute) and e.attr in ("value", "_value_"):
            return role(e.value)
        if isinstance(e, ast.Name):
            if e.id in cset:
                return "C"
            if v_like(e):
                return "V"
            if e.id in pre and e.id in modified_in_loop:
                if _is_zero(pre[e.id], outer_defs):
                    return "ACC"
                if v_like_init(pre[e.id]):
                    return "REST"
        if v_like(e):
            return "V"
        return "?"

    def v_like_init(e: ast.expr) -> bool:
        if isinstance(e, ast.Attribute) and e.attr in ("value", "_value_"):
            return v_like_init(e.value)
        return isinstance(e, ast.Name) and (e.id == V or (e.id in pre and v_like_init(pre[e.id])))

    def classify(t: ast.expr) -> str:
        if isinstance(t, ast.UnaryOp) and isinstance(t.op, ast.Not):
            inner = classify(t.operand)
            return {"SUB_ACC": "NEW_ACC", "NEW_ACC": "SUB_ACC"}.get(inner, "?")
        if isinstance(t, ast.Compare) and len(t.ops) == 1:
            l, r, op = t.left, t.comparators[0], t.ops[0]
            if isinstance(op, (ast.In, ast.NotIn)) and role(l) == "C":
                k = {"V": "SUB_V", "ACC": "SUB_ACC", "REST": "SUB_REST"}.get(role(r), "?")
                if isinstance(op, ast.NotIn):
                    k = {"SUB_ACC": "NEW_ACC"}.get(k, "?")
                return k
            if isinstance(op, (ast.Eq, ast.NotEq)):
                for a, b in ((l, r), (r, l)):
                    if isinstance(a, ast.BinOp) and isinstance(a.op, ast.BitAnd):
                        roles = {role(a.left), role(a.right)}
                        if role(b) == "C" and "C" in roles and len(roles) == 2:
                            other = (roles - {"C"}).pop()
                            k = {"V": "SUB_V", "ACC": "SUB_ACC", "REST": "SUB_REST"}.get(other, "?")
                            if isinstance(op, ast.NotEq):
                                k = {"SUB_ACC": "NEW_ACC"}.get(k, "?")
                            return k
                        if isinstance(b, ast.Constant) and b.value == 0 and roles == {"C", "REST"}:
                            return "NEW_REST" if isinstance(op, ast.NotEq) else "?"
        if isinstance(t, ast.BinOp) and isinstance(t.op, ast.BitAnd) and {role(t.left), role(t.right)} == {"C", "REST"}:
            return "NEW_REST"
        return "?"

    n_sites = 0
    for iff in [n for n in ast.walk(loop) if isinstance(n, ast.If)]:
        if not any(isinstance(c, ast.Call) and isinstance(c.func, ast.Attribute) and c.func.attr == "append" for b in iff.body
                   for c in ast.walk(b)):
            continue
        n_sites += 1
        res.evaluated(f"flag-list:emit-condition:{norm(iff.test)}", True)
        conj = iff.test.values if isinstance(iff.test, ast.BoolOp) and isinstance(iff.test.op, ast.And) else [iff.test]
        kinds = [classify(c) for c in conj]
        res.sample({"closure": qual, "emit_condition": norm(iff.test), "classified": kinds})
        if "SUB_REST" in kinds and "SUB_V" not in kinds:
            res.add(Finding("C18", "FLAG.cover-drops-overlap", m.rel, qual, norm(iff.test),
                            "a member is emitted only if it is contained in the remainder left by the members already emitted: "
                            "of two overlapping multi-bit members contained in the value the second is skipped and its other "
                            "bits vanish from the dumped list (load(dump(v)) != v)", iff.lineno))
            continue
        if "SUB_ACC" in kinds:
            res.add(Finding("C18", "FLAG.cover-inverted", m.rel, qual, norm(iff.test),
                            "members are emitted only when already covered", iff.lineno))
            continue
        if "?" in kinds:
            raise AnalysisError(f"{qual}: cannot classify emission condition `{norm(iff.test)}` ({kinds})")
        if "SUB_V" not in kinds:
            res.add(Finding("C18", "FLAG.emits-uncontained", m.rel, qual, norm(iff.test),
                            "the emission condition does not require the member to be contained in the dumped value", iff.lineno))
        # accumulator updates: only with the emitted member, only under the emission condition
        for n in ast.walk(loop):
            if isinstance(n, ast.AugAssign) and isinstance(n.target, ast.Name) and role(n.target) == "ACC":
                under = any(n is x for b in iff.body for x in ast.walk(b))
                if not under or not isinstance(n.op, ast.BitOr) or role(n.value) != "C":
                    res.add(Finding("C18", "FLAG.cover-accumulator", m.rel, qual, norm(n),
                                    "the set of covered bits must grow exactly by the emitted members", n.lineno))
    if n_sites == 0:
        # unconditional emission of every case
        res.add(Finding("C18", "FLAG.emits-uncontained", m.rel, qual, "unconditional append",
                        "members are emitted without testing that they are contained in the value", loop.lineno))
    res.count("FLAG.list-dumper-emission-sites", n_sites, 1)


def flag_list_loader(repo: Repo, m: ModuleInfo, res: CheckResult) -> None:
    ci = m.classes.get("FlagByListProvider")
    if ci is None or "_make_loader" not in ci.methods:
        raise AnalysisError("anchor vanished: FlagByListProvider._make_loader")
    fn = ci.methods["_make_loader"]
    outer_defs = {n.targets[0].id: n.value for n in walk_no_nested(fn, include_root=False)
                  if isinstance(n, ast.Assign) and isinstance(n.targets[0], ast.Name)}
    cls = _closures(fn)
    if len(cls) != 1:
        raise AnalysisError("FlagByListProvider._make_loader: expected one closure")
    cl = cls[0]
    qual = f"FlagByListProvider._make_loader.{cl.name}"
    rets = [r for r in walk_no_nested(cl) if isinstance(r, ast.Return) and r.value is not None]
    if len(rets) != 1 or not isinstance(rets[0].value, ast.Name):
        raise AnalysisError(f"{qual}: expected a single `return <name>`")
    R = rets[0].value.id
    res.evaluated("flag-list:loader-accumulation", True)
    inits = [n for n in walk_no_nested(cl, include_root=False) if isinstance(n, ast.Assign) and norm(n.targets[0]) == R]
    if len(inits) != 1 or not _is_zero(inits[0].value, outer_defs):
        res.add(Finding("C18", "FLAG.loader-accumulation", m.rel, qual, "; ".join(norm(i) for i in inits),
                        "the loaded flag must start from the zero member", cl.lineno))
    loops = [n for n in walk_no_nested(cl, include_root=False) if isinstance(n, ast.For)
             and any(isinstance(x, ast.AugAssign) and norm(x.target) == R for x in ast.walk(n))]
    if len(loops) != 1:
        res.add(Finding("C18", "FLAG.loader-accumulation", m.rel, qual, f"{len(loops)} accumulating loops",
                        "every listed name must be OR-ed into the result in one loop over the data", cl.lineno))
        return
    loop = loops[0]
    item = loop.target.id if isinstance(loop.target, ast.Name) else None
    for x in ast.walk(loop):
        if isinstance(x, (ast.Assign, ast.AugAssign)):
            tg = x.targets[0] if isinstance(x, ast.Assign) else x.target
            if norm(tg) != R:
                continue
            ok = isinstance(x, ast.AugAssign) and isinstance(x.op, ast.BitOr) and isinstance(x.value, ast.Subscript) \
                and item is not None and norm(x.value.slice) == item
            if isinstance(x, ast.Assign) and isinstance(x.value, ast.BinOp) and isinstance(x.value.op, ast.BitOr):
                sides = [x.value.left, x.value.right]
                ok = any(norm(sd) == R for sd in sides) and any(isinstance(sd, ast.Subscript) and norm(sd.slice) == item for sd in sides)
            if not ok:
                res.add(Finding("C18", "FLAG.loader-accumulation", m.rel, qual, norm(x),
                                "each listed name must contribute `result |= mapping[name]` (anything else loses or invents "
                                "bits)", x.lineno))
    # iteration covers the whole datum
    it = loop.iter
    res.evaluated("flag-list:loader-iterates-all", True)
    if isinstance(it, ast.Subscript) or (isinstance(it, ast.Call) and norm(it.func) in ("islice", "itertools.islice", "set", "frozenset")
                                        and False):
        res.add(Finding("C18", "FLAG.loader-accumulation", m.rel, qual, norm(it), "only a part of the listed names is processed",
                        loop.lineno))
    # unknown names are rejected: a membership test on the item guards the accumulation and a raise follows the loop
    res.evaluated("flag-list:loader-rejects-unknown", True)
    tests = [n for n in ast.walk(loop) if isinstance(n, ast.If) and item is not None and any(
        isinstance(c, ast.Compare) and isinstance(c.ops[0], (ast.In, ast.NotIn)) and norm(c.left) == item for c in ast.walk(n.test))]
    after = cl.body[cl.body.index(loop) + 1:] if loop in cl.body else []
    raises_after = any(isinstance(r, ast.Raise) for st in after for r in ast.walk(st))
    raises_in = any(isinstance(r, ast.Raise) for t in tests for r in ast.walk(t))
    if not tests or not (raises_after or raises_in):
        res.add(Finding("C18", "FLAG.loader-unknown-names", m.rel, qual, "no rejection of unknown names",
                        "names that are not in the table must be rejected with LoadError", loop.lineno))


# ---------------------------------------------------------------------------------------------------------------------
# which classes each provider family serves: the Enum predicate and the Flag predicate partition the EnumMeta classes

_KINDS = ("plain Enum class", "Flag class", "non-enum class")
_T, _F = (True, True, True), (False, False, False)


def _cls_test(repo: Repo, m: ModuleInfo, fname: str, second: ast.expr) -> Tuple[bool, bool, bool]:
    """truth of `<fname>(<a class>, second)` for the three kinds of class"""
    if isinstance(second, ast.Tuple):
        parts = [_cls_test(repo, m, fname, e) for e in second.elts]
        return tuple(any(p[i] for p in parts) for i in range(3))  # type: ignore[return-value]
    r = repo.resolve_expr_static(m, second) if isinstance(second, (ast.Name, ast.Attribute)) else None
    target = r.name if r is not None and r.kind == "ext" else norm(second)
    if fname == "isinstance":
        table = {"enum.EnumMeta": (True, True, False), "enum.EnumType": (True, True, False), "builtins.type": _T, "type": _T,
                 # the first argument is a class: it is never an instance (= member) of an enum class
                 "enum.Enum": _F, "enum.Flag": _F, "enum.IntFlag": _F, "enum.IntEnum": _F}
    else:
        table = {"enum.Enum": (True, True, False), "enum.Flag": (False, True, False)}
    if target not in table:
        raise AnalysisError(f"enum predicate: cannot evaluate {fname}(<class>, {norm(second)})")
    return table[target]


def _eval_pred(repo: Repo, m: ModuleInfo, e: ast.expr, origins: Set[str]) -> Tuple[bool, bool, bool]:
    if isinstance(e, ast.Constant) and isinstance(e.value, bool):
        return _T if e.value else _F
    if isinstance(e, ast.UnaryOp) and isinstance(e.op, ast.Not):
        return tuple(not x for x in _eval_pred(repo, m, e.operand, origins))  # type: ignore[return-value]
    if isinstance(e, ast.BoolOp):
        parts = [_eval_pred(repo, m, v, origins) for v in e.values]
        f = all if isinstance(e.op, ast.And) else any
        return tuple(f(p[i] for p in parts) for i in range(3))  # type: ignore[return-value]
    if isinstance(e, ast.Call) and len(e.args) == 2 and not e.keywords and norm(e.args[0]) in origins:
        fname = norm(e.func).split(".")[-1]
        if fname == "isinstance":
            return _cls_test(repo, m, "isinstance", e.args[1])
        if fname in ("issubclass", "is_subclass_soft"):
            return _cls_test(repo, m, "issubclass", e.args[1])
    raise AnalysisError(f"enum predicate: cannot evaluate `{norm(e)}`")


def predicate_partition(repo: Repo, m: ModuleInfo, res: CheckResult) -> None:
    """The class decorating the Enum providers' base must hold exactly for non-Flag Enum classes, the one decorating the
    Flag providers' base exactly for Flag classes (abstractly evaluated on the three kinds of class)."""
    want = {"EnumExactValueProvider": ("enum", (True, False, False)), "FlagByExactValueProvider": ("flag", (False, True, False))}
    n = 0
    for anchor, (role, expected) in want.items():
        ci = m.classes.get(anchor)
        if ci is None:
            raise AnalysisError(f"anchor vanished: {anchor}")
        pred_cls = None
        for c in repo.mro(ci):
            for d in c.node.decorator_list:
                if isinstance(d, ast.Call) and norm(d.func).split(".")[-1] == "for_predicate" and d.args \
                        and isinstance(d.args[0], ast.Call) and isinstance(d.args[0].func, ast.Name):
                    pred_cls = m.classes.get(d.args[0].func.id)
            if pred_cls is not None:
                break
        if pred_cls is None:
            raise AnalysisError(f"cannot find the for_predicate(...) class of {anchor}")
        fn = pred_cls.methods.get("_check_location")
        if fn is None:
            raise AnalysisError(f"{pred_cls.name} has no _check_location")
        loc = fn.args.args[-1].arg
        norms, origins = set(), set()
        for node in ast.walk(fn):
            if isinstance(node, ast.Assign) and len(node.targets) == 1 and isinstance(node.targets[0], ast.Name):
                v = node.value
                if isinstance(v, ast.Call) and norm(v.func).split(".")[-1] in ("normalize_type", "try_normalize_type") \
                        and v.args and norm(v.args[0]) == f"{loc}.type":
                    norms.add(node.targets[0].id)
        for nm in norms:
            origins.add(f"{nm}.origin")
        for node in ast.walk(fn):
            if isinstance(node, ast.Assign) and len(node.targets) == 1 and isinstance(node.targets[0], ast.Name) \
                    and norm(node.value) in origins:
                origins.add(node.targets[0].id)
        if not origins:
            raise AnalysisError(f"{pred_cls.name}._check_location: no normalised origin found")
        verdict = None
        for r in walk_no_nested(fn, include_root=False):
            if isinstance(r, ast.Return) and r.value is not None:
                if isinstance(m.parent(r), ast.ExceptHandler):
                    continue     # the type cannot be normalised: not a class at all
                v = _eval_pred(repo, m, r.value, origins)
                verdict = v if verdict is None else tuple(a or b for a, b in zip(verdict, v))
        if verdict is None:
            raise AnalysisError(f"{pred_cls.name}._check_location: no return")
        n += 1
        res.evaluated(f"predicate:{role}", True)
        res.sample({"predicate": pred_cls.name, "serves": dict(zip(_KINDS, verdict)), "expected": dict(zip(_KINDS, expected))})
        if verdict != expected:
            wrong = [f"{k}: {'served' if g else 'not served'} (must be {'served' if w else 'refused'})"
                     for k, g, w in zip(_KINDS, verdict, expected) if g != w]
            res.add(Finding("C18", "PRED.enum-flag-partition", m.rel, f"{pred_cls.name}._check_location", "; ".join(wrong),
                            f"the predicate of the {role} providers does not select exactly the {role} classes ({'; '.join(wrong)}): "
                            "a predicate-less enum_by_name()/enum_by_exact_value() in a recipe then captures Flag classes, whose "
                            "unnamed combinations and zero value have no entry in the member table (KeyError on dump), or a flag "
                            "provider is offered a plain Enum", fn.lineno))
    res.count("PRED.predicates", n, 2)


def _store_kind(value: ast.expr, param: str) -> str:
    """what a `self.x = <value>` built from the user's `map` holds: 'raw' (names and members side by side),
    'by-class' (member entries keyed with their class), 'names' (member keys filtered out), 'members-by-value'"""
    v = value
    if isinstance(v, ast.IfExp):
        kinds = {_store_kind(b, param) for b in (v.body, v.orelse) if not (isinstance(b, ast.Dict) and not b.keys)}
        return kinds.pop() if len(kinds) == 1 else "unknown"
    if isinstance(v, ast.BoolOp) and isinstance(v.op, ast.Or):
        kinds = {_store_kind(b, param) for b in v.values if not (isinstance(b, ast.Dict) and not b.keys)}
        return kinds.pop() if len(kinds) == 1 else "unknown"
    if isinstance(v, ast.Name):
        return "raw" if v.id == param else "unknown"
    if isinstance(v, ast.Call) and norm(v.func) in ("dict", "MappingProxyType") and len(v.args) == 1 and not v.keywords:
        return _store_kind(v.args[0], param)
    if isinstance(v, ast.DictComp) and len(v.generators) == 1:
        g = v.generators[0]
        if not (isinstance(g.iter, ast.Call) and isinstance(g.iter.func, ast.Attribute) and g.iter.func.attr == "items"
                and isinstance(g.target, ast.Tuple) and len(g.target.elts) == 2 and isinstance(g.target.elts[0], ast.Name)):
            return "unknown"
        k = g.target.elts[0].id
        only_members = only_names = False
        for cond in g.ifs:
            neg = isinstance(cond, ast.UnaryOp) and isinstance(cond.op, ast.Not)
            c = cond.operand if neg else cond
            if isinstance(c, ast.Call) and norm(c.func) == "isinstance" and len(c.args) == 2 and norm(c.args[0]) == k \
                    and norm(c.args[1]).split(".")[-1] in ("Enum", "Flag"):
                only_names, only_members = (True, only_members) if neg else (only_names, True)
            else:
                return "unknown"
        if norm(v.value) != norm(g.target.elts[1]):
            return "unknown"
        key_names = {n.id for n in ast.walk(v.key) if isinstance(n, ast.Name)}
        if only_names and norm(v.key) == k:
            return "names"
        if only_members and k in key_names:
            ktxt = norm(v.key)
            if f"type({k})" in ktxt or f"{k}.__class__" in ktxt:
                return "by-class"
            if ktxt == k:
                return "members-by-value"
            if ktxt in (f"{k}.name", f"{k}._name_"):
                return "members-by-name"
        return "unknown"
    return "unknown"


def member_key_lookup(repo: Repo, m: ModuleInfo, res: CheckResult) -> None:
    """`map` may be keyed by members (Mapping[Union[str, Enum], str]) and one generator serves every class the provider is
    asked for. Members of str/int mixed-in enums hash and compare as their values, so (a) a member-keyed entry has to be
    matched on the member's class and name -- by name alone it renames same-named members of other classes, by the bare
    member it also hits string keys and other classes' members that equal its value -- and (b) the name lookup must not
    run against a table that still contains member keys."""
    ci = m.classes.get("ByNameEnumMappingGenerator")
    if ci is None:
        raise AnalysisError("anchor vanished: ByNameEnumMappingGenerator")
    init, gen = ci.methods.get("__init__"), ci.methods.get("_generate_mapping")
    if init is None or gen is None:
        raise AnalysisError("anchor vanished: ByNameEnumMappingGenerator.__init__/_generate_mapping")
    member_keyed = [a.arg for a in init.args.args + init.args.kwonlyargs
                    if a.annotation is not None and "Mapping" in norm(a.annotation) and "Enum" in norm(a.annotation)]
    res.evaluated("map:member-key-lookup", bool(member_keyed))
    if not member_keyed:
        return
    param = member_keyed[0]
    stores: Dict[str, str] = {}
    changed = True
    derived = {param}
    while changed:      # self._map = map ...; self._member_map = {... for k, v in self._map.items() ...}
        changed = False
        for n in ast.walk(init):
            if isinstance(n, ast.Assign) and len(n.targets) == 1 and isinstance(n.targets[0], ast.Attribute) \
                    and norm(n.targets[0].value) == "self" and norm(n.targets[0]) not in stores:
                mentioned = {norm(x) for x in ast.walk(n.value) if isinstance(x, (ast.Name, ast.Attribute))}
                src = [d for d in derived if d in mentioned]
                if src:
                    base = src[0]
                    kind = _store_kind(n.value, base) if base == param else None
                    if kind is None:
                        # built from another stored table: a raw one passes its kind through the comprehension rules
                        tmp = ast.parse(norm(n.value).replace(base, "__src__"), mode="eval").body
                        kind = _store_kind(tmp, "__src__") if stores[base] == "raw" else "unknown"
                    stores[norm(n.targets[0])] = kind
                    derived.add(norm(n.targets[0]))
                    changed = True
    if not stores:
        raise AnalysisError("ByNameEnumMappingGenerator.__init__ does not store the map parameter")
    cases_param = gen.args.args[1].arg
    loop_vars = {norm(n.target) for n in ast.walk(gen) if isinstance(n, (ast.For, ast.comprehension))
                 and norm(n.iter) == cases_param and isinstance(n.target, ast.Name)}
    if not loop_vars:
        raise AnalysisError("ByNameEnumMappingGenerator._generate_mapping: no loop over the cases")
    lookups: List[Tuple[ast.expr, str]] = []
    for n in ast.walk(gen):
        if isinstance(n, ast.Compare) and len(n.ops) == 1 and isinstance(n.ops[0], (ast.In, ast.NotIn)) \
                and norm(n.comparators[0]) in stores:
            lookups.append((n.left, norm(n.comparators[0])))
        elif isinstance(n, ast.Subscript) and norm(n.value) in stores:
            lookups.append((n.slice, norm(n.value)))
        elif isinstance(n, ast.Call) and isinstance(n.func, ast.Attribute) and n.func.attr in ("get", "__getitem__", "__contains__") \
                and norm(n.func.value) in stores and n.args:
            lookups.append((n.args[0], norm(n.func.value)))
    if not lookups:
        raise AnalysisError("ByNameEnumMappingGenerator._generate_mapping never looks the map up")

    def key_form(k: ast.expr) -> str:
        txt = norm(k)
        for lv in loop_vars:
            if txt == lv:
                return "member"
            if txt in (f"{lv}.name", f"{lv}._name_"):
                return "name"
            if (f"type({lv})" in txt or f"{lv}.__class__" in txt) and (f"{lv}.name" in txt or f"{lv}._name_" in txt):
                return "class+name"
        return "other"
    res.sample({"map-tables": stores, "map-lookups": [f"{norm(k)} in {t}" for k, t in lookups]})
    problems = []
    for k, table in lookups:
        form, kind = key_form(k), stores[table]
        if form == "other" or kind == "unknown":
            raise AnalysisError(f"ByNameEnumMappingGenerator: cannot classify lookup `{norm(k)}` in `{table}` ({kind})")
        if form == "member" and kind in ("raw", "members-by-value"):
            problems.append(f"`{norm(k)} in {table}` matches by value: a str/int mixed-in member equals its value, so it hits a "
                            f"name key or another class's member with that value")
        elif form == "name" and kind in ("raw", "members-by-value", "by-class"):
            problems.append(f"`{norm(k)} in {table}` runs the name lookup against a table that still holds member keys"
                            if kind != "by-class" else f"`{norm(k)} in {table}`: a name looked up in the class-keyed table never matches")
        elif form == "name" and kind == "members-by-name":
            problems.append(f"`{norm(k)} in {table}` matches a member-keyed entry by the name alone: it renames the same-named "
                            f"member of every other class the provider serves")
        elif form == "class+name" and kind != "by-class":
            problems.append(f"`{norm(k)} in {table}`: class-and-name key looked up in a table keyed differently ({kind})")
    if not any(key_form(k) in ("member", "class+name") for k, _ in lookups):
        problems.append("no lookup uses the member object: an entry given for a member of one class renames the same-named "
                        "member of every other class the provider serves")
    for pr in problems:
        res.add(Finding("C18", "MAP.member-key-conflation", m.rel, "ByNameEnumMappingGenerator._generate_mapping",
                        pr.split(":")[0][:120],
                        f"`{param}` accepts members as keys; {pr}; two members of one class can then share a representation "
                        "(dump not injective, one of them can never be loaded)", gen.lineno))


def silent_loss(repo: Repo, m: ModuleInfo, res: CheckResult) -> None:
    """Two places where a representation can lose information without anybody being told:
    (a) generate_for_loading inverts name -> member with a dict display, which keeps the LAST of two members whose
        representations collide (name_style folds A_B and AB to 'ab'; map gives two members one string);
    (b) the member-name-list dumper walks the named cases and never compares what it emitted with the value, so bits
        without an eligible name vanish (allow_compound=False and a bit that only a compound member names).
    Either is sound only behind an explicit refusal (a raise on the collision / on the residual)."""
    ci = m.classes.get("BaseEnumMappingGenerator")
    fl = ci.methods.get("generate_for_loading") if ci is not None else None
    if fl is None:
        raise AnalysisError("anchor vanished: BaseEnumMappingGenerator.generate_for_loading")
    scope: List[ast.AST] = [fl]
    for c in ast.walk(fl):
        if isinstance(c, ast.Call) and isinstance(c.func, ast.Attribute) and norm(c.func.value) == "self" \
                and c.func.attr in ci.methods and c.func.attr != "_generate_mapping":
            scope.append(ci.methods[c.func.attr])
    res.evaluated("loss:inversion-collision", True)
    if not any(isinstance(n, ast.Raise) for f in scope for n in ast.walk(f)):
        res.add(Finding("C18", "INVERSE.collision-unchecked", m.rel, "BaseEnumMappingGenerator.generate_for_loading",
                        "inversion keeps the last of colliding representations",
                        "generate_for_loading inverts the member -> representation table without checking that it is injective: "
                        "when two members get one representation (name_style folding, map) the dumper emits it for both and the "
                        "loader returns the later member for it -- load(dump(m)) is not m and nothing is refused", fl.lineno))
    pc = m.classes.get("FlagByListProvider")
    md = pc.methods.get("_make_dumper") if pc is not None else None
    if md is None:
        raise AnalysisError("anchor vanished: FlagByListProvider._make_dumper")
    closures = [f for f in ast.walk(md) if isinstance(f, ast.FunctionDef) and f is not md]
    if not closures:
        raise AnalysisError("FlagByListProvider._make_dumper: no dumper closure")
    for f in closures:
        res.evaluated(f"loss:list-dumper-residual:{f.name}", True)
        if not any(isinstance(n, ast.Raise) for n in ast.walk(f)):
            res.add(Finding("C18", "FLAG.residual-unchecked", m.rel, f"FlagByListProvider._make_dumper.{f.name}",
                            "emitted members are never compared with the dumped value",
                            "the member-name-list dumper emits the names of the eligible cases contained in the value and returns; "
                            "bits of the value that no eligible case names are dropped silently, the list loads back as another "
                            "value", f.lineno))


def member_truthiness(repo: Repo, m: ModuleInfo, res: CheckResult) -> None:
    """A member that was looked up must be told from "not found" by KeyError / identity with None or a sentinel: members can
    be falsy (IntEnum / IntFlag member 0, a str-mixin member '', an enum defining __bool__, the zero flag), a truthiness test
    rejects their correct representation."""
    n = 0
    for ci in m.classes.values():
        if not (repo.is_subclass(ci, "BaseEnumProvider") or repo.is_subclass(ci, "BaseFlagProvider")):
            continue
        for mname, fn in ci.methods.items():
            for cl in [f for f in ast.walk(fn) if isinstance(f, ast.FunctionDef) and f is not fn]:
                looked: Set[str] = set()
                for a in ast.walk(cl):
                    if isinstance(a, ast.Assign) and len(a.targets) == 1 and isinstance(a.targets[0], ast.Name):
                        v = a.value
                        is_lookup = isinstance(v, ast.Subscript) or (
                            isinstance(v, ast.Call) and (norm(v.func).endswith("get") or norm(v.func).endswith(".get")
                                                         or (isinstance(v.func, ast.Name) and v.func.id in ("enum", "getattr"))))
                        if is_lookup:
                            looked.add(a.targets[0].id)
                n += 1
                res.evaluated(f"truthiness:{ci.name}.{mname}.{cl.name}", bool(looked))
                for t in ast.walk(cl):
                    tests: List[ast.expr] = []
                    if isinstance(t, (ast.If, ast.While, ast.IfExp)):
                        tests.append(t.test)
                    elif isinstance(t, ast.BoolOp):
                        tests += t.values
                    elif isinstance(t, ast.Assert):
                        tests.append(t.test)
                    for e in tests:
                        if isinstance(e, ast.UnaryOp) and isinstance(e.op, ast.Not):
                            e = e.operand
                        if isinstance(e, ast.Name) and e.id in looked:
                            res.add(Finding("C18", "ENUM.member-truthiness", m.rel, f"{ci.name}.{mname}.{cl.name}", norm(t)[:80].split("\n")[0],
                                            f"`{e.id}` holds a looked-up member and is tested for truth: a falsy member (IntEnum / IntFlag value "
                                            "0, a str-mixin member '', the zero flag) is treated as not found and its correct "
                                            "representation is rejected", getattr(t, "lineno", 0)))
    res.count("ENUM.loader-dumper-closures", n, 8)


def seen_before_refusals(repo: Repo, m: ModuleInfo, res: CheckResult) -> None:
    """The case sequences the providers hand to the mapping generators come from `enum.__members__.values()`, which yields the
    canonical member once MORE for every alias (RED = 1; CRIMSON = 1). A loop over the cases that refuses (raises) because a
    derived value "was seen before" therefore refuses every class that has an alias -- creation is no longer total -- unless the
    test also establishes that the earlier occurrence was a DIFFERENT member (identity / inequality of the case itself)."""
    n = 0
    for ci in m.classes.values():
        if not (ci.name.endswith("MappingGenerator") or ci.name.endswith("Provider")):
            continue
        for mname, fn in ci.methods.items():
            for loop in [x for x in ast.walk(fn) if isinstance(x, ast.For)]:
                it = norm(loop.iter)
                if not ("cases" in it or "__members__" in it):
                    continue
                if isinstance(loop.iter, ast.Call) and norm(loop.iter.func) in ("set", "frozenset", "dict.fromkeys", "unique", "OrderedDict.fromkeys"):
                    continue      # the sequence is de-duplicated first: a member meets itself no more
                lvars = {t.id for t in ast.walk(loop.target) if isinstance(t, ast.Name)}
                # containers filled inside this loop
                filled = set()
                for x in ast.walk(loop):
                    if isinstance(x, ast.Assign) and isinstance(x.targets[0], ast.Subscript):
                        filled.add(norm(x.targets[0].value))
                    if isinstance(x, ast.Call) and isinstance(x.func, ast.Attribute) and x.func.attr in ("add", "append", "setdefault"):
                        filled.add(norm(x.func.value))
                n += 1
                res.evaluated(f"seen-before:{ci.name}.{mname}:{loop.lineno}", True)
                for cond in [x for x in ast.walk(loop) if isinstance(x, ast.If)]:
                    if not any(isinstance(r, ast.Raise) for st in cond.body for r in ast.walk(st)):
                        continue
                    def container(e: ast.expr) -> str:
                        if isinstance(e, ast.Call) and isinstance(e.func, ast.Attribute) and e.func.attr in ("values", "keys", "items") and not e.args:
                            return norm(e.func.value)
                        return norm(e)
                    seen_tests = [c for c in ast.walk(cond.test) if isinstance(c, ast.Compare) and isinstance(c.ops[0], ast.In)
                                  and container(c.comparators[0]) in filled]
                    if not seen_tests:
                        continue
                    same_member_excluded = any(
                        isinstance(c, ast.Compare) and isinstance(c.ops[0], (ast.IsNot, ast.NotEq, ast.Is, ast.Eq))
                        and any(isinstance(nm, ast.Name) and nm.id in lvars for nm in ast.walk(c))
                        for c in ast.walk(cond.test))
                    if not same_member_excluded:
                        res.add(Finding("C18", "TOTAL.alias-refused-as-collision", m.rel, f"{ci.name}.{mname}", norm(cond.test)[:100],
                                        f"the loop over `{it}` raises when `{norm(seen_tests[0])}` -- but the sequence repeats the canonical "
                                        "member for every alias (`RED = 1; CRIMSON = 1`), so the member collides with ITSELF and no "
                                        "loader or dumper can be created for any Enum / Flag class that has an alias", cond.lineno))
    res.count("TOTAL.loops-over-cases", n, 2)


def mapped_names_not_tested_for_truth(repo: Repo, m: ModuleInfo, res: CheckResult) -> None:
    """The outside names of members are USER values (`map={'A': ''}` renames A to the empty string). Selecting between the
    sources of a name with `or`, or treating a looked-up name as absent with `if not name`, drops the falsy ones: the member is
    represented by its raw / styled name, the configured representation is refused by the loader."""
    n = 0
    for ci in m.classes.values():
        if not ci.name.endswith("MappingGenerator"):
            continue
        for mname, fn in ci.methods.items():
            n += 1
            res.evaluated(f"name-truth:{ci.name}.{mname}", True)

            def user_lookup(e: ast.AST) -> bool:
                return any((isinstance(x, ast.Subscript) or (isinstance(x, ast.Call) and isinstance(x.func, ast.Attribute) and x.func.attr == "get"))
                           and "_map" in norm(x.value if isinstance(x, ast.Subscript) else x.func.value) for x in ast.walk(e))
            looked = {norm(a.targets[0]) for a in ast.walk(fn) if isinstance(a, ast.Assign) and len(a.targets) == 1
                      and isinstance(a.targets[0], ast.Name) and user_lookup(a.value)}
            bad = []
            for x in ast.walk(fn):
                if isinstance(x, ast.BoolOp) and isinstance(x.op, ast.Or) and any(user_lookup(v) for v in x.values[:-1]):
                    bad.append(x)
                if isinstance(x, (ast.If, ast.IfExp, ast.While)):
                    t = x.test.operand if isinstance(x.test, ast.UnaryOp) and isinstance(x.test.op, ast.Not) else x.test
                    if isinstance(t, ast.Name) and t.id in looked:
                        bad.append(x.test)
            for b in bad:
                res.add(Finding("C18", "MAP.name-tested-for-truth", m.rel, f"{ci.name}.{mname}", norm(b)[:100],
                                f"`{norm(b)[:80]}` decides by the TRUTH of a name taken from the user's map: a member renamed to the empty "
                                "string counts as not renamed -- it is dumped under its raw / styled name, and the configured '' is "
                                "not accepted by the loader (an entry that IS in the map must win whatever its value)", b.lineno))
    res.count("MAP.generator-methods", n, 3)


def flag_dumper_emits_names_of_the_cases_only(repo: Repo, m: ModuleInfo, res: CheckResult) -> None:
    """flag_by_member_names: the loader accepts exactly the names of `_get_cases(enum)` under the mapping generated for them. The
    dumper's closure may therefore emit only elements of THAT mapping (`mapping[case]` for a case of the loop): a name obtained
    from another call of the generator (for the zero member, for compound members under allow_compound=False) is one the
    loader of the same configuration refuses."""
    ci = m.classes.get("FlagByListProvider")
    fn = ci.methods.get("_make_dumper") if ci is not None else None
    if fn is None:
        raise AnalysisError("anchor vanished: FlagByListProvider._make_dumper")
    closures = [d for d in fn.body if isinstance(d, ast.FunctionDef)]
    if len(closures) != 1:
        raise AnalysisError("FlagByListProvider._make_dumper: expected one closure")
    cl = closures[0]
    # the mapping of the cases: assigned from generate_for_dumping(<cases>)
    maps = {norm(a.targets[0]): a.value for a in fn.body if isinstance(a, ast.Assign) and len(a.targets) == 1
            and "generate_for_dumping" in norm(a.value)}
    res.evaluated("flag-dumper:names-from-the-case-mapping", True)
    other_gen = [a for a in ast.walk(fn) if isinstance(a, ast.Call) and "generate_for_dumping" in norm(a.func)]
    if len(other_gen) > 1:
        extra = other_gen[1]
        res.add(Finding("C18", "FLAG.dumper-names-outside-cases", m.rel, "FlagByListProvider._make_dumper", norm(extra)[:100],
                        f"`{norm(extra)[:80]}`: the dumper consults the mapping generator a second time, for members that need not be among "
                        "the cases the loader knows (`_get_cases` drops the zero member and, without allow_compound, the compound "
                        "ones): a name emitted from there is refused by the loader of the same configuration", extra.lineno))
    free_lists = set()
    for r in [x for x in walk_no_nested(cl) if isinstance(x, ast.Return) and x.value is not None]:
        # a name that only DECIDES which value is returned (the test of a conditional expression) is not a returned value
        deciding = {id(x) for c in ast.walk(r.value) if isinstance(c, ast.IfExp) for x in ast.walk(c.test)}
        for nm in ast.walk(r.value):
            if id(nm) in deciding:
                continue
            if isinstance(nm, ast.Name) and nm.id not in {a.arg for a in cl.args.args} and nm.id not in maps \
                    and not any(isinstance(a, ast.Assign) and any(isinstance(t, ast.Name) and t.id == nm.id for t in a.targets) for a in ast.walk(cl)) \
                    and nm.id not in ("list", "reversed", "tuple"):
                free_lists.add(nm.id)
    for nm in sorted(free_lists):
        res.add(Finding("C18", "FLAG.dumper-names-outside-cases", m.rel, f"FlagByListProvider._make_dumper.{cl.name}", nm,
                        f"the dumper returns `{nm}`, prepared outside the closure and not an element of the mapping of the cases: whether "
                        "the loader of the same configuration knows these names is not established", cl.lineno))


def representation_bound_by_a_lasting_predicate(repo: Repo, res: CheckResult) -> None:
    """enum_by_name(A, B, ...), flag_by_member_names(A, B, ...): ONE provider object, bound by bound_by_any to the predicates, serves
    the loader AND the dumper of every listed class. If the predicate object stops matching after its first evaluations (operands
    held as a one-shot iterator) the dumper already handed out keeps the chosen representation while the loader requested later
    falls through to the default provider: dump by name, load by value. Audit shared with C10 (OP.one-shot-operands)."""
    from . import c10
    sub = CheckResult("C10")
    c10.reiterable_sites(repo, sub)
    res.evaluated("pred:representation-bound-by-lasting-predicate", True)
    for f in sub.findings:
        if "bound_by_any" in f.qualname or "facade/provider" in f.file:
            res.add(Finding("C18", "PRED.representation-bound-by-one-shot-predicate", f.file, f.qualname, f.construct,
                            "the representation providers (enum_by_name, enum_by_value, flag_by_member_names, ...) bind one provider to "
                            "several classes through this predicate; " + f.message + " -- the dumper and the loader of one enum class "
                            "then come from different providers (dumped by name, loaded by exact value): load(dump(m)) raises", f.line))
