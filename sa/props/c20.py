"""C20 — load, dump and convert are pure with respect to their arguments (clauses: DESIGN.md 3/C20)."""
from __future__ import annotations

import ast
from typing import Dict, List, Optional, Set, Tuple

from ..closures import Inventory
from ..core import AnalysisError, CheckResult, Finding, ModuleInfo, Repo, func_params, norm, walk_no_nested
from ..values import Resolver, ctx_for, strip_elemof

LEVEL = "other"
EXHAUSTIVE = True
EXPLANATION = (
    "(1) No argument mutation: in every loader, dumper and coercer closure (and the generator mappers they use) nothing "
    "reachable from the argument is stored into, deleted from, augmented, or receives a mutating method call "
    "(append/extend/insert/pop/popitem/remove/clear/update/setdefault/sort/reverse/add/discard/seek/read/write/"
    "truncate); aliases and loop elements are tracked. (2) Freshness: a closure never returns, nor fills and returns, a "
    "free variable that its factory bound to a mutable container (hoisting), every container it returns is created by an "
    "expression evaluated inside the closure body on each call, and container closures never return the argument itself. "
    "(3) Generated programs (tier G): the same two rules on the emitted model loaders/dumpers; extras are copied item-wise "
    "into a dict created in the body; factory defaults are calls in the body, namespace constants are never mutated; a "
    "default on the absent path never refers to a namespace container (shared or shallowly copied); module-level helpers "
    "the programs call are analysed with holder/tainted parameter modes for in-place modification of what they are given. "
    "(4) No functools memo in front of a function that processes user data."
)
RULE = "one evaluation = one closure (mutation rule) / one returned or filled container (freshness rule) / one program"
ASSUMPTIONS = ["sharing through values the documentation says are passed as is (Any, object, as-is loaders) is allowed",
               "purity of user supplied loaders, dumpers, constructors is outside the property"]

MUTATORS = {"append", "extend", "insert", "pop", "popitem", "remove", "clear", "update", "setdefault", "sort", "reverse",
            "add", "discard", "seek", "read", "readline", "readlines", "write", "truncate", "appendleft", "extendleft",
            "popleft", "rotate", "__setitem__", "__delitem__", "send", "close", "move_to_end", "intersection_update",
            "difference_update", "symmetric_difference_update", "writelines", "flush"}
MUTABLE_CALLS = {"dict", "list", "set", "defaultdict", "collections.defaultdict", "OrderedDict", "deque", "bytearray",
                 "collections.deque", "collections.OrderedDict"}
CONTAINER_MODULES = ("iterable_provider", "dict_provider", "constant_length_tuple_provider", "coercer_provider")


def _is_mutable_expr(e: ast.AST) -> bool:
    if isinstance(e, (ast.Dict, ast.List, ast.Set, ast.ListComp, ast.DictComp, ast.SetComp)):
        return True
    if isinstance(e, ast.Call) and norm(e.func) in MUTABLE_CALLS:
        return True
    return False


PASSTHROUGH_PREFIXES: Tuple[str, ...] = ()   # set by the tier-G audit: calls that may return their argument (as-is dumpers)


def tainted_names(fn: ast.FunctionDef, seeds: Set[str], holder_seeds: Optional[Set[str]] = None) -> Set[str]:
    """argument, its aliases, things iterated / subscripted / unpacked out of it (all reachable from the argument)"""
    t = set(seeds)
    # local containers filled with references to tainted objects (elements are tainted)
    holders: Set[str] = set(holder_seeds or ())
    changed = True
    while changed:
        changed = False
        for node in walk_no_nested(fn, include_root=False):
            if isinstance(node, ast.Call) and isinstance(node.func, ast.Attribute) and node.func.attr in ("append", "add", "insert") \
                    and isinstance(node.func.value, ast.Name) and node.func.value.id not in t | holders \
                    and node.args and _derives_from(node.args[-1], t):
                holders.add(node.func.value.id)
                changed = True
            src = None
            targets: List[ast.expr] = []
            if isinstance(node, ast.Assign):
                src, targets = node.value, list(node.targets)
            elif isinstance(node, (ast.For, ast.comprehension)):
                src, targets = node.iter, [node.target]
            elif isinstance(node, ast.NamedExpr):
                src, targets = node.value, [node.target]
            if src is None:
                continue
            if _derives_from(src, t) or _derives_from(src, holders) and not isinstance(src, ast.Name):
                for tg in targets:
                    if isinstance(tg, (ast.Subscript, ast.Attribute)):
                        # a reference to a tainted object is stored into a container: the container holds it
                        b = tg.value
                        if isinstance(b, ast.Name) and b.id not in t | holders:
                            holders.add(b.id)
                            changed = True
                        continue
                    for n in ast.walk(tg):
                        if isinstance(n, ast.Name) and isinstance(n.ctx, ast.Store) and n.id not in t:
                            t.add(n.id)
                            changed = True
    return t


def _derives_from(e: ast.AST, t: Set[str]) -> bool:
    """expression denotes (part of) a tainted object without copying it"""
    if isinstance(e, ast.Name):
        return e.id in t
    if isinstance(e, ast.Attribute):
        return _derives_from(e.value, t)
    if isinstance(e, ast.Subscript):
        return _derives_from(e.value, t)
    if isinstance(e, ast.Call):
        f = e.func
        # views / iterators over the same object
        if isinstance(f, ast.Attribute) and f.attr in ("items", "values", "keys", "get", "__iter__") and _derives_from(f.value, t):
            return True
        if isinstance(f, ast.Name) and f.id in ("iter", "zip", "enumerate", "reversed", "map", "filter") and any(
                _derives_from(a, t) for a in e.args):
            return True
        if isinstance(f, ast.Name) and f.id in t:
            return True   # bound method taken from the argument (items_method())
        if isinstance(f, ast.Name) and PASSTHROUGH_PREFIXES and f.id.startswith(PASSTHROUGH_PREFIXES) and len(e.args) == 1:
            return _derives_from(e.args[0], t)   # a field dumper/loader may hand back the very object it was given (as is)
        return False
    if isinstance(e, ast.IfExp):
        return _derives_from(e.body, t) or _derives_from(e.orelse, t)
    if isinstance(e, ast.Starred):
        return _derives_from(e.value, t)
    return False


def mutation_findings(m: ModuleInfo, fn: ast.FunctionDef, qual: str, role: str, res: CheckResult, prop: str = "C20",
                      seeds: Optional[Set[str]] = None, locate=None) -> int:
    params = func_params(fn)
    if not params:
        return 0
    t = tainted_names(fn, seeds or {params[0]})
    n = 0
    for node in walk_no_nested(fn, include_root=False):
        bad = None
        if isinstance(node, (ast.Assign, ast.AugAssign, ast.AnnAssign, ast.Delete)):
            targets = node.targets if isinstance(node, (ast.Assign, ast.Delete)) else [node.target]
            for tg in targets:
                if isinstance(tg, (ast.Subscript, ast.Attribute)) and _derives_from(tg.value, t):
                    bad = f"store through `{norm(tg)}`"
                if isinstance(node, ast.AugAssign) and isinstance(tg, ast.Name) and tg.id in t:
                    bad = f"augmented assignment to `{tg.id}` (in-place for mutable objects)"
        elif isinstance(node, ast.Call) and isinstance(node.func, ast.Attribute) and node.func.attr in MUTATORS \
                and _derives_from(node.func.value, t):
            bad = f"mutating call `.{node.func.attr}()`"
        if bad:
            n += 1
            file, q, line, construct = (m.rel if m is not None else "generated"), qual, getattr(node, "lineno", 0), norm(node)[:120]
            if locate is not None:
                file, q, line, construct = locate(node, construct)
            res.add(Finding(prop, "PURE.argument-mutation", file, q, construct,
                            f"{bad} on an object reachable from the {role}'s argument: the caller's datum/object is modified "
                            f"by the call (`{norm(node)[:100]}`)", line))
    return n


def helper_mutations(repo: Repo, m: ModuleInfo, fn: ast.FunctionDef, modes: Dict[str, str], depth: int = 0,
                     _seen: Optional[Set[Tuple[int, Tuple]]] = None) -> List[Tuple[ast.AST, str, str]]:
    """In-place modifications a module-level helper performs on objects reachable from its arguments.
    modes: parameter -> 'tainted' (the object itself belongs to the caller's datum) | 'holder' (a fresh container whose
    ELEMENTS belong to the datum: filling it is fine, modifying what is taken out of it is not). Calls of repo functions
    with a tainted argument are followed (depth 3). Returns (node, description, function name)."""
    _seen = _seen if _seen is not None else set()
    key = (id(fn), tuple(sorted(modes.items())))
    if key in _seen or depth > 3:
        return []
    _seen.add(key)
    seeds = {p for p, k in modes.items() if k == "tainted"}
    holders = {p for p, k in modes.items() if k == "holder"}
    t = tainted_names(fn, seeds, holders)
    out: List[Tuple[ast.AST, str, str]] = []
    for node in walk_no_nested(fn, include_root=False):
        if isinstance(node, (ast.Assign, ast.AugAssign, ast.AnnAssign, ast.Delete)):
            targets = node.targets if isinstance(node, (ast.Assign, ast.Delete)) else [node.target]
            for tg in targets:
                if isinstance(tg, (ast.Subscript, ast.Attribute)) and _derives_from(tg.value, t):
                    out.append((node, f"store through `{norm(tg)}`", fn.name))
        elif isinstance(node, ast.Call):
            if isinstance(node.func, ast.Attribute) and node.func.attr in MUTATORS and _derives_from(node.func.value, t):
                out.append((node, f"mutating call `{norm(node)[:60]}`", fn.name))
            elif isinstance(node.func, (ast.Name, ast.Attribute)):
                r = repo.resolve_expr_static(m, node.func)
                if r.kind == "func" and r.node is not None and isinstance(r.node, ast.FunctionDef):
                    ps = func_params(r.node)
                    sub = {}
                    for p, a in zip(ps, node.args):
                        if _derives_from(a, t):
                            sub[p] = "tainted"
                        elif isinstance(a, ast.Name) and a.id in holders:
                            sub[p] = "holder"
                    if sub:
                        out += helper_mutations(repo, r.module, r.node, sub, depth + 1, _seen)
    return out


def run(repo: Repo, tier: str, res: CheckResult, seed: int = 0) -> None:
    closure_findings(repo, res)
    container_coercers(repo, res)
    memoised_runtime_functions(repo, res)
    factory_called_at_build(repo, res)
    from .. import genprog
    genprog.c20_checks(repo, tier, res, seed)
    res.assumptions = list(ASSUMPTIONS)


def stateful_closures(repo: Repo, res: CheckResult, prop: str, rule: str, consequence: str) -> None:
    """A loader / dumper / coercer closure that modifies a container created ONCE by its factory keeps state between calls
    (an accumulator hoisted out of the call, a "last hit" table). The inventory is C20's (FRESH.hoisted-container-filled); the
    same construct breaks other properties, which report it under their own name with their own consequence."""
    sub = CheckResult("C20")
    closure_findings(repo, sub)
    res.evaluated(f"stateful-closures:{prop}", True)
    for f in sub.findings:
        if f.rule == "FRESH.hoisted-container-filled":
            res.add(Finding(prop, rule, f.file, f.qualname, f.construct, f.message + " -- " + consequence, f.line))


def closure_findings(repo: Repo, res: CheckResult) -> None:
    R = Resolver(repo)
    inv = Inventory(repo, R)
    n_closures = 0
    seen: Set[int] = set()
    todo: List[Tuple[ModuleInfo, ast.FunctionDef, str]] = []
    for c in inv.closures:
        if c.kind != "func" or c.fctx is None:
            continue
        todo.append((c.fctx.module, c.fctx.fn, c.role))
    # generator mappers and every other nested function with a data-like first parameter in the provider modules
    for m in repo.modules.values():
        if "/morphing/" not in m.rel and "/conversion/" not in m.rel:
            continue
        for node in ast.walk(m.tree):
            if isinstance(node, ast.FunctionDef) and m.enclosing_function(node) is not None and m.enclosing_class(node) is not None:
                ps = func_params(node)
                if ps and ps[0] in ("data", "iterable", "value"):
                    role = "coercer" if "/conversion/" in m.rel else ("dumper" if "dump" in node.name else "loader")
                    todo.append((m, node, role))
    for m, fn, role in todo:
        if id(fn) in seen:
            continue
        seen.add(id(fn))
        n_closures += 1
        qual = m.qualname(fn)
        res.evaluated(f"mutation:{m.rel}:{qual}", True)
        mutation_findings(m, fn, qual, role, res)
        freshness_findings(repo, R, m, fn, qual, role, res)
    res.count("PURE.closures", n_closures, 90)


def freshness_findings(repo: Repo, R: Resolver, m: ModuleInfo, fn: ast.FunctionDef, qual: str, role: str, res: CheckResult) -> None:
    params = set(func_params(fn))
    local: Set[str] = set(params)
    for node in walk_no_nested(fn, include_root=False):
        if isinstance(node, (ast.Assign, ast.AnnAssign, ast.AugAssign)):
            tgs = node.targets if isinstance(node, ast.Assign) else [node.target]
            for tg in tgs:
                for n in ast.walk(tg):
                    if isinstance(n, ast.Name) and isinstance(n.ctx, ast.Store):
                        local.add(n.id)
        elif isinstance(node, (ast.For, ast.comprehension)):
            for n in ast.walk(node.target):
                if isinstance(n, ast.Name):
                    local.add(n.id)
        elif isinstance(node, ast.ExceptHandler) and node.name:
            local.add(node.name)
    fctx = ctx_for(repo, m, fn)

    def hoisted_container(name: str) -> Optional[str]:
        """text of the mutable container expression a free variable is bound to in the factory, if any"""
        if name in local:
            return None
        for av in R.resolve(ast.Name(id=name, ctx=ast.Load()), fctx):
            av = strip_elemof(av)
            if av[0] == "expr" and _is_mutable_expr(av[1]):
                return norm(av[1])[:60]
            if av[0] == "extcall" and av[1].split(".")[-1] in MUTABLE_CALLS | {"list", "dict", "set"} \
                    and av[1].startswith(("builtins.", "collections.")):
                return norm(av[2])[:60]
        return None

    # (a) returned free containers
    for r in [x for x in walk_no_nested(fn) if isinstance(x, ast.Return) and x.value is not None]:
        if isinstance(r.value, ast.Name):
            res.evaluated(f"fresh:return:{m.rel}:{qual}:{r.value.id}", True)
            h = hoisted_container(r.value.id)
            if h is not None:
                res.add(Finding("C20", "FRESH.hoisted-container-returned", m.rel, qual, norm(r),
                                f"the {role} returns `{r.value.id}`, a container created once in the factory (`{h}`), not per "
                                "call: every result of this closure is the same object, later calls change earlier results",
                                r.lineno))
            # container closures must not hand back the argument itself
            if r.value.id in tainted_names(fn, {func_params(fn)[0]}) and any(s in m.rel for s in CONTAINER_MODULES) \
                    and r.value.id == func_params(fn)[0] and _reassigned(fn, r.value.id) is False:
                res.add(Finding("C20", "FRESH.argument-returned", m.rel, qual, norm(r),
                                f"a container {role} returns its argument: the result shares its container with the caller's "
                                "datum", r.lineno))
            # anywhere else: the datum is handed back under a type test that admits a MUTABLE class (`isinstance(data, (bytes,
            # bytearray))`): for a bytearray / list / dict datum the result IS the caller's object
            if r.value.id == func_params(fn)[0] and _reassigned(fn, r.value.id) is False and not any(s in m.rel for s in CONTAINER_MODULES):
                p_ = m.parent(r)
                while p_ is not None and p_ is not fn:
                    if isinstance(p_, ast.If) and any(r is x for st in p_.body for x in ast.walk(st)):
                        ttxt = norm(p_.test)
                        if r.value.id in ttxt and ("isinstance(" in ttxt or "type(" in ttxt):
                            classes = {nm.id for nm in ast.walk(p_.test) if isinstance(nm, ast.Name)} | \
                                      {a.attr for a in ast.walk(p_.test) if isinstance(a, ast.Attribute)}
                            mutable = sorted(classes & {"bytearray", "list", "dict", "set", "deque", "BytesIO", "defaultdict", "OrderedDict",
                                                        "memoryview", "MutableSequence", "MutableMapping", "MutableSet"})
                            if mutable:
                                res.add(Finding("C20", "FRESH.argument-returned", m.rel, qual, f"{norm(r)} under `{ttxt[:60]}`",
                                                f"the {role} returns its argument under `{ttxt[:80]}`, which admits the mutable class(es) "
                                                f"{mutable}: the result is the caller's own object -- a later change of the datum changes "
                                                "the loaded value, two loads of one datum share one buffer", r.lineno))
                    p_ = m.parent(p_)
    # (a') an ELEMENT of a container built once in the factory is handed out: sound for immutable elements (a str out of a
    # member -> name table), not for elements that are containers themselves (a precomputed list per member)
    def element_is_container(name: str) -> Optional[str]:
        if name in local:
            return None
        for av in R.resolve(ast.Name(id=name, ctx=ast.Load()), fctx):
            av = strip_elemof(av)
            if av[0] != "expr":
                continue
            e = av[1]
            vals: List[ast.expr] = []
            if isinstance(e, ast.DictComp):
                vals = [e.value]
            elif isinstance(e, ast.Dict):
                vals = [v for v in e.values if v is not None]
            elif isinstance(e, (ast.ListComp, ast.SetComp)):
                vals = [e.elt]
            elif isinstance(e, (ast.List, ast.Tuple)):
                vals = list(e.elts)
            for v in vals:
                if _is_mutable_expr(v) or isinstance(v, (ast.ListComp, ast.DictComp, ast.SetComp)):
                    return norm(e)[:60]
                if isinstance(v, ast.Call) and isinstance(v.func, ast.Name):
                    # a nested function of the factory that returns a list it has built
                    encl = m.enclosing_function(fn)
                    helper = next((d for d in ast.walk(encl) if isinstance(d, ast.FunctionDef) and d.name == v.func.id), None) if encl else None
                    if helper is not None:
                        built = {t.id for a in ast.walk(helper) if isinstance(a, ast.Assign) and _is_mutable_expr(a.value)
                                 for t in a.targets if isinstance(t, ast.Name)}
                        for r2 in [x for x in ast.walk(helper) if isinstance(x, ast.Return) and x.value is not None]:
                            if _is_mutable_expr(r2.value) or any(isinstance(x, ast.Name) and x.id in built for x in ast.walk(r2.value)):
                                return norm(e)[:60]
        return None
    for r in [x for x in walk_no_nested(fn) if isinstance(x, ast.Return) and x.value is not None]:
        v = r.value
        base = None
        if isinstance(v, ast.Subscript) and isinstance(v.value, ast.Name):
            base = v.value.id
        elif isinstance(v, ast.Call) and isinstance(v.func, ast.Attribute) and v.func.attr in ("get", "__getitem__") \
                and isinstance(v.func.value, ast.Name):
            base = v.func.value.id
        if base is None:
            continue
        res.evaluated(f"fresh:return-element:{m.rel}:{qual}:{base}", True)
        h = element_is_container(base)
        if h is not None:
            res.add(Finding("C20", "FRESH.hoisted-container-element-returned", m.rel, qual, norm(r),
                            f"the {role} returns `{norm(v)}`, an element of `{base}` which the factory built once (`{h}`) and whose elements are "
                            "containers: every call that hits the entry returns the SAME list, a caller that appends to or clears one "
                            "result corrupts all later results", r.lineno))
    # (b) free containers filled in the closure
    for node in walk_no_nested(fn, include_root=False):
        name = None
        if isinstance(node, (ast.Assign, ast.AugAssign)):
            tgs = node.targets if isinstance(node, ast.Assign) else [node.target]
            for tg in tgs:
                if isinstance(tg, ast.Subscript) and isinstance(tg.value, ast.Name):
                    name = tg.value.id
        elif isinstance(node, ast.Call) and isinstance(node.func, ast.Attribute) and node.func.attr in MUTATORS \
                and isinstance(node.func.value, ast.Name):
            name = node.func.value.id
        if name is None or name in local:
            continue
        res.evaluated(f"fresh:fill:{m.rel}:{qual}:{name}", True)
        h = hoisted_container(name)
        if h is not None:
            res.add(Finding("C20", "FRESH.hoisted-container-filled", m.rel, qual, norm(node)[:100],
                            f"the {role} modifies `{name}`, a container created once in the factory (`{h}`): state leaks from "
                            "one call into the next and into earlier results", getattr(node, "lineno", 0)))


def _reassigned(fn: ast.FunctionDef, name: str) -> bool:
    for node in walk_no_nested(fn, include_root=False):
        if isinstance(node, ast.Assign) and any(isinstance(t, ast.Name) and t.id == name for t in node.targets):
            return True
    return False


def container_coercers(repo: Repo, res: CheckResult) -> None:
    """converters rebuild every container: the structural coercer providers hand out only closures that build the
    destination container, and they stand before the pass-through providers in the builtin recipe (otherwise a same-typed
    list / dict field of the source object would be shared with the result)"""
    m = repo.mod("conversion/coercer_provider")
    n = 0
    for cname in ("IterableCoercerProvider", "DictCoercerProvider"):
        ci = m.classes.get(cname)
        if ci is None or "_provide_coercer_norm_types" not in ci.methods:
            raise AnalysisError(f"anchor vanished: {cname}._provide_coercer_norm_types")
        fn = ci.methods["_provide_coercer_norm_types"]
        closures = {d.name: d for d in fn.body if isinstance(d, ast.FunctionDef)}
        for r in [x for x in walk_no_nested(fn) if isinstance(x, ast.Return) and x.value is not None]:
            n += 1
            res.evaluated(f"fresh:container-coercer:{cname}:{norm(r.value)[:40]}", True)
            v = r.value
            if isinstance(v, ast.Name) and v.id in closures:
                cl = closures[v.id]
                rets = [x for x in walk_no_nested(cl) if isinstance(x, ast.Return) and x.value is not None]
                p0 = func_params(cl)[0]
                for cr in rets:
                    builds = isinstance(cr.value, (ast.DictComp, ast.ListComp, ast.SetComp, ast.Dict, ast.List)) or (
                        isinstance(cr.value, ast.Call) and not (isinstance(cr.value.func, ast.Name) and cr.value.func.id == p0))
                    if isinstance(cr.value, ast.Name) and cr.value.id == p0:
                        builds = False
                    if not builds:
                        res.add(Finding("C20", "FRESH.container-coercer-passthrough", m.rel, f"{cname}._provide_coercer_norm_types.{cl.name}",
                                        norm(cr), "the container coercer does not build a new container", cr.lineno))
                continue
            res.add(Finding("C20", "FRESH.container-coercer-passthrough", m.rel, f"{cname}._provide_coercer_norm_types", norm(r),
                            f"{cname} answers with `{norm(v)}` instead of a closure that builds the destination container: the "
                            "converted object then holds the source's own container (results share it with the argument and "
                            "with each other)", r.lineno))
    res.count("FRESH.container-coercer-returns", n, 2)
    # recipe order
    fr = repo.mod("conversion/facade/retort")
    ci = fr.classes.get("FilledConversionRetort")
    if ci is None or "recipe" not in ci.attrs or not isinstance(ci.attrs["recipe"], ast.List):
        raise AnalysisError("anchor vanished: FilledConversionRetort.recipe")
    order = [norm(e.func) if isinstance(e, ast.Call) else norm(e) for e in ci.attrs["recipe"].elts]
    res.evaluated("fresh:conversion-recipe-order", True)
    structural = [i for i, x in enumerate(order) if x in ("IterableCoercerProvider", "DictCoercerProvider")]
    passing = [i for i, x in enumerate(order) if x in ("SameTypeCoercerProvider", "SubclassCoercerProvider", "UnionSubcaseCoercerProvider")]
    if len(structural) != 2 or not passing:
        raise AnalysisError("FilledConversionRetort.recipe: structural / pass-through coercer providers not found")
    if max(structural) > min(passing):
        res.add(Finding("C20", "FRESH.recipe-order", fr.rel, "FilledConversionRetort", " < ".join(order),
                        "a pass-through coercer provider precedes the iterable/dict coercer providers: equal-typed containers "
                        "of the source would be handed to the result instead of being rebuilt", ci.node.lineno))


# ---------------------------------------------------------------------------------------------------------------------
# hidden memo: a loader / dumper / coercer wrapped in functools.lru_cache / cache answers from what EARLIER calls stored.
# The cache is keyed by == and hash, so True, 1 and 1.0 (Decimal('1.0') and Decimal('1.00'), ...) share an entry: the
# result for a datum then depends on which look-alike was seen first -- and an accepted look-alike makes a datum pass
# that a fresh retort rejects.

MEMO_WRAPPERS = {"functools.lru_cache", "functools.cache", "functools._lru_cache_wrapper", "lru_cache", "cache"}


def _memo_sites(tree: ast.AST, resolve) -> List[Tuple[ast.AST, ast.AST, str]]:
    """(site, wrapped callable, how) for every application of a memoising wrapper"""
    out = []

    def is_wrapper(e: ast.AST) -> bool:
        if isinstance(e, ast.Call):          # lru_cache(maxsize=...)
            return is_wrapper(e.func)
        return isinstance(e, (ast.Name, ast.Attribute)) and resolve(e) in MEMO_WRAPPERS
    for node in ast.walk(tree):
        if isinstance(node, (ast.FunctionDef, ast.AsyncFunctionDef)):
            for d in node.decorator_list:
                if is_wrapper(d):
                    out.append((node, node, "decorator"))
        elif isinstance(node, ast.Call) and node.args and is_wrapper(node.func) and not node.keywords:
            # lru_cache(maxsize=8)(f)  or  cache(f)  -- but not the configuration call lru_cache(128)
            a = node.args[0]
            if isinstance(node.func, ast.Call) or not isinstance(a, ast.Constant):
                out.append((node, a, "call"))
    return out


def memoised_runtime_functions(repo: Repo, res: CheckResult) -> None:
    n = 0
    for m in repo.modules.values():
        if "/morphing/" not in m.rel and "/conversion/" not in m.rel:
            continue

        def resolve(e, m=m):
            r = repo.resolve_expr_static(m, e)
            return r.name if r.kind == "ext" else None
        for site, wrapped, how in _memo_sites(m.tree, resolve):
            enc = m.enclosing_function(site)
            runtime = False
            if isinstance(wrapped, (ast.FunctionDef, ast.Lambda)):
                runtime = enc is not None      # a closure built by a provider
                if enc is None and isinstance(wrapped, ast.FunctionDef):
                    ps = func_params(wrapped)
                    runtime = bool(ps) and ps[0] in ("data", "value", "obj")
            elif isinstance(wrapped, (ast.Name, ast.Attribute)):
                r = repo.resolve_expr_static(m, wrapped)
                runtime = enc is not None and r.kind not in ("func", "class", "ext")   # a parameter / free variable, not a module helper
            n += 1
            res.evaluated(f"memo:{m.rel}:{getattr(site, 'lineno', 0)}", True)
            if runtime:
                res.add(Finding("C20", "MEMO.runtime-function-memoised", m.rel, m.qualname(enc) if enc is not None else "<module>",
                                norm(site)[:100] if how == "call" else f"@memo def {wrapped.name}",
                                f"`{norm(site)[:80]}` puts a memo in front of a function that processes user data: the cache is "
                                "keyed by == / hash, so look-alike data (True / 1 / 1.0, Decimal('1.0') / Decimal('1.00')) get the "
                                "answer stored for whichever came first -- results (and acceptance) depend on the call history",
                                getattr(site, "lineno", 0)))
    res.count("MEMO.wrapper-sites", n, 0)
    # zero-expected rule: keep a positive fixture alive
    fx = ast.parse("from functools import lru_cache\n"
                   "class P:\n    def _make_loader(self, key_loader):\n        key_loader = lru_cache(maxsize=512)(key_loader)\n"
                   "        def f(data):\n            return key_loader(data)\n        return f\n")
    got = _memo_sites(fx, lambda e: "functools.lru_cache" if norm(e) == "lru_cache" else None)
    if len(got) != 1 or norm(got[0][1]) != "key_loader":
        raise AnalysisError("MEMO rule fixture no longer matches")
    res.evaluated("memo:fixture", True)


# ---------------------------------------------------------------------------------------------------------------------
# A default / link_constant FACTORY produces a new object per call of the loader or converter. Provider code may hand the
# factory on (FunctionElement, namespace constant called in the body) but must not call it itself and keep the product: a
# product frozen into a ConstantElement / DefaultValue / namespace constant is one object for every result.
_FREEZERS = ("ConstantElement", "DefaultValue", "add_constant", "add_outer_constant", "try_add_constant")


def factory_called_at_build(repo: Repo, res: CheckResult) -> None:
    n = 0
    for m in repo.modules.values():
        if "/morphing/" not in m.rel and "/conversion/" not in m.rel:
            continue
        for fn in [f for f in ast.walk(m.tree) if isinstance(f, ast.FunctionDef)]:
            calls = [c for c in walk_no_nested(fn, include_root=False)
                     if isinstance(c, ast.Call) and isinstance(c.func, ast.Attribute) and c.func.attr == "factory" and not c.args and not c.keywords]
            for c in calls:
                n += 1
                res.evaluated(f"factory-at-build:{m.rel}:{m.qualname(fn)}:{c.lineno}", True)
                frozen = None
                p = m.parent(c)
                names: Set[str] = set()
                while p is not None and p is not fn:
                    if isinstance(p, ast.Call) and norm(p.func).split(".")[-1] in _FREEZERS:
                        frozen = p
                        break
                    if isinstance(p, ast.Assign):
                        names |= {t.id for t in p.targets if isinstance(t, ast.Name)}
                    p = m.parent(p)
                if frozen is None and names:
                    for fz in walk_no_nested(fn, include_root=False):
                        if isinstance(fz, ast.Call) and norm(fz.func).split(".")[-1] in _FREEZERS and any(
                                isinstance(x, ast.Name) and x.id in names for x in ast.walk(fz)):
                            frozen = fz
                            break
                if frozen is not None:
                    res.add(Finding("C20", "FRESH.factory-product-frozen", m.rel, m.qualname(fn), norm(frozen)[:100],
                                    f"`{norm(c)}` calls the user's factory while the loader / converter is BUILT and `{norm(frozen)[:60]}` keeps "
                                    "the product: unless it happens to be renderable as a literal it is one object shared by every "
                                    "result (and the factory is never run again)", c.lineno))
    res.count("FRESH.build-time-factory-calls", n, 0)
    fx = ast.parse("def g(self, linking):\n    return ConstantElement(value=linking.constant.factory())\n")
    if not [c for c in ast.walk(fx) if isinstance(c, ast.Call) and isinstance(c.func, ast.Attribute) and c.func.attr == "factory"]:
        raise AnalysisError("factory-at-build fixture no longer matches")
