"""C12 — a shared retort is safe under concurrent first use (clauses: DESIGN.md 3/C12)."""
from __future__ import annotations

import ast
from typing import Dict, List, Optional, Set, Tuple

from ..core import AnalysisError, CheckResult, ClassInfo, Finding, ModuleInfo, Repo, func_params, norm, walk_no_nested
from .c11 import INIT_METHODS, MUTATORS, STORE_EXCEPTIONS, _derived_dicts, dict_subclass_instance, _store_target, attr_aliases, param_attr_aliases

LEVEL = "other"
EXHAUSTIVE = True
EXPLANATION = (
    "Ownership / effect analysis of every write to state two threads can reach (module globals, class attributes, "
    "attributes of retorts and providers, the call cache handed to mediators). (1) Each such write is classified: under "
    "`with <Lock>`; or an atomic idempotent publish (one `d[k] = v` into an insert-only cache created per retort, "
    "`v` a completely constructed local, readers recompute on a miss); anything else -- read-modify-write, deletion from "
    "a shared cache, a second store in the same method, mutation of a module-level container -- is a violation. "
    "(2) Thread confinement: classes whose instances change after construction (request buses, recursion resolver, "
    "mediator, code builders, generator states, namespaces) are instantiated inside functions only and never stored "
    "into module-, class-, retort- or provider-lifetime state; _create_mediator builds buses and resolvers per call. "
    "(3) Two-phase objects (an attribute is None after __init__ and bound later, e.g. the recursion stub) whose lifetime "
    "is one request must compare by identity, because they are arguments of the shared call cache: with value equality "
    "another thread's request receives a closure that refers to a still unbound stub. (4) The body of every `with "
    "<Lock>` makes no call out of the module (no second lock, no user code): no lock-order cycle exists."
)
RULE = "one evaluation = one shared write / one instantiation site of a stateful class / one two-phase class / one lock body"
ASSUMPTIONS = ["CPython: a single dict item assignment or lookup is atomic (GIL); free-threaded builds are outside",
               "third-party state (pydantic, sqlalchemy, typing caches) is outside",
               "all interleavings are not enumerated: the rules are necessary conditions over the shape of the code"]

SHARED_BASES = ("Cloneable", "Provider")
# stateful helper classes that are legitimately long-lived, one line of reason each
SHARED_STATEFUL_OK = {
    "ConcurrentCounter": "every mutation is under its own lock (verified on each run by _all_mutations_locked)",
    "CodeGenAccumulator": "documented debugging accumulator (list.append is atomic); never read by providers",
}


def run(repo: Repo, tier: str, res: CheckResult, seed: int = 0) -> None:
    shared_writes(repo, res)
    module_globals(repo, res)
    confinement(repo, res)
    two_phase(repo, res)
    lock_bodies(repo, res)
    per_request_objects(repo, res)
    handed_over_containers(repo, res)
    shared_tables_are_builtin_dicts(repo, res)
    callables_do_not_consume_their_own_state(repo, res)
    from .c20 import stateful_closures
    stateful_closures(repo, res, "C12", "RACE.runtime-closure-shares-state",
                      "every thread that uses the retort runs this one closure: the container is read and modified concurrently without a lock, and a re-entrant call (recursive types) clobbers the state of the outer one")
    res.assumptions = list(ASSUMPTIONS)


# ------------------------------------------------------------------------------------------ helpers
def _lifetime(repo: Repo, ci: ClassInfo) -> Optional[str]:
    if repo.is_subclass(ci, "Cloneable"):
        return "retort"
    if repo.is_subclass(ci, "Provider"):
        return "provider"
    if ci.name == "Overlay" or repo.is_subclass(ci, "Overlay"):
        return "class-level"
    return None


def _under_lock(m: ModuleInfo, node: ast.AST) -> bool:
    p = m.parent(node)
    while p is not None and not isinstance(p, (ast.FunctionDef, ast.Module)):
        if isinstance(p, ast.With) and any("lock" in norm(it.context_expr).lower() for it in p.items):
            return True
        p = m.parent(p)
    return False


def _mutating_methods(ci: ClassInfo) -> Dict[str, List[str]]:
    """methods other than constructors that store into self / mutate a container of self"""
    out: Dict[str, List[str]] = {}
    for mname, fn in ci.methods.items():
        if mname in INIT_METHODS:
            continue
        if any(norm(d) in ("classmethod", "staticmethod") for d in fn.decorator_list):
            continue   # alternative constructors (`self = cls.__new__(cls); self._x = ...`) build a new object
        al = attr_aliases(fn)
        for node in ast.walk(fn):
            st = _store_target(node, al)
            if st is not None and st[0] == "self":
                out.setdefault(mname, []).append(st[3])
    return out


def _all_mutations_locked(ci: ClassInfo) -> bool:
    m = ci.module
    for mname, fn in ci.methods.items():
        if mname in INIT_METHODS:
            continue
        al = attr_aliases(fn)
        for node in ast.walk(fn):
            st = _store_target(node, al)
            if st is not None and st[0] == "self" and not _under_lock(m, node):
                return False
    return True


# ------------------------------------------------------------------------------------------ (1) shared writes
def shared_writes(repo: Repo, res: CheckResult) -> None:
    n = 0
    for ci in repo.all_classes():
        life = _lifetime(repo, ci)
        mediator_like = repo.is_subclass(ci, "Mediator")
        if life is None and not mediator_like:
            continue
        m = ci.module
        derived = _derived_dicts(repo, ci)
        pal = param_attr_aliases(ci)
        for mname, fn in ci.methods.items():
            if mname in INIT_METHODS:
                continue
            stores = []
            al = {**attr_aliases(fn), **pal.get(mname, {})}
            for node in ast.walk(fn):
                st = _store_target(node, al)
                if st is None or st[0] not in ("self", "cls"):
                    continue
                stores.append((node, st))
            for node, (root, attr, is_item, text) in stores:
                if mediator_like and attr != "_call_cache":
                    continue   # the mediator itself is per request (rule 2); only the shared cache it holds matters
                n += 1
                res.evaluated(f"write:{ci.name}.{mname}:{text}", True)
                qual = f"{ci.name}.{mname}"
                if (ci.name, attr) in STORE_EXCEPTIONS or any((b.name, attr) in STORE_EXCEPTIONS for b in repo.mro(ci)):
                    continue
                if _under_lock(m, node):
                    continue
                cache = is_item and (attr in derived or (mediator_like and attr == "_call_cache"))
                if isinstance(node, ast.AugAssign):
                    res.add(Finding("C12", "RACE.read-modify-write", m.rel, qual, text,
                                    f"`{text}` reads and writes shared {life or 'retort'}-lifetime state in two steps without a "
                                    "lock: two threads lose an update", node.lineno))
                    continue
                if isinstance(node, ast.Delete) or (isinstance(node, ast.Call) and node.func.attr in (
                        "pop", "popitem", "clear", "remove", "discard")):
                    res.add(Finding("C12", "RACE.cache-not-insert-only", m.rel, qual, text,
                                    f"`{text}` removes entries from shared state: a reader that saw the key (`if k in cache: "
                                    "return cache[k]`) fails with KeyError, and readers no longer tolerate a miss by "
                                    "recomputing", node.lineno))
                    continue
                if cache and isinstance(node, ast.Assign):
                    # atomic publish: the stored value is a finished local (a name / a call result already bound)
                    v = node.value
                    if isinstance(v, ast.Name):
                        continue
                    res.add(Finding("C12", "RACE.publish-unfinished", m.rel, qual, text,
                                    f"`{text}` publishes an expression instead of a completely constructed local: other "
                                    "threads may observe it before it is complete", node.lineno))
                    continue
                if cache:
                    # setdefault / update on the cache
                    if isinstance(node, ast.Call) and node.func.attr in ("setdefault",):
                        continue
                res.add(Finding("C12", "RACE.unprotected-shared-write", m.rel, qual, text,
                                f"{life or 'shared'}-lifetime object is modified after construction by `{text}` without a lock "
                                "and it is not an insert into a per-retort cache: concurrent requests observe half-made "
                                "state", node.lineno))
            # the same entry written twice in one method: between the two stores other threads read the first value (a bare
            # function that is wrapped a moment later)
            seen_items: Dict[str, ast.AST] = {}
            for node, (root, attr, is_item, text) in stores:
                if is_item and attr in derived and isinstance(node, ast.Assign) and isinstance(node.targets[0], ast.Subscript):
                    key = f"{attr}[{norm(node.targets[0].slice)}]"
                    if key in seen_items and not _under_lock(m, node):
                        res.add(Finding("C12", "RACE.entry-published-twice", m.rel, f"{ci.name}.{mname}", key,
                                        f"`{text}` replaces an entry of the shared cache that the same method stored a moment before: "
                                        "in between, other threads use (and may keep) the first, unfinished value", node.lineno))
                    seen_items[key] = node
            # a method that inserts into two different shared caches is a multi-step update
            cache_attrs = {st[1] for _, st in stores if st[2] and st[1] in derived}
            if len(cache_attrs) > 1:
                res.add(Finding("C12", "RACE.multi-step-update", m.rel, f"{ci.name}.{mname}", ", ".join(sorted(cache_attrs)),
                                "one method updates several shared caches: another thread can observe the first update "
                                "without the second", fn.lineno))
    # publish-then-mutate: an object stored into shared state outside the constructors must be complete at that moment
    for ci in repo.all_classes():
        if _lifetime(repo, ci) is None:
            continue
        m = ci.module
        for mname, fn in ci.methods.items():
            if mname in INIT_METHODS:
                continue
            pubs = []
            for a in walk_no_nested(fn, include_root=False):
                if isinstance(a, ast.Assign):
                    attrs = [t for t in a.targets if isinstance(t, ast.Attribute) and norm(t.value) in ("self", "cls")]
                    if attrs:
                        aliases = {t.id for t in a.targets if isinstance(t, ast.Name)}
                        if isinstance(a.value, ast.Name):
                            aliases.add(a.value.id)
                        pubs.append((a, norm(attrs[0]), aliases))
            for a, attr_txt, aliases in pubs:
                n += 1
                res.evaluated(f"publish:{ci.name}.{mname}:{attr_txt}", True)
                for later in walk_no_nested(fn, include_root=False):
                    if getattr(later, "lineno", 0) <= a.lineno:
                        continue
                    st = None
                    if isinstance(later, (ast.Assign, ast.AugAssign)):
                        tg = later.targets[0] if isinstance(later, ast.Assign) else later.target
                        if isinstance(tg, ast.Subscript):
                            st = norm(tg.value)
                    elif isinstance(later, ast.Call) and isinstance(later.func, ast.Attribute) and later.func.attr in MUTATORS:
                        st = norm(later.func.value)
                    elif isinstance(later, ast.Delete) and isinstance(later.targets[0], ast.Subscript):
                        st = norm(later.targets[0].value)
                    if st is not None and (st in aliases or st == attr_txt) and not _under_lock(m, later):
                        res.add(Finding("C12", "RACE.publish-then-mutate", m.rel, f"{ci.name}.{mname}", f"{norm(a)[:60]} ... {norm(later)[:60]}",
                                        f"`{attr_txt}` is published first and filled afterwards (`{norm(later)[:80]}`): a thread that "
                                        "reads it between the two steps works with a half-made table (and may cache what it "
                                        "derived from it)", later.lineno))
                        break
    res.count("RACE.shared-writes", n, 4)
    # the read side of the call cache tolerates a miss
    mm = repo.mod("retort/builtin_mediator")
    ci = mm.classes.get("BuiltinMediator")
    if ci is None or "cached_call" not in ci.methods:
        raise AnalysisError("anchor vanished: BuiltinMediator.cached_call")
    fn = ci.methods["cached_call"]
    res.evaluated("cached_call:miss-tolerant", True)
    calls = [c for c in ast.walk(fn) if isinstance(c, ast.Call) and isinstance(c.func, ast.Name) and c.func.id == func_params(fn)[1]]
    stores = [s for s in ast.walk(fn) if isinstance(s, ast.Assign) and isinstance(s.targets[0], ast.Subscript)
              and norm(s.targets[0].value) == "self._call_cache"]
    if len(calls) != 1 or len(stores) != 1 or not isinstance(stores[0].value, ast.Name):
        res.add(Finding("C12", "RACE.cached-call-shape", mm.rel, "BuiltinMediator.cached_call", norm(fn)[:200],
                        "cached_call must compute the result into a local and publish it with a single item assignment",
                        fn.lineno))
    else:
        # nothing between lookup and publish touches the cache except the single store; result is returned from the local
        rets = [r for r in walk_no_nested(fn) if isinstance(r, ast.Return) and r.value is not None]
        if not any(norm(r.value) == stores[0].value.id for r in rets):
            res.add(Finding("C12", "RACE.cached-call-shape", mm.rel, "BuiltinMediator.cached_call", "; ".join(norm(r) for r in rets),
                            "after a miss the freshly computed local must be returned (re-reading the cache races with "
                            "other writers)", fn.lineno))


def module_globals(repo: Repo, res: CheckResult) -> None:
    """containers / stateful objects bound at module level and mutated from inside functions"""
    n = 0
    for m in repo.modules.values():
        if "/_internal/" not in m.rel and not m.rel.startswith("adaptix/_internal"):
            continue
        globs: Dict[str, ast.expr] = {}
        for st in m.tree.body:
            if isinstance(st, (ast.Assign, ast.AnnAssign)) and st.value is not None:
                tgts = st.targets if isinstance(st, ast.Assign) else [st.target]
                for t in tgts:
                    if isinstance(t, ast.Name):
                        globs[t.id] = st.value
        if not globs:
            continue
        for fn in [x for x in ast.walk(m.tree) if isinstance(x, (ast.FunctionDef, ast.AsyncFunctionDef))]:
            local = set(func_params(fn)) | {t.id for a in ast.walk(fn) if isinstance(a, ast.Assign) for t in a.targets
                                            if isinstance(t, ast.Name)}
            declared_global = {nm for g in ast.walk(fn) if isinstance(g, ast.Global) for nm in g.names}
            for node in walk_no_nested(fn, include_root=False):
                name = None
                text = norm(node)[:100]
                if isinstance(node, (ast.Assign, ast.AugAssign)):
                    tg = node.targets[0] if isinstance(node, ast.Assign) else node.target
                    base = tg
                    while isinstance(base, (ast.Subscript, ast.Attribute)):
                        base = base.value
                    if isinstance(base, ast.Name) and (base is not tg or base.id in declared_global):
                        name = base.id
                elif isinstance(node, ast.Call) and isinstance(node.func, ast.Attribute) and node.func.attr in MUTATORS \
                        and isinstance(node.func.value, ast.Name):
                    name = node.func.value.id
                if name is None or name not in globs or (name in local and name not in declared_global):
                    continue
                n += 1
                res.evaluated(f"global:{m.rel}:{name}:{text}", True)
                if _under_lock(m, node):
                    continue
                # idempotent publish into linecache / registration tables at import time is not inside a function
                res.add(Finding("C12", "RACE.module-global-mutated", m.rel, m.qualname(fn), text,
                                f"module-level object `{name}` is modified inside a function without a lock: every thread of "
                                "the process shares it", getattr(node, "lineno", 0)))
    res.coverage["module_global_mutations"] = n


# ------------------------------------------------------------------------------------------ (2) confinement
def _stateful_classes(repo: Repo) -> Dict[str, ClassInfo]:
    out = {}
    for ci in repo.all_classes():
        if _lifetime(repo, ci) is not None:
            continue
        if not ci.module.rel.startswith("adaptix/_internal"):
            continue
        if _mutating_methods(ci):
            out[ci.name] = ci
    return out


def confinement(repo: Repo, res: CheckResult) -> None:
    stateful = _stateful_classes(repo)
    # subclasses inherit statefulness
    changed = True
    while changed:
        changed = False
        for ci in repo.all_classes():
            if ci.name not in stateful and ci.module.rel.startswith("adaptix/_internal") and _lifetime(repo, ci) is None \
                    and any(b.name in stateful for b in repo.mro(ci)[1:]):
                stateful[ci.name] = ci
                changed = True
    n = 0
    for m in repo.modules.values():
        if not m.rel.startswith("adaptix/_internal"):
            continue
        for c in ast.walk(m.tree):
            if not (isinstance(c, ast.Call) and norm(c.func).split(".")[-1] in stateful):
                continue
            cname = norm(c.func).split(".")[-1]
            n += 1
            fn = m.enclosing_function(c)
            encl_cls = m.enclosing_class(c)
            res.evaluated(f"confine:{m.rel}:{m.qualname(c)}:{cname}", True)
            if cname == "CodeGenAccumulator":
                continue
            if fn is None and _all_mutations_locked(stateful[cname]):
                continue   # process-lifetime object whose every mutation happens under its lock
            if fn is None:
                # module level or class body: default arguments and class attributes live as long as the process
                res.add(Finding("C12", "CONFINE.process-lifetime", m.rel, m.qualname(c) or "<module>", norm(c)[:100],
                                f"`{cname}` changes after construction ({', '.join(list(_mutating_methods(stateful[cname]))[:3]) or 'inherited'}) "
                                "and is instantiated at module/class level: all threads share the instance", c.lineno))
                continue
            # default argument of a function / method
            if any(c is d or any(c is x for x in ast.walk(d)) for d in list(fn.args.defaults) + [k for k in fn.args.kw_defaults if k is not None]):
                res.add(Finding("C12", "CONFINE.process-lifetime", m.rel, m.qualname(fn), norm(c)[:100],
                                f"`{cname}` is a default argument: one instance for the whole process", c.lineno))
                continue
            # stored into an attribute of a shared-lifetime object
            par = m.parent(c)
            tgt = None
            if isinstance(par, ast.Assign):
                tgt = par.targets[0]
            elif isinstance(par, ast.AnnAssign):
                tgt = par.target
            if isinstance(tgt, (ast.Attribute, ast.Subscript)) and encl_cls is not None and _lifetime(repo, encl_cls) is not None:
                base = tgt
                while isinstance(base, ast.Subscript):
                    base = base.value
                if isinstance(base, ast.Attribute) and norm(base.value) in ("self", "cls"):
                    res.add(Finding("C12", "CONFINE.escapes-to-shared", m.rel, m.qualname(fn), norm(par)[:120],
                                    f"a `{cname}` (mutable after construction) is stored into `{norm(tgt)}` of a "
                                    f"{_lifetime(repo, encl_cls)}-lifetime object: requests of different threads share it", c.lineno))
    res.count("CONFINE.instantiation-sites", n, 15)
    res.coverage["stateful_classes"] = sorted(stateful)


def per_request_objects(repo: Repo, res: CheckResult) -> None:
    """_create_mediator builds the request buses (and through them the recursion resolvers) on every call"""
    m = repo.mod("retort/searching_retort")
    ci = m.classes.get("SearchingRetort")
    if ci is None or "_create_mediator" not in ci.methods:
        raise AnalysisError("anchor vanished: SearchingRetort._create_mediator")
    fn = ci.methods["_create_mediator"]
    res.evaluated("per-request:buses", True)
    calls = [c for c in ast.walk(fn) if isinstance(c, ast.Call) and norm(c.func) == "self._create_request_bus"]
    stores_self = [a for a in ast.walk(fn) if isinstance(a, (ast.Assign, ast.AnnAssign)) and any(
        isinstance(t, (ast.Attribute, ast.Subscript)) and norm(t).startswith("self.")
        for t in (a.targets if isinstance(a, ast.Assign) else [a.target]))]
    if not calls:
        res.add(Finding("C12", "CONFINE.buses-not-per-request", m.rel, "SearchingRetort._create_mediator", "no _create_request_bus call",
                        "request buses (which own the recursion resolver's in-flight table) must be created for every "
                        "top-level request; reusing buses across requests shares in-flight state between threads", fn.lineno))
    for a in stores_self:
        res.add(Finding("C12", "CONFINE.buses-not-per-request", m.rel, "SearchingRetort._create_mediator", norm(a)[:100],
                        "_create_mediator stores per-request objects into the retort", a.lineno))
    # reads of a retort attribute that holds buses/resolvers
    for x in ast.walk(fn):
        if isinstance(x, ast.Attribute) and norm(x.value) == "self" and any(k in x.attr for k in ("request_bus", "resolver", "mediator")) \
                and not x.attr.startswith("_create"):
            res.add(Finding("C12", "CONFINE.buses-not-per-request", m.rel, "SearchingRetort._create_mediator", norm(x),
                            "per-request objects are taken from the retort instead of being created", x.lineno))
    cr = ci.methods.get("_create_request_bus")
    res.evaluated("per-request:resolver", True)
    if cr is None or not any(isinstance(c, ast.Call) and norm(c.func) == "self._create_recursion_resolver" for c in ast.walk(cr)):
        res.add(Finding("C12", "CONFINE.resolver-not-per-request", m.rel, "SearchingRetort._create_request_bus", "resolver",
                        "the recursion resolver must be created together with its bus (per request)", cr.lineno if cr else fn.lineno))


# ------------------------------------------------------------------------------------------ (3) two-phase objects
def two_phase(repo: Repo, res: CheckResult) -> None:
    n = 0
    for ci in repo.all_classes():
        if not ci.module.rel.startswith("adaptix/_internal"):
            continue
        init = ci.methods.get("__init__")
        if init is None:
            continue
        none_attrs = {t.attr for a in ast.walk(init) if isinstance(a, ast.Assign) and isinstance(a.value, ast.Constant) and a.value.value is None
                      for t in a.targets if isinstance(t, ast.Attribute) and norm(t.value) == "self"}
        late = set()
        for mname, fn in ci.methods.items():
            if mname in INIT_METHODS:
                continue
            for a in ast.walk(fn):
                if isinstance(a, ast.Assign):
                    for t in a.targets:
                        if isinstance(t, ast.Attribute) and norm(t.value) == "self" and t.attr in none_attrs:
                            late.add(t.attr)
        if not late:
            continue
        n += 1
        res.evaluated(f"two-phase:{ci.name}", True)
        res.sample({"two_phase_class": ci.name, "late_bound": sorted(late),
                    "defines_eq": "__eq__" in ci.methods, "defines_hash": "__hash__" in ci.methods})
        for dunder in ("__eq__", "__hash__"):
            fn = ci.methods.get(dunder)
            if fn is None:
                continue
            body = norm(fn)
            by_identity = "id(self)" in body or " is other" in body or "object.__" in body
            if not by_identity:
                res.add(Finding("C12", "TWO-PHASE.value-equality", ci.module.rel, f"{ci.name}.{dunder}", norm(fn)[:160],
                                f"`{ci.name}` is bound in two phases ({sorted(late)} is None until a later call) and defines "
                                f"{dunder} by value: as an argument of the shared call cache it makes an entry created by an "
                                "in-flight request (possibly in another thread) match a new request, which then calls the "
                                "still unbound object (TypeError: 'NoneType' object is not callable)", fn.lineno))
    res.count("TWO-PHASE.classes", n, 1)


# ------------------------------------------------------------------------------------------ (4) lock bodies
def lock_bodies(repo: Repo, res: CheckResult) -> None:
    n = 0
    for m in repo.modules.values():
        if not m.rel.startswith("adaptix/_internal"):
            continue
        for w in ast.walk(m.tree):
            if not (isinstance(w, ast.With) and any("lock" in norm(it.context_expr).lower() for it in w.items)):
                continue
            n += 1
            res.evaluated(f"lock:{m.rel}:{m.qualname(w)}", True)
            for c in ast.walk(ast.Module(body=w.body, type_ignores=[])):
                if isinstance(c, ast.Call):
                    f = norm(c.func)
                    if f.split(".")[-1] in ("get", "setdefault", "pop", "items", "keys", "values", "len", "int", "str"):
                        continue
                    res.add(Finding("C12", "LOCK.call-under-lock", m.rel, m.qualname(w), norm(c)[:100],
                                    "a call is made while the lock is held: if it reaches user code or another lock the "
                                    "program can deadlock; the critical section must consist of dict operations only",
                                    c.lineno))
                if isinstance(c, ast.With) and c is not w and any("lock" in norm(it.context_expr).lower() for it in c.items):
                    res.add(Finding("C12", "LOCK.nested", m.rel, m.qualname(w), norm(c.items[0].context_expr),
                                    "nested lock acquisition: a lock order must be proven", c.lineno))
    res.count("LOCK.critical-sections", n, 1)


# ------------------------------------------------------------------------------------------ (6) shared containers in request objects
# retort-lifetime containers that per-request objects may write, one line of reason each
HANDED_OK = {
    ("BuiltinMediator", "_call_cache"):
        "insert-only; the key is (func, *args): it contains the very loaders / stubs the cached closure is built from, and stubs "
        "compare by identity (rule TWO-PHASE), so another request can only hit an entry whose ingredients it holds itself",
}


def handed_over_containers(repo: Repo, res: CheckResult) -> None:
    """Mediators, request buses and recursion resolvers live for one top-level request; what they produce while a
    recursive request is in flight (responses, loaders) may refer to recursion stubs that are bound only when that
    request finishes. A container of retort lifetime that such an object fills therefore hands half-made values to other
    threads -- unless its key pins the ingredients, which is confirmed for the call cache only."""
    handed: Dict[Tuple[str, str], Tuple[ClassInfo, str, str, int]] = {}
    n = 0
    for ci in repo.all_classes():
        if _lifetime(repo, ci) is None:
            continue
        derived = _derived_dicts(repo, ci)
        if not derived:
            continue
        m = ci.module
        for mname, fn in ci.methods.items():
            al = {k: v[1] for k, v in attr_aliases(fn).items() if v[1] in derived}
            for call in ast.walk(fn):
                if not isinstance(call, ast.Call):
                    continue
                given = [(i, None, a) for i, a in enumerate(call.args)] + [(None, k.arg, k.value) for k in call.keywords if k.arg]
                for pos, kw, a in given:
                    src = None
                    if isinstance(a, ast.Attribute) and norm(a.value) == "self" and a.attr in derived:
                        src = a.attr
                    elif isinstance(a, ast.Name) and a.id in al:
                        src = al[a.id]
                    if src is None:
                        continue
                    r = repo.resolve_expr_static(m, call.func) if isinstance(call.func, (ast.Name, ast.Attribute)) else None
                    if r is None or r.kind != "class" or r.cls is None:
                        continue
                    callee = r.cls
                    # the attribute the constructor stores the parameter under (through super().__init__ chains: by name)
                    pname = kw
                    init = repo.find_method(callee, "__init__")
                    if pname is None and init is not None and pos is not None:
                        ps = func_params(init[1])[1:]
                        pname = ps[pos] if pos < len(ps) else None
                    if pname is None:
                        raise AnalysisError(f"{ci.name}.{mname}: cannot bind the shared container `{src}` to a parameter of {callee.name}")
                    attr = None
                    for c in repo.mro(callee):
                        f = c.methods.get("__init__")
                        if f is None:
                            continue
                        for st in ast.walk(f):
                            if isinstance(st, ast.Assign) and isinstance(st.value, ast.Name) and st.value.id == pname:
                                for t in st.targets:
                                    if isinstance(t, ast.Attribute) and norm(t.value) == "self":
                                        attr = t.attr
                    if attr is None:
                        raise AnalysisError(f"{callee.name}.__init__ does not store the shared container parameter `{pname}`")
                    handed[(callee.name, attr)] = (callee, src, f"{ci.name}.{mname}", call.lineno)
    for (cname, attr), (callee, src, where, line) in handed.items():
        n += 1
        res.evaluated(f"handed-over:{cname}.{attr}", True)
        res.sample({"retort container": src, "handed to": f"{cname}.{attr}", "at": where,
                    "accepted because": HANDED_OK.get((cname, attr), "-- not confirmed --")[:80]})
        if (cname, attr) in HANDED_OK:
            continue
        family = [c for c in repo.all_classes() if repo.is_subclass(c, callee.name) or c is callee or any(b is c for b in repo.mro(callee))]
        writes = []
        for c in family:
            for mname, fn in c.methods.items():
                if mname in INIT_METHODS:
                    continue
                al = attr_aliases(fn)
                for node in ast.walk(fn):
                    st = _store_target(node, al)
                    if st is not None and st[0] == "self" and st[1] == attr:
                        writes.append((c, mname, node, st[3]))
        for c, mname, node, text in writes:
            res.add(Finding("C12", "RACE.request-object-fills-shared-container", c.module.rel, f"{c.name}.{mname}", text,
                            f"`{text}`: {c.name} lives for one top-level request but `self.{attr}` is the retort's `{src}` (handed over in "
                            f"{where}); what it stores while a recursive request is in flight may refer to recursion stubs that are "
                            "still unbound, and another thread that hits the entry calls through them (TypeError: 'NoneType' object is "
                            "not callable). Only the call cache, whose key contains the ingredients of the cached closure, is "
                            "confirmed safe", getattr(node, "lineno", 0)))
    res.count("CONFINE.handed-over-containers", n, 1)


def shared_tables_are_builtin_dicts(repo: Repo, res: CheckResult) -> None:
    """The lock-free caches rest on two facts about the BUILTIN dict: `d[k] = v` is one atomic step, and storing a key a second
    time is harmless (two threads that both miss both compute and both publish; the last writer wins). A dict subclass with a
    `__setitem__` written in Python has neither: its body runs interleaved with other threads, and one that checks for the key
    (refusing or merging a second insert) turns the benign double computation into an error raised out of load()."""
    n = 0
    for ci in repo.all_classes():
        if _lifetime(repo, ci) is None:
            continue
        for c in repo.mro(ci):
            for mname in ("_calculate_derived", "__init__"):
                fn = c.methods.get(mname)
                if fn is None or c is not ci and mname == "__init__":
                    continue
                for node in ast.walk(fn):
                    if not (isinstance(node, (ast.Assign, ast.AnnAssign)) and node.value is not None):
                        continue
                    targets = node.targets if isinstance(node, ast.Assign) else [node.target]
                    for t in targets:
                        if not (isinstance(t, ast.Attribute) and norm(t.value) == "self"):
                            continue
                        if isinstance(node.value, (ast.Dict, ast.List, ast.Set)) or dict_subclass_instance(repo, c.module, node.value):
                            n += 1
                            res.evaluated(f"shared-table:{ci.name}.{t.attr}", True)
                        k = dict_subclass_instance(repo, c.module, node.value)
                        if k is None:
                            continue
                        setter = next((b.methods["__setitem__"] for b in repo.mro(k) if "__setitem__" in b.methods), None)
                        if setter is None:
                            continue
                        raises = any(isinstance(x, ast.Raise) for x in ast.walk(setter))
                        res.add(Finding("C12", "RACE.shared-table-with-python-setitem", c.module.rel, f"{c.name}.{mname}", norm(node)[:100],
                                        f"`{norm(node)[:80]}`: the retort-wide table `{t.attr}` is a {k.name}, whose __setitem__ is Python code"
                                        + (" that raises when a key is stored a second time" if raises else "")
                                        + ": the caches are filled without a lock by check-then-insert, two threads that race on the "
                                        "first request both miss, both compute and both store -- with a builtin dict the second store is "
                                        "an atomic overwrite, here it " + ("raises out of load()" if raises else "runs interleaved with the other thread"),
                                        node.lineno))
    res.count("SHARED.tables", n, 3)


def callables_do_not_consume_their_own_state(repo: Repo, res: CheckResult) -> None:
    """Objects that are handed out as loaders / dumpers / coercers are cached per retort and called by every thread. A callable
    object whose call path stores an attribute of `self` that the same path also reads (compile-on-first-call, `self._maker()`
    ... `self._maker = None`) performs an unsynchronised state transition at CALL time: the second thread reads the attribute
    after the first one has consumed it. (Binding in a separate method before the object is published -- FuncWrapper.set_func --
    is the two-phase rule above.)"""
    n = 0
    for ci in repo.all_classes():
        if not ci.module.rel.startswith("adaptix/_internal"):
            continue
        slots = {norm(e).strip("'\"") for a in ci.node.body if isinstance(a, ast.Assign) and norm(a.targets[0]) == "__slots__"
                 for e in (a.value.elts if isinstance(a.value, (ast.Tuple, ast.List)) else [a.value])}
        call_path = set()
        if "__call__" in ci.methods:
            call_path.add("__call__")
        for fn in ci.methods.values():
            for a in ast.walk(fn):
                if isinstance(a, ast.Assign) and any(norm(t) == "self.__call__" for t in a.targets) \
                        and isinstance(a.value, ast.Attribute) and norm(a.value.value) == "self" and a.value.attr in ci.methods:
                    call_path.add(a.value.attr)
        if not call_path or ("__call__" not in slots and "__call__" not in ci.methods):
            continue
        n += 1
        res.evaluated(f"callable-object:{ci.name}", True)
        for mname in sorted(call_path):
            fn = ci.methods[mname]
            if _all_stores_locked(ci.module, fn):
                continue
            stored = {t.attr: a for a in ast.walk(fn) if isinstance(a, (ast.Assign, ast.AugAssign))
                      for t in (a.targets if isinstance(a, ast.Assign) else [a.target])
                      if isinstance(t, ast.Attribute) and norm(t.value) == "self"}
            read = {x.attr for x in ast.walk(fn) if isinstance(x, ast.Attribute) and isinstance(x.ctx, ast.Load) and norm(x.value) == "self"}
            for attr in sorted(set(stored) & read):
                st = stored[attr]
                res.add(Finding("C12", "RACE.callable-consumes-its-own-state", ci.module.rel, f"{ci.name}.{mname}", norm(st)[:100],
                                f"`{norm(st)[:80]}` in the call path of {ci.name} ({mname}) replaces `self.{attr}`, which the same path reads: "
                                "the object is cached by the retort and called by every thread, the first call is an unsynchronised "
                                "multi-step transition -- a second thread that entered the path before the switch reads the consumed "
                                "attribute (TypeError: 'NoneType' object is not callable out of load / dump)", st.lineno))
    res.count("CALLABLE.objects", n, 1)


def _all_stores_locked(m: ModuleInfo, fn: ast.FunctionDef) -> bool:
    stores = [a for a in ast.walk(fn) if isinstance(a, (ast.Assign, ast.AugAssign))
              and any(isinstance(t, ast.Attribute) and norm(t.value) == "self" for t in (a.targets if isinstance(a, ast.Assign) else [a.target]))]
    return bool(stores) and all(_under_lock(m, a) for a in stores)
