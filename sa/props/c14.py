"""C14 — implicit coercion is type-sound; unlinkable fields are refused (clauses: DESIGN.md 3/C14)."""
from __future__ import annotations

import ast
from typing import Dict, List, Optional, Set, Tuple

from ..core import AnalysisError, CheckResult, ClassInfo, Finding, ModuleInfo, Repo, norm, walk_no_nested
from ..paths import enumerate_paths

LEVEL = "other"
EXHAUSTIVE = True
EXPLANATION = (
    "(1) As-is soundness: every `return as_is_stub_with_ctx` of every builtin NormTypeCoercerProvider is justified by "
    "its path condition: equality of full normalised types, subset/membership over full normalised types, destination "
    "Any, an origin-level relation only under the generic/parametrised exclusion of both sides, or an as-is inner "
    "coercer. (2) Structural coercers obtain a coercer with mandatory_provide for every type argument they convert, "
    "apply each of them to the data in the returned closure, and any provider that picks ONE member of `norm.args` "
    "guards the arity of that union. (3) _fetch_linkings: every path out of the CannotProvide handler re-raises except "
    "`return (field, None)` under policy.is_allowed for a non-required field; the builtin recipe ends with "
    "forbid_unlinked_optional(P.ANY)."
)
RULE = "one evaluation = one as-is return path / one element coercer / one handler path"
ASSUMPTIONS = ["soundness of user supplied coercers (coercer(...), link(..., coercer=...)) is outside the property"]

CP = "conversion/coercer_provider"


def run(repo: Repo, tier: str, res: CheckResult, seed: int = 0) -> None:
    as_is_soundness(repo, res)
    structural_coercers(repo, res)
    unlinked_fields(repo, res)
    recipe_tail(repo, res)
    generic_shapes(repo, res)
    _shared_cache_rule(repo, res)
    unresolved_annotations_refused(repo, res)
    from .. import genprog
    genprog.c14_checks(repo, tier, res, seed)
    # a coercer is found for a LOCATION (user coercers are bound by field predicates), not for a pair of types: a planning-stage
    # memo keyed by less hands the coercer of one field to another field with the same types -- a pair that has to be refused is
    # accepted (hidden-memo family of C11 over conversion/, shared with C13)
    from .. import memo
    subm = CheckResult("C14")
    memo.check(repo, subm, "C14", only=("/conversion/",), floors=False)
    res.evaluated("sound:planning-memos", True)
    for f in subm.findings:
        res.add(Finding("C14", "SOUND.coercer-remembered-by-less-than-the-location", f.file, f.qualname, f.construct,
                        "the coercer search is memoised under a key that leaves out part of the request: a field whose types have no "
                        "builtin coercion gets the user coercer that was bound to ANOTHER field, and the converter is produced "
                        "instead of refused. " + f.message[:200], f.line))
    # the refusal of unlinked fields observed on compiler output (converter pipeline family and oracle shared with C13)
    sub = CheckResult("C13")
    genprog.c13_pipeline_checks(repo, tier, sub, seed)
    res.evaluated("unlinked:pipeline-family", True)
    for f in sub.findings:
        if f.rule in ("PIPE.unlinked-accepted",):
            res.add(Finding("C14", "UNLINKED.converter-produced", f.file, f.qualname, f.construct,
                            "the real ConversionRetort produces a converter although a destination field has no source and no "
                            "matching allow_unlinked_optional: " + f.message[:300], f.line))
    res.assumptions = list(ASSUMPTIONS)


# ------------------------------------------------------------------------------------------ (1)
def _mentions_origin(e: ast.AST) -> bool:
    return any(isinstance(n, ast.Attribute) and n.attr == "origin" for n in ast.walk(e))


def _full_type_expr(e: ast.AST) -> bool:
    """expression over full normalised types: norm_src / norm_dst / strip_tags(..) / sets or lists of them"""
    txt = norm(e)
    return ("norm_src" in txt or "norm_dst" in txt or "args_set" in txt) and not _mentions_origin(e)


def _generic_exclusion(test: ast.expr) -> Set[str]:
    """which sides ('src', 'dst') are excluded as generic AND parametrised by this (raising) test"""
    txt = norm(test)
    sides = set()
    for side in ("src", "dst"):
        if f"is_generic(norm_{side}.source)" in txt and f"is_parametrized(norm_{side}.source)" in txt:
            sides.add(side)
    if isinstance(test, ast.BoolOp) and not isinstance(test.op, ast.Or):
        return set()
    return sides


def classify_justification(repo: Repo, m: ModuleInfo, fn: ast.FunctionDef, path, owner: str = "") -> Tuple[Optional[str], str]:
    """(justification or None, description of the path condition)"""
    conds = [(s[1], s[2]) for s in path if s[0] == "test"]
    desc = " and ".join(("" if v else "not ") + f"({norm(t)})" for t, v in conds)
    excluded: Set[str] = set()
    for t, v in conds:
        if not v:
            excluded |= _generic_exclusion(t)
    # local definitions (for sets derived from args)
    defs: Dict[str, ast.expr] = {}
    for s in path:
        if s[0] == "stmt" and isinstance(s[1], ast.Assign) and isinstance(s[1].targets[0], ast.Name):
            defs[s[1].targets[0].id] = s[1].value

    def expand(e: ast.AST) -> ast.AST:
        if isinstance(e, ast.Name) and e.id in defs:
            return defs[e.id]
        return e

    for t, v in conds:
        if not v:
            continue
        for c in ast.walk(t):
            # J1: full equality
            if isinstance(c, ast.Compare) and len(c.ops) == 1 and isinstance(c.ops[0], ast.Eq):
                l, r = c.left, c.comparators[0]
                if {norm(l), norm(r)} == {"norm_src", "norm_dst"}:
                    return "J1:full-equality", desc
                # J3: destination Any
                if norm(l) == "norm_dst.origin" and norm(r) in ("Any", "typing.Any"):
                    return "J3:dst-any", desc
                # J5: inner coercer is as-is
                if norm(r) == "as_is_stub_with_ctx" or norm(l) == "as_is_stub_with_ctx":
                    other = l if norm(r) == "as_is_stub_with_ctx" else r
                    if isinstance(other, ast.Name):
                        # an as-is inner coercer justifies handing the value over only when the wrapper adds no container of
                        # its own (Optional); for dict / iterable wrappers the origins may differ (Mapping -> dict)
                        if owner == "OptionalCoercerProvider":
                            return "J5:inner-as-is", desc
                        return None, desc + "  [as-is element coercers do not make the CONTAINER types equal: the origin of " \
                                            "the source (e.g. Mapping, Sequence) may differ from the destination's (dict, list)]"
            # J2: subset / membership over full types
            if isinstance(c, ast.Call) and isinstance(c.func, ast.Attribute) and c.func.attr in ("issubset", "__le__"):
                a, b = expand(c.func.value), expand(c.args[0]) if c.args else None
                if b is not None and not _mentions_origin(a) and not _mentions_origin(b) \
                        and "norm_src" in norm(a) and "norm_dst" in norm(b):
                    return "J2:subset-of-full-types", desc
            if isinstance(c, ast.Compare) and len(c.ops) == 1 and isinstance(c.ops[0], (ast.In, ast.LtE)):
                l, r = expand(c.left), expand(c.comparators[0])
                if "norm_src" in norm(l) and "norm_dst" in norm(r):
                    if not _mentions_origin(l) and not _mentions_origin(r):
                        return "J2:member-of-full-types", desc
                    if excluded >= {"src", "dst"}:
                        return "J4:origin-relation-non-generic", desc
                    return None, desc + "  [origin-level membership without generic exclusion]"
            # J4: is_subclass_soft on origins, only under exclusion of generics on both sides
            if isinstance(c, ast.Call) and norm(c.func) in ("is_subclass_soft", "issubclass") and len(c.args) == 2 \
                    and "norm_src" in norm(c.args[0]) and "norm_dst" in norm(c.args[1]):
                if excluded >= {"src", "dst"}:
                    return "J4:origin-relation-non-generic", desc
                return None, desc + "  [origin-level subclass test without generic exclusion]"
    return None, desc


def as_is_soundness(repo: Repo, res: CheckResult) -> None:
    m = repo.mod(CP)
    n = 0
    n_cls = 0
    for ci in m.classes.values():
        if not repo.is_subclass(ci, "NormTypeCoercerProvider") or ci.name == "NormTypeCoercerProvider":
            continue
        fn = ci.methods.get("_provide_coercer_norm_types")
        if fn is None:
            continue
        n_cls += 1
        for path in enumerate_paths(fn.body):
            if path[-1][0] != "return":
                continue
            r = path[-1][1]
            if r.value is None or norm(r.value) != "as_is_stub_with_ctx":
                continue
            n += 1
            just, desc = classify_justification(repo, m, fn, path, ci.name)
            res.evaluated(f"asis:{ci.name}:{desc}", True)
            res.sample({"provider": ci.name, "path_condition": desc, "justification": just}, limit=12)
            if just is None:
                res.add(Finding("C14", "ASIS.unjustified", m.rel, f"{ci.name}._provide_coercer_norm_types",
                                f"return as_is_stub_with_ctx [when {desc}]",
                                "the value is passed through unchanged although the path condition does not establish "
                                "that the source type equals / is contained in / is a non-generic subclass of the "
                                "destination type: values of a different static type (e.g. List[int] for List[str]) reach "
                                "the destination", r.lineno))
    res.count("ASIS.providers", n_cls, 7)
    res.count("ASIS.return-paths", n, 5)


# ------------------------------------------------------------------------------------------ (2)
def structural_coercers(repo: Repo, res: CheckResult) -> None:
    m = repo.mod(CP)
    n = 0
    for ci in m.classes.values():
        if not repo.is_subclass(ci, "NormTypeCoercerProvider") or ci.name == "NormTypeCoercerProvider":
            continue
        fn = ci.methods.get("_provide_coercer_norm_types")
        if fn is None:
            continue
        # coercer variables obtained from the mediator
        coercers: Dict[str, ast.Call] = {}
        for node in walk_no_nested(fn, include_root=False):
            if isinstance(node, ast.Assign) and isinstance(node.value, ast.Call) and isinstance(node.value.func, ast.Attribute) \
                    and node.value.func.attr in ("mandatory_provide", "provide", "delegating_provide") \
                    and isinstance(node.targets[0], ast.Name):
                coercers[node.targets[0].id] = node.value
        closures = [d for d in fn.body if isinstance(d, ast.FunctionDef)]
        for name, call in coercers.items():
            n += 1
            res.evaluated(f"struct:{ci.name}:{name}", True)
            if call.func.attr != "mandatory_provide":
                res.add(Finding("C14", "STRUCT.non-mandatory-element-coercer", m.rel, f"{ci.name}._provide_coercer_norm_types",
                                norm(call)[:100],
                                "element coercer requested with a non-mandatory provide: a failure becomes an ordinary "
                                "decline and a later provider may pass the container through as-is", call.lineno))
            # not inside a try that swallows CannotProvide
            p = m.parent(call)
            while p is not None and p is not fn:
                if isinstance(p, ast.Try) and any(h.type is not None and "CannotProvide" in norm(h.type) and not any(
                        isinstance(s, ast.Raise) for s in h.body) for h in p.handlers):
                    res.add(Finding("C14", "STRUCT.swallowed-failure", m.rel, f"{ci.name}._provide_coercer_norm_types",
                                    norm(call)[:100], "failure to find an element coercer is swallowed", call.lineno))
                p = m.parent(p)
            # applied in every returned closure to data-derived values
            for cl in closures:
                data = cl.args.args[0].arg if cl.args.args else "data"
                applied = [c for c in ast.walk(cl) if isinstance(c, ast.Call) and norm(c.func) == name]
                if not applied:
                    res.add(Finding("C14", "STRUCT.element-not-coerced", m.rel, f"{ci.name}.{cl.name}", norm(cl)[:140],
                                    f"the returned closure never applies `{name}`: elements of the source type are placed "
                                    "into the destination container unconverted", cl.lineno))
            if not closures:
                raise AnalysisError(f"{ci.name}: element coercer without closure")
        # ARITY: picking ONE member of norm.args requires an arity guard of that union
        for mname, meth in ci.methods.items():
            for node in ast.walk(meth):
                if isinstance(node, ast.Call) and norm(node.func) == "next" and node.args \
                        and isinstance(node.args[0], ast.GeneratorExp):
                    it = node.args[0].generators[0].iter
                    if isinstance(it, ast.Attribute) and it.attr == "args":
                        n += 1
                        res.evaluated(f"arity:{ci.name}.{mname}", True)
                        guarded = any(isinstance(c, ast.Compare) and norm(c.left).startswith("len(") and ".args" in norm(c.left)
                                      and isinstance(c.ops[0], ast.Eq) for mm in ci.methods.values() for c in ast.walk(mm))
                        if not guarded:
                            res.add(Finding("C14", "STRUCT.arity-unguarded", m.rel, f"{ci.name}.{mname}", norm(node),
                                            "one member of a union is selected with next(...) but no guard fixes the number "
                                            "of union members: Union[int, str, None] is treated like Optional[int] and the "
                                            "remaining members pass through unconverted", node.lineno))
    res.count("STRUCT.obligations", n, 5)


# ------------------------------------------------------------------------------------------ (3)
def unlinked_fields(repo: Repo, res: CheckResult) -> None:
    m = repo.mod("conversion/model_coercer_provider")
    ci = m.classes.get("ModelCoercerProvider")
    if ci is None or "_fetch_linkings" not in ci.methods:
        raise AnalysisError("anchor vanished: ModelCoercerProvider._fetch_linkings")
    fn = ci.methods["_fetch_linkings"]
    inner = [d for d in fn.body if isinstance(d, ast.FunctionDef)
             and any(isinstance(t, ast.Try) and any(h.type is not None and "CannotProvide" in norm(h.type) for h in t.handlers)
                     for t in d.body) and "LinkingRequest" in norm(d)]
    if len(inner) != 1:
        raise AnalysisError("_fetch_linkings: expected one nested function requesting the linking")
    f = inner[0]
    helpers = {d.name: d for d in fn.body if isinstance(d, ast.FunctionDef) and d is not f}
    field_param = f.args.args[0].arg
    trys = [t for t in f.body if isinstance(t, ast.Try)]
    if len(trys) != 1:
        raise AnalysisError("_fetch_linkings: expected one try")
    tr = trys[0]
    hs = [h for h in tr.handlers if h.type is not None and "CannotProvide" in norm(h.type)]
    if len(hs) != 1:
        raise AnalysisError("_fetch_linkings: expected one CannotProvide handler")
    h = hs[0]
    n = 0
    for path in enumerate_paths(h.body):
        n += 1
        term = path[-1]
        conds = [(norm(s[1]), s[2]) for s in path if s[0] == "test"]
        desc = " and ".join(("" if v else "not ") + c for c, v in conds)
        res.evaluated(f"unlinked:{desc}:{term[0]}", True)
        if term[0] == "raise":
            continue
        # only plain tests establish facts: `not (a and b)` does not imply `not a`
        req = f"{field_param}.is_required"
        required_path = any(req in c and v for c, v in conds)
        allowed = any(c.endswith(".is_allowed") and v for c, v in conds)
        not_required = any(c == req and not v for c, v in conds) or any(c == f"not {req}" and v for c, v in conds)
        if term[0] == "return":
            rv = term[1].value
            ok_shape = isinstance(rv, ast.Tuple) and len(rv.elts) == 2 and isinstance(rv.elts[1], ast.Constant) \
                and rv.elts[1].value is None
            if ok_shape and allowed and not_required and not required_path:
                continue
        res.add(Finding("C14", "UNLINKED.escapes-without-policy", m.rel, "ModelCoercerProvider._fetch_linkings.fetch_field_linking",
                        f"{term[0]} [when {desc}]",
                        "a destination field without a linked source leaves the CannotProvide handler without re-raising "
                        "and without the unlinked-optional policy allowing it: the converter is produced and the field "
                        "is silently skipped (or a required field has no value)", getattr(term[1], "lineno", h.lineno)))
    res.count("UNLINKED.handler-paths", n, 3)
    # the policy object whose is_allowed is tested comes from the mediator (mandatory), requested for the destination
    # of THIS field on THIS path (no memoisation across fields: the policy is selected by the field's location)
    res.evaluated("unlinked:policy-request", True)

    def direct_policy_request(e: ast.expr, scope: ast.FunctionDef) -> Optional[ast.expr]:
        """loc_stack expression when e is mediator.mandatory_provide(UnlinkedOptionalPolicyRequest(loc_stack=X))"""
        if isinstance(e, ast.Call) and isinstance(e.func, ast.Attribute) and e.func.attr == "mandatory_provide" and e.args \
                and isinstance(e.args[0], ast.Call) and norm(e.args[0].func) == "UnlinkedOptionalPolicyRequest":
            return next((k.value for k in e.args[0].keywords if k.arg == "loc_stack"),
                        e.args[0].args[0] if e.args[0].args else None)
        return None

    tested = [n.value for n in ast.walk(h) if isinstance(n, ast.Attribute) and n.attr == "is_allowed"]
    problems: List[str] = []
    if not tested:
        problems.append("no policy is consulted")
    for x in tested:
        loc: Optional[ast.expr] = None
        if isinstance(x, ast.Name):
            srcs = [a.value for a in ast.walk(h) if isinstance(a, ast.Assign) and norm(a.targets[0]) == x.id]
            if len(srcs) == 1:
                loc = direct_policy_request(srcs[0], f)
        elif isinstance(x, ast.Call):
            loc = direct_policy_request(x, f)
            if loc is None and isinstance(x.func, ast.Name) and x.func.id in helpers:
                hp = helpers[x.func.id]
                stmts = [st for st in hp.body if not (isinstance(st, ast.Expr) and isinstance(st.value, ast.Constant))]
                if len(stmts) == 1 and isinstance(stmts[0], ast.Return) and stmts[0].value is not None:
                    inner_loc = direct_policy_request(stmts[0].value, hp)
                    if inner_loc is not None and isinstance(inner_loc, ast.Name) and x.args \
                            and inner_loc.id in [a.arg for a in hp.args.args]:
                        loc = x.args[[a.arg for a in hp.args.args].index(inner_loc.id)]
        if loc is None:
            problems.append(f"`{norm(x)}.is_allowed` is not the result of a policy request made on this path")
            continue
        # the location is this field's destination
        if isinstance(loc, ast.Name):
            defs = [a.value for a in ast.walk(f) if isinstance(a, ast.Assign) and norm(a.targets[0]) == loc.id]
            if not defs or not all(field_param in norm(d) and "request.dst" in norm(d) for d in defs):
                problems.append(f"the policy is requested for `{norm(loc)}`, which is not the destination of this field")
        elif not (field_param in norm(loc) and "request.dst" in norm(loc)):
            problems.append(f"the policy is requested for `{norm(loc)}`, which is not the destination of this field")
    if problems:
        res.add(Finding("C14", "UNLINKED.policy-source", m.rel, "ModelCoercerProvider._fetch_linkings.fetch_field_linking",
                        "; ".join(problems),
                        "the unlinked-optional policy must be requested from the recipe for the location of each unlinked "
                        "field: " + "; ".join(problems) + " (a policy found for one field is applied to another)",
                        h.lineno))


def recipe_tail(repo: Repo, res: CheckResult) -> None:
    m = repo.mod("conversion/facade/retort")
    ci = m.classes.get("FilledConversionRetort")
    if ci is None or "recipe" not in ci.attrs or not isinstance(ci.attrs["recipe"], ast.List):
        raise AnalysisError("anchor vanished: FilledConversionRetort.recipe")
    elts = ci.attrs["recipe"].elts
    res.evaluated("recipe:default-policy", True)
    pols = [e for e in elts if isinstance(e, ast.Call) and norm(e.func) in ("forbid_unlinked_optional", "allow_unlinked_optional")]
    if not pols or norm(pols[-1].func) != "forbid_unlinked_optional" or norm(pols[-1].args[0]) != "P.ANY":
        res.add(Finding("C14", "UNLINKED.default-policy", m.rel, "FilledConversionRetort.recipe",
                        "; ".join(norm(p) for p in pols) or "none",
                        "the builtin conversion recipe must end with forbid_unlinked_optional(P.ANY)", ci.node.lineno))
    # forbid_unlinked_optional really forbids
    fm = repo.mod("conversion/facade/provider")
    f = fm.functions.get("forbid_unlinked_optional")
    if f is None:
        raise AnalysisError("anchor vanished: forbid_unlinked_optional")
    res.evaluated("recipe:forbid-is-forbid", True)
    if "is_allowed=False" not in norm(f):
        res.add(Finding("C14", "UNLINKED.default-policy", fm.rel, "forbid_unlinked_optional", norm(f)[-120:],
                        "forbid_unlinked_optional no longer creates a policy with is_allowed=False", f.lineno))
    # order of as-is providers: structural coercers must come before the as-is fallbacks
    names = [norm(e.func) for e in elts if isinstance(e, ast.Call)]
    res.sample({"conversion_recipe": names})


def generic_shapes(repo: Repo, res: CheckResult) -> None:
    """the model coercer compares field types of the two shapes: they must be the generic-RESOLVED shapes on every path
    (a class that inherits from Page[int] still has fields typed T in its raw shape)"""
    m = repo.mod("conversion/model_coercer_provider")
    ci = m.classes.get("ModelCoercerProvider")
    if ci is None:
        raise AnalysisError("anchor vanished: ModelCoercerProvider")
    n = 0
    for mname, fn in ci.methods.items():
        for c in ast.walk(fn):
            if isinstance(c, ast.Call) and any("ShapeRequest" in norm(x) for x in ast.walk(c)) and isinstance(c.func, ast.Attribute) \
                    and c.func.attr in ("provide", "mandatory_provide", "delegating_provide"):
                res.add(Finding("C14", "SHAPE.not-generic-resolved", m.rel, f"ModelCoercerProvider.{mname}", norm(c)[:100],
                                "the shape is requested without generic resolution: type variables of inherited parametrised "
                                "bases stay unsubstituted, T compares equal to T and IntPage -> StrPageDTO is accepted as is", c.lineno))
        for r in [x for x in ast.walk(fn) if isinstance(x, ast.Return) and x.value is not None and "shape" in mname]:
            n += 1
            res.evaluated(f"generic-shape:{mname}:{norm(r.value)[:40]}", True)
            v = r.value
            names = {norm(x.func) for x in ast.walk(v) if isinstance(x, ast.Call)}
            via_helper = any(nm.startswith("self._fetch") for nm in names)
            if "provide_generic_resolved_shape" not in names and not via_helper and not isinstance(v, (ast.Tuple, ast.Name)):
                res.add(Finding("C14", "SHAPE.not-generic-resolved", m.rel, f"ModelCoercerProvider.{mname}", norm(r)[:100],
                                "a shape is returned that did not go through provide_generic_resolved_shape", r.lineno))
    res.count("SHAPE.shape-returns", n, 2)


def _shared_cache_rule(repo: Repo, res: CheckResult) -> None:
    """shared rule with C11 (clone discipline + facade caches) restricted to the conversion facade"""
    from .c11 import clone_discipline, facade_caches
    sub = CheckResult("C11")
    clone_discipline(repo, sub)
    facade_caches(repo, sub)
    res.evaluated("facade:conversion-cache-ownership", True)
    for f in sub.findings:
        if "conversion/" in f.file:
            res.add(Finding("C14", "FACADE.refusal-bypassed-by-shared-cache", f.file, f.qualname, f.construct,
                            "a converter cache shared between a conversion retort and its clones (extend/replace, the throw-away retort of a per-call recipe) hands a converter built under another recipe to a request that must be refused (unlinked field, missing coercer): " + f.message[:200], f.line))


def unresolved_annotations_refused(repo: Repo, res: CheckResult) -> None:
    """The types a converter is checked against come from the annotations of the user's signature. A missing annotation means
    Any, and Any as destination accepts every source as it is. Code that evaluates annotations (get_type_hints and the like)
    and, when a name cannot be resolved, carries on WITHOUT them therefore turns `(book: Book) -> BookDTO` into an identity
    function instead of refusing it: the failure to resolve has to propagate."""
    n = 0
    for m in repo.modules.values():
        if "/conversion/" not in m.rel:
            continue
        for tr in [t for t in ast.walk(m.tree) if isinstance(t, ast.Try)]:
            calls = [c for st in tr.body for c in ast.walk(st) if isinstance(c, ast.Call)
                     and norm(c.func).split(".")[-1] in ("get_all_type_hints", "get_type_hints", "get_annotations")]
            if not calls:
                continue
            n += 1
            fn = m.enclosing_function(tr)
            q = m.qualname(fn) if fn is not None else "<module>"
            res.evaluated(f"annotations:{m.rel}:{q}", True)
            for h in tr.handlers:
                if any(isinstance(x, ast.Raise) for st in h.body for x in ast.walk(st)):
                    continue
                res.add(Finding("C14", "SOUND.unresolved-annotation-becomes-any", m.rel, q, f"except {norm(h.type) if h.type else ''}: {norm(h.body[0])[:60]}",
                                f"`{norm(calls[0])[:60]}` failing is answered with `{norm(h.body[0])[:60]}`: the annotations are dropped, every "
                                "parameter and the result become Any, and a destination of type Any takes the source object as it is -- "
                                "an ill-typed stub is accepted as an identity function instead of being refused", h.lineno))
    res.count("SOUND.annotation-evaluations-guarded", n, 0)
