"""C08 — models are built by their own constructor; omitted fields get the true default."""
from __future__ import annotations

import ast
import re
from typing import Dict, List

from ..core import AnalysisError, CheckResult, Finding, Repo, norm
from ..ted import COLL, ELEM, Ted
from .. import genprog

LEVEL = "translation_validation"
EXHAUSTIVE = True
EXPLANATION = (
    "(1) Literal inlining is type-exact: typed-equality taint over code_tools/utils.py (a value of unknown type must not "
    "be looked up by ==/hash in the builtin-name table or the singleton set unless the hit is confirmed by identity / "
    "dominated by an exact type test), plus translation validation of the literal renderers on a family of values "
    "(look-alikes of True/False/None, tuples of length 0-2, nested containers, slices/ranges, sets): the rendered text is "
    "evaluated with a closed evaluator and must give an object of exactly the same type and value. (2) For every emitted "
    "model loader: exactly one constructor call at the end, positional/keyword/** arguments exactly as the parameter kinds "
    "and skipped parameters prescribe, packed fields only through **packed_fields, factory defaults as calls in the body, "
    "captured defaults bound to the very default object. (3) loader_gen._gen_constructor_call and "
    "model_coercer_provider._make_constructor_call implement the same decision table."
)
RULE = "one evaluation = one emitted loader program (constructor + defaults) / one rendered value / one TED site"
ASSUMPTIONS = ["that __post_init__/validators run follows from 'real constructor, once' and is the constructor's business"]


def run(repo: Repo, tier: str, res: CheckResult, seed: int = 0) -> None:
    ted_rule(repo, res)
    n_lit = genprog.literal_checks(repo, tier, res, seed, "C08")
    res.count("LITERAL.rendered-values", n_lit, 80)
    n = genprog.c08_checks(repo, tier, res, seed)
    res.count("CTOR.programs", n, 300)
    ctor_sibling(repo, res)
    introspected_defaults_kept(repo, res)
    # the generated loader is memoised per retort: the key has to contain the shape (constructor, defaults, parameters) -- C11's
    # audit of dependencies wrapped into an always-equal object, reported here with its consequence for C08
    from ..values import Resolver as _Resolver
    from . import c11 as _c11
    _sub = CheckResult("C11")
    _c11.cached_call_sites(repo, _Resolver(repo), _sub)
    res.evaluated("ctor:loader-memo-key-contains-shape", True)
    for _f in _sub.findings:
        if _f.rule == "KEY.always-equal" and "/morphing/model/loader_provider" in _f.file:
            res.add(Finding("C08", "CTOR.loader-memo-ignores-shape", _f.file, _f.qualname, _f.construct,
                            "the memo key of the generated model loader ignores an input of the generator: two distinct model classes "
                            "that agree on the rest of the key (same qualified name, same fields -- classes made by one factory "
                            "function, a redefined model) share one loader, so the second is built by the constructor and with the "
                            "defaults of the first. " + _f.message[:160], _f.line))
    res.assumptions = list(ASSUMPTIONS)


def ted_rule(repo: Repo, res: CheckResult) -> None:
    m = repo.mod("code_tools/utils")
    seeds = {}
    for fn_name in ("get_literal_expr", "is_singleton", "_provide_lit_expr"):
        fn = m.functions.get(fn_name)
        if fn is None:
            raise AnalysisError(f"anchor vanished: code_tools/utils.{fn_name}")
        seeds[(m.rel, fn_name, fn.args.args[0].arg)] = ELEM
    ted = Ted(repo, [m], seeds)
    ted.run()
    n = 0
    for q, t in ted.ok_sites:
        n += 1
        res.evaluated(f"ted-ok:{q}:{t}", True)
    for s in ted.sinks:
        n += 1
        q = s.module.qualname(s.fn)
        res.evaluated(f"ted:{q}:{norm(s.node)}", True)
        # a lookup whose hit is confirmed by identity is type-exact
        if _identity_confirmed(s.module, s.fn, s.node):
            continue
        res.add(Finding("C08", f"TED.{s.op}", s.module.rel, q, norm(s.node),
                        f"{s.why}: a default/constant that merely compares equal to a builtin constant (Decimal('1'), an "
                        f"IntEnum member, 1+0j, Fraction(0)) is replaced by that constant's name, or an unhashable default "
                        f"raises TypeError", getattr(s.node, "lineno", 0)))
    res.count("TED.sites", n, 1)


def _identity_confirmed(m, fn, node: ast.AST) -> bool:
    """`name = TABLE[obj]` ... followed by a check `NAME_TO_BUILTIN[name] is obj` / `x is obj` guarding the return"""
    st = m.parent(node)
    while st is not None and not isinstance(st, ast.stmt):
        st = m.parent(st)
    if not isinstance(st, ast.Assign) or not isinstance(st.targets[0], ast.Name):
        return False
    var = st.targets[0].id
    for r in ast.walk(fn):
        if isinstance(r, ast.Return) and isinstance(r.value, ast.Name) and r.value.id == var:
            # dominated by an `is` comparison mentioning the looked-up object
            p = m.parent(r)
            child = r
            ok = False
            while p is not None and p is not fn:
                if isinstance(p, ast.If) and any(child is s for s in p.body):
                    if any(isinstance(c, ast.Compare) and isinstance(c.ops[0], ast.Is) for c in ast.walk(p.test)):
                        ok = True
                child = p
                p = m.parent(p)
            if not ok:
                # or preceded in the same block by `if <... is not obj>: return None/raise`
                blk = m.parent(r)
                body = getattr(blk, "body", []) if not isinstance(blk, ast.Try) else blk.body + blk.orelse
                for s2 in body:
                    if s2 is r:
                        break
                    if isinstance(s2, ast.If) and any(isinstance(c, ast.Compare) and isinstance(c.ops[0], ast.IsNot) for c in ast.walk(s2.test)) \
                            and isinstance(s2.body[-1], (ast.Return, ast.Raise)):
                        ok = True
            if not ok:
                return False
    return True


def ctor_sibling(repo: Repo, res: CheckResult) -> None:
    """The two constructor-call assemblers implement one decision table over (param kind, has_skipped)."""
    lg = repo.mod("morphing/model/loader_gen").classes["BuiltinModelLoaderGen"].methods.get("_gen_constructor_call")
    mc = repo.mod("conversion/model_coercer_provider").classes["ModelCoercerProvider"].methods.get("_make_constructor_call")
    if lg is None or mc is None:
        raise AnalysisError("anchor vanished: constructor call assemblers")

    def table(fn: ast.FunctionDef) -> List[str]:
        loop = next((l for l in ast.walk(fn) if isinstance(l, ast.For) and "params" in norm(l.iter)), None)
        if loop is None:
            raise AnalysisError(f"{fn.name}: no loop over params")
        rows = []
        pv = norm(loop.target)      # the loop variable that stands for the parameter
        for st in loop.body:
            if isinstance(st, ast.If) and "ParamKind" in norm(st.test):
                cur = st
                while True:
                    t = re.sub(r"\b\w*has_skipped\w*\b", "HAS_SKIPPED", norm(cur.test).replace(pv, "PARAM"))
                    act = "kw" if any("KeywordArg" in norm(x) or f"{pv}.name" in norm(x) for x in cur.body) else (
                        "raise" if any(isinstance(x, ast.Raise) for x in cur.body) else "pos")
                    rows.append(f"{t} -> {act}")
                    if len(cur.orelse) == 1 and isinstance(cur.orelse[0], ast.If):
                        cur = cur.orelse[0]
                    else:
                        act = "kw" if any(f"{pv}.name" in norm(x) for x in cur.orelse) else "pos"
                        rows.append(f"else -> {act}")
                        break
        return rows
    t1, t2 = table(lg), table(mc)
    res.evaluated("ctor-sibling", True)
    res.sample({"loader_gen": t1, "model_coercer": t2})
    if t1 != t2:
        res.add(Finding("C08", "CTOR.sibling-tables-differ", "adaptix/_internal/morphing/model/loader_gen.py",
                        "BuiltinModelLoaderGen._gen_constructor_call", f"{t1} vs {t2}",
                        "loader generator and model coercer assemble constructor calls by different decision tables over "
                        "(parameter kind, skipped parameters)", lg.lineno))


def introspected_defaults_kept(repo: Repo, res: CheckResult) -> None:
    """Introspectors report the model's OWN default: DefaultValue(<the object of the definition>) or DefaultFactory(<the model's own
    factory>). A factory invented by the introspector (partial(copy.copy, default), a lambda, deepcopy) gives every loaded object
    another object than the model's constructor would -- sentinels (`timeout is _UNSET`) and shared instances lose their
    identity."""
    n = 0
    for m in repo.modules.values():
        if "/model_tools/introspection/" not in m.rel:
            continue
        for c in ast.walk(m.tree):
            if not (isinstance(c, ast.Call) and norm(c.func).split(".")[-1] == "DefaultFactory"):
                continue
            arg = c.args[0] if c.args else next((k.value for k in c.keywords if k.arg == "factory"), None)
            if arg is None:
                continue
            n += 1
            res.evaluated(f"introspected-default:{m.rel}:{c.lineno}", True)
            invented = isinstance(arg, (ast.Lambda, ast.Call)) or any(
                isinstance(x, (ast.Name, ast.Attribute)) and norm(x).split(".")[-1] in ("copy", "deepcopy", "partial") for x in ast.walk(arg))
            if invented:
                fn = m.enclosing_function(c)
                res.add(Finding("C08", "DEFAULT.factory-invented-by-introspector", m.rel, m.qualname(fn) if fn is not None else "<module>",
                                norm(c)[:100],
                                f"`{norm(c)[:80]}` wraps the model's default into a factory of the introspector's own making: an omitted field "
                                "no longer receives the object the definition holds (what the model's own constructor would use) but a copy "
                                "-- identity-significant defaults (sentinels, shared registries) change meaning", c.lineno))
    res.count("DEFAULT.introspected-factories", n, 4)
