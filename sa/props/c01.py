"""C01 — round trip load(dump(x, T), T) == x: two structural necessary conditions (the behaviour itself is not decided)."""
from __future__ import annotations

import ast
import json
import re
from typing import Dict, Set, Tuple

from ..core import AnalysisError, CheckResult, Finding, Repo, func_params, norm
from .c07 import _dominating_type_guard

LEVEL = "other"
EXHAUSTIVE = True
EXPLANATION = (
    "Round-trip equality quantifies over runtime values and is NOT decided. Two necessary conditions whose truth is in "
    "the shape of the code are: (1) representation agreement of the scalar codecs -- for every ScalarProvider the type "
    "its dumper emits (the target type for the as-is dumper, str for __str__) is one of the types the strict loader of "
    "the same provider accepts (taken from the exact-type guards that dominate its returns); the timedelta dumper's float "
    "is among the loader's accepted types. If this fails, load(dump(x)) raises for every x. (2) Layout symmetry of model "
    "codecs on compiler output: for every enumerated name_mapping configuration for which the real Retort produces both "
    "a loader and a dumper, every field that both programs handle is read from exactly the path it is written to, and "
    "list nodes of the dumper are list nodes of the loader. This compares the two emitted programs WITH EACH OTHER -- no "
    "oracle is involved, so it is independent of the layout oracle of C03. If it fails, load(dump(x)) loses or misplaces "
    "that field for every x."
)
RULE = ("one evaluation = one scalar provider (dumper output type vs strict loader origins) / one configuration (loader paths vs "
        "dumper paths)")
ASSUMPTIONS = ["equality of loaded and original VALUES is not decided (numeric precision, normalisation of containers, "
               "lossy representations such as omit_default or sets) -- only agreement of types and paths",
               "configuration family of sa/gen_child.py layoutpipe_family (bounded)"]

CP = "morphing/concrete_provider"


def run(repo: Repo, tier: str, res: CheckResult, seed: int = 0) -> None:
    scalar_agreement(repo, res)
    paired_providers(repo, res)
    dropped_results(repo, res)
    timestamp_zone_agreement(repo, res)
    from .. import genprog
    genprog.c01_checks(repo, tier, res, seed)
    # two more places where loader and dumper of one model must agree (audits shared with C03, reported here as round-trip
    # clauses): the dumper writes None for a None value, so the loader may decide "absent" only by a missing key; omit_default
    # drops a field only when it equals the default the loader restores
    sub = CheckResult("C01")
    genprog.c03_loader_checks(repo, tier, sub, seed, prop="C01")
    genprog.c03_dumper_checks(repo, tier, sub, seed, prop="C01")
    res.evaluated("roundtrip:absence-and-omission", True)
    known_rt = {"TV.absence-decision": "ROUNDTRIP.present-value-read-as-absent", "TV.sieve": "ROUNDTRIP.omitted-value-not-the-default",
                # the dumper writes every present field (a NotRequired key that is present with None included)
                "TV.field-write-path": "ROUNDTRIP.present-field-not-written"}
    for f in sub.findings:
        if f.rule in known_rt:
            res.add(Finding("C01", known_rt[f.rule], f.file, f.qualname, f.construct, f.message, f.line))
    enum_tables_agree(repo, res)
    facade_caches_agree(repo, res)
    shared_codec_audits(repo, res)
    integration_codecs_use_the_column_type(repo, res)
    self_type_is_the_nearest_owner(repo, res)
    res.assumptions = list(ASSUMPTIONS)


def enum_tables_agree(repo: Repo, res: CheckResult) -> None:
    """The default enum codec: the dumper emits member.value for EVERY member, so the loader's lookup must know every member's
    value or fall back to Enum(value) (audit shared with C18; reported here as a round-trip clause)."""
    from . import c18
    sub = CheckResult("C01")
    c18.exact_value_loader(repo, repo.mod(c18.EP), sub)
    res.evaluated("roundtrip:enum-value-tables", True)
    for f in sub.findings:
        if f.rule in ("ENUM.tables", "ENUM.unhashable-fallback"):
            res.add(Finding("C01", "ROUNDTRIP.enum-dumped-value-not-loadable", f.file, f.qualname, f.construct,
                            "the dumper of the default enum codec emits the value of every member; " + f.message, f.line))


def _resolved_key(fn: ast.FunctionDef, sub: ast.Subscript) -> ast.AST:
    """the subscript's key with a local name replaced by the single expression assigned to it"""
    key = sub.slice
    if isinstance(key, ast.Name):
        assigns = [a for a in ast.walk(fn) if isinstance(a, ast.Assign) and len(a.targets) == 1 and isinstance(a.targets[0], ast.Name)
                   and a.targets[0].id == key.id]
        if len(assigns) == 1:
            return assigns[0].value
    return key


def facade_caches_agree(repo: Repo, res: CheckResult) -> None:
    """Retort.load and Retort.dump of one retort go through get_loader / get_dumper, each with a per-retort memo keyed by the
    type. The two memos must distinguish types alike: a key that projects the type (repr, name, id ...) on one side lets two types
    share the loader while they keep their own dumpers."""
    m = repo.mod("morphing/facade/retort")
    ci = m.classes.get("AdornedRetort")
    if ci is None or "get_loader" not in ci.methods or "get_dumper" not in ci.methods:
        raise AnalysisError("anchor vanished: AdornedRetort.get_loader/get_dumper")
    keys = {}
    for name in ("get_loader", "get_dumper"):
        fn = ci.methods[name]
        subs = [s for s in ast.walk(fn) if isinstance(s, ast.Subscript) and isinstance(s.value, ast.Attribute) and s.value.attr.endswith("_cache")]
        if not subs:
            continue        # no memo on this side: nothing to disagree with
        params = [a for a in func_params(fn) if a != "self"]
        ks = {norm(_resolved_key(fn, s)).replace(params[0] if params else "\0", "<type>") for s in subs}
        keys[name] = (ks, subs[0].lineno)
    res.evaluated("roundtrip:facade-memo-keys", True)
    if len(keys) == 2 and keys["get_loader"][0] != keys["get_dumper"][0]:
        res.add(Finding("C01", "ROUNDTRIP.facade-memo-asymmetry", m.rel, "AdornedRetort.get_loader",
                        f"loader memo keyed by {sorted(keys['get_loader'][0])}, dumper memo by {sorted(keys['get_dumper'][0])}",
                        f"the per-retort memo of loaders is keyed by {sorted(keys['get_loader'][0])} while the memo of dumpers is keyed "
                        f"by {sorted(keys['get_dumper'][0])}: two types that one key conflates and the other distinguishes get one "
                        "shared loader but separate dumpers, so load(dump(x, T2), T2) runs the loader made for T1", keys["get_loader"][1]))
    for name, (ks, line) in keys.items():
        # the type hint may be accompanied by other components; it must not be replaced by something computed from it
        projected = [k for k in ks if re.search(r"\w+\(<type>\)|<type>\.\w+", k)]
        if projected:
            res.add(Finding("C01", "ROUNDTRIP.facade-memo-projects-type", m.rel, f"AdornedRetort.{name}", f"memo keyed by {sorted(ks)}",
                            f"the memo of {name} is keyed by {sorted(ks)}, not by the type hint itself: distinct types with the same "
                            "projection share one compiled function", line))


def _emitted_type(repo: Repo, m, e: ast.AST, depth: int = 0):
    """type of the representation a dumper expression yields, or None when it cannot be told"""
    if depth > 3:
        return None
    if isinstance(e, ast.FunctionDef):
        outs = {_emitted_type(repo, m, r.value, depth + 1) for r in ast.walk(e) if isinstance(r, ast.Return) and r.value is not None}
        return outs.pop() if len(outs) == 1 else None
    if isinstance(e, ast.Call):
        f = e.func
        if isinstance(f, ast.Attribute):
            if f.attr in ("decode", "isoformat", "strftime", "format", "hex", "__str__", "__fspath__"):
                return "str"
            if f.attr in ("timestamp", "total_seconds"):
                return "float"
            if f.attr in ("toordinal", "__int__"):
                return "int"
        if isinstance(f, ast.Name) and f.id in ("str", "repr", "format"):
            return "str"
        if isinstance(f, ast.Name) and f.id == "float":
            return "float"
        return None
    if isinstance(e, ast.Attribute):
        if e.attr in ("isoformat", "__str__", "__fspath__", "pattern"):
            return "str"
        if e.attr in ("total_seconds", "timestamp"):
            return "float"
        return None
    if isinstance(e, ast.Name):
        r = repo.resolve_expr_static(m, e)
        if r.kind == "func" and isinstance(r.node, ast.FunctionDef):
            return _emitted_type(repo, r.module, r.node, depth + 1)
    return None


def paired_providers(repo: Repo, res: CheckResult) -> None:
    """class providers of concrete_provider that define loader and dumper side by side: the type the dumper emits is one of
    the types the loader itself names as expected (first argument of its TypeLoadError)"""
    m = repo.mod(CP)
    n = judged = 0
    for ci in m.classes.values():
        ld = repo.find_method(ci, "_make_loader")
        dm = repo.find_method(ci, "_make_dumper") or repo.find_method(ci, "provide_dumper")
        if ld is None or dm is None or ci.name == "ScalarProvider":
            continue
        n += 1
        expected: Set[str] = set()
        for c in ast.walk(ld[1]):
            if isinstance(c, ast.Call) and norm(c.func) == "TypeLoadError" and c.args:
                expected |= {x.id for x in ast.walk(c.args[0]) if isinstance(x, ast.Name) and x.id not in ("Union", "Optional")}
        outs = set()
        for r in [x for x in ast.walk(dm[1]) if isinstance(x, ast.Return) and x.value is not None]:
            v = r.value
            if isinstance(v, ast.Name):
                nested = [f for f in ast.walk(dm[1]) if isinstance(f, ast.FunctionDef) and f.name == v.id and f is not dm[1]]
                outs.add(_emitted_type(repo, dm[0].module, nested[0] if nested else v))
            elif isinstance(v, ast.Call) and norm(v.func).endswith("cached_call") and v.args:
                continue
            else:
                outs.add(_emitted_type(repo, dm[0].module, v))
        outs.discard(None)
        ok = bool(expected) and len(outs) == 1
        res.evaluated(f"paired:{ci.name}", ok)
        if not ok:
            continue
        judged += 1
        out = next(iter(outs))
        res.sample({"provider": ci.name, "dumper emits": out, "loader expects": sorted(expected)})
        if out not in expected:
            res.add(Finding("C01", "REPR.dumper-output-not-accepted", m.rel, ci.name, f"dumper emits {out}, loader expects {sorted(expected)}",
                            f"{ci.name}: the dumper emits a {out} while the loader of the same provider states that it expects "
                            f"{sorted(expected)} (TypeLoadError): what dump produces is not what load takes", dm[1].lineno))
    res.count("REPR.paired-class-providers", n, 8)
    res.count("REPR.paired-class-providers-judged", judged, 5)


def scalar_agreement(repo: Repo, res: CheckResult) -> None:
    m = repo.mod(CP)
    n = 0
    for node in ast.walk(m.tree):
        if not (isinstance(node, ast.Call) and norm(node.func) == "ScalarProvider"):
            continue
        kw = {k.arg: k.value for k in node.keywords}
        if not {"target", "strict_coercion_loader", "dumper"} <= set(kw):
            continue
        tp = norm(kw["target"])
        n += 1
        res.evaluated(f"scalar-agreement:{tp}", True)
        sr = repo.resolve_expr_static(m, kw["strict_coercion_loader"])
        if sr is None or sr.kind != "func":
            raise AnalysisError(f"ScalarProvider({tp}): strict loader is not a repo function")
        fn = sr.node
        d = func_params(fn)[0]
        accepted: Set[str] = set()
        for r in [x for x in ast.walk(fn) if isinstance(x, ast.Return)]:
            accepted |= (_dominating_type_guard(m, r, d) or set())
        dm = norm(kw["dumper"])
        if dm == "as_is_stub":
            out = tp
        elif dm in ("str", f"{tp}.__str__", "repr"):
            out = "str"
        elif dm in ("float", f"{tp}.__float__"):
            out = "float"
        elif dm in ("int", f"{tp}.__int__"):
            out = "int"
        else:
            raise AnalysisError(f"ScalarProvider({tp}): cannot tell what the dumper `{dm}` emits")
        res.sample({"type": tp, "dumper emits": out, "strict loader accepts": sorted(accepted)})
        if out not in accepted:
            res.add(Finding("C01", "REPR.dumper-output-not-accepted", m.rel, fn.name, f"{tp}: dumper {dm} emits {out}",
                            f"the dumper of {tp} (`{dm}`) emits a {out} but the strict loader `{fn.name}` accepts only "
                            f"{sorted(accepted)}: load(dump(x, {tp}), {tp}) raises TypeLoadError for every x under the default "
                            "strict_coercion=True", node.lineno))
    res.count("REPR.scalar-providers", n, 7)
    # timedelta: dumper total_seconds (float) vs the loader's accepted types
    ci = m.classes.get("SecondsTimedeltaProvider")
    if ci is None:
        raise AnalysisError("anchor vanished: SecondsTimedeltaProvider")
    ok = ci.attrs.get("_OK_TYPES")
    md = ci.methods.get("_make_dumper")
    if ok is None or md is None:
        raise AnalysisError("anchor vanished: SecondsTimedeltaProvider._OK_TYPES/_make_dumper")
    res.evaluated("scalar-agreement:timedelta", True)
    rets = [norm(r.value) for r in ast.walk(md) if isinstance(r, ast.Return) and r.value is not None]
    if rets == ["timedelta.total_seconds"] and "float" not in {norm(e) for e in getattr(ok, "elts", [])}:
        res.add(Finding("C01", "REPR.dumper-output-not-accepted", m.rel, "SecondsTimedeltaProvider", f"_OK_TYPES = {norm(ok)}",
                        "the timedelta dumper emits a float (total_seconds) that the loader's accepted types do not contain", ok.lineno))


def dropped_results(repo: Repo, res: CheckResult) -> None:
    """Container codecs apply the element loader / dumper they were given to every key, value and item. A result that is
    computed (`dumped_key = key_dumper(k)`) but never used means the raw element went into the output instead: the dumper
    emits what the loader of the same provider does not take back (dict[date, int] dumped with date keys), or the loader
    keeps raw data."""
    n = 0
    for mname in ("morphing/dict_provider", "morphing/iterable_provider", "morphing/constant_length_tuple_provider",
                  "morphing/generic_provider"):
        m = repo.mod(mname)
        for fn in [f for f in ast.walk(m.tree) if isinstance(f, ast.FunctionDef) and m.enclosing_function(f) is not None]:
            for st in ast.walk(fn):
                if not (isinstance(st, ast.Assign) and len(st.targets) == 1 and isinstance(st.targets[0], ast.Name)
                        and isinstance(st.value, ast.Call) and isinstance(st.value.func, ast.Name)
                        and st.value.func.id.endswith(("loader", "dumper")) and m.enclosing_function(st) is fn):
                    continue
                var = st.targets[0].id
                n += 1
                res.evaluated(f"dropped-result:{m.rel}:{m.qualname(fn)}:{var}", True)
                used = any(isinstance(x, ast.Name) and x.id == var and isinstance(x.ctx, ast.Load) for x in ast.walk(fn))
                if not used:
                    res.add(Finding("C01", "REPR.computed-representation-dropped", m.rel, m.qualname(fn), norm(st)[:100],
                                    f"`{norm(st)[:80]}`: the result of the element {'dumper' if 'dumper' in st.value.func.id else 'loader'} is "
                                    "never used, the raw element is what ends up in the result: this variant of the codec emits / keeps a "
                                    "representation its counterpart does not accept (keys of dict[date, int] stay date objects)", st.lineno))
    res.count("REPR.element-results", n, 8)


def timestamp_zone_agreement(repo: Repo, res: CheckResult) -> None:
    """A timestamp codec whose dumper fixes the time zone (the date dumper takes the midnight in UTC) must read the timestamp
    back in the same zone: `date.fromtimestamp` / `datetime.fromtimestamp(x)` without tz use the LOCAL zone, so west of
    Greenwich load(dump(d)) is the previous day."""
    m = repo.mod(CP)
    n = 0
    for ci in m.classes.values():
        ld = repo.find_method(ci, "_make_loader")
        dm = repo.find_method(ci, "_make_dumper")
        if ld is None or dm is None or "Timestamp" not in ci.name:
            continue
        n += 1
        res.evaluated(f"timestamp-zone:{ci.name}", True)
        dumper_fixes_zone = any(norm(x).endswith("timezone.utc") or norm(x) == "utc" for x in ast.walk(dm[1]) if isinstance(x, (ast.Attribute, ast.Name)))
        if not dumper_fixes_zone:
            continue
        for c in ast.walk(ld[1]):
            if isinstance(c, ast.Call) and isinstance(c.func, ast.Attribute) and c.func.attr in ("fromtimestamp", "utcfromtimestamp"):
                has_tz = len(c.args) >= 2 or any(k.arg == "tz" for k in c.keywords) or c.func.attr == "utcfromtimestamp"
                if not has_tz:
                    res.add(Finding("C01", "REPR.timestamp-zone-asymmetry", m.rel, f"{ci.name}._make_loader", norm(c)[:80],
                                    f"the dumper of {ci.name} takes the timestamp in UTC but `{norm(c)[:60]}` reads it in the local time zone: "
                                    "with a negative UTC offset load(dump(d)) is the day before d", c.lineno))
    res.count("REPR.timestamp-providers", n, 2)


def shared_codec_audits(repo: Repo, res: CheckResult) -> None:
    """Audits other properties own, reported here as round-trip clauses: (a) the generated model loader and dumper are memoised
    per retort; the name layout decides the keys both of them use, so it must be part of both memo keys (C11: a dependency
    wrapped into an always-equal object) -- otherwise one model used under two name mappings is dumped with the keys of the
    first and loaded with its own; (b) the flag-by-member-names codec: the dumper's cover of the value and the loader's union
    agree (C18)."""
    from ..values import Resolver
    from . import c11, c18
    sub = CheckResult("C11")
    c11.cached_call_sites(repo, Resolver(repo), sub)
    res.evaluated("roundtrip:model-codec-memo-keys", True)
    for f in sub.findings:
        if f.rule == "KEY.always-equal" and "/morphing/model/" in f.file:
            res.add(Finding("C01", "ROUNDTRIP.model-codec-memo-ignores-layout", f.file, f.qualname, f.construct,
                            "the memo key of a generated model codec ignores something its output depends on: a model used at two "
                            "locations with different name mappings gets ONE dumper (or loader), built for whichever location was "
                            "requested first, while its partner is built per layout -- load(dump(x)) fails on the other location. "
                            + f.message[:160], f.line))
    # (c) dump must SUCCEED for every value of the type and, for the JSON clause, emit JSON-shaped containers: the union dumper's
    # Literal test may not hash / compare the object blindly, container dumpers rebuild the outer form (audits owned by C02)
    from . import c02
    sub3 = CheckResult("C02")
    c02.union_dumper(repo, sub3)
    c02.container_outer_forms(repo, sub3)
    c02.container_passthrough(repo, sub3)
    res.evaluated("roundtrip:dump-total-and-json-shaped", True)
    rt = {"UNION.literal-type-blind": ("ROUNDTRIP.union-dumper-literal-test",
                                       "dump of a union with a Literal case: the test that decides whether the object is a Literal member "
                                       "must be total and type-exact for objects of the OTHER cases (a hashed / ==-only lookup raises for "
                                       "an unhashable list case or lets Decimal('1') pass as the literal 1): load(dump(x)) fails or "
                                       "returns another value. "),
          "OUTER.container-passthrough": ("ROUNDTRIP.dump-not-json-shaped",
                                          "the dumped value travels through json.dumps / json.loads: a container handed over as it is "
                                          "(deque, a Sequence subclass, a MappingProxyType) is not JSON-serialisable or comes back as "
                                          "another class. "),
          "OUTER.": ("ROUNDTRIP.dump-not-json-shaped", "the documented outer form of a dumped container is what the JSON clause relies on. ")}
    for f in sub3.findings:
        for k, (rule, why) in rt.items():
            if f.rule.startswith(k):
                res.add(Finding("C01", rule, f.file, f.qualname, f.construct, why + f.message[:200], f.line))
                break
    sub2 = CheckResult("C18")
    m18 = repo.mod(c18.EP)
    c18.flag_list_dumper(repo, m18, sub2)
    c18.same_cases(repo, m18, sub2)
    res.evaluated("roundtrip:flag-list-codec", True)
    for f in sub2.findings:
        res.add(Finding("C01", "ROUNDTRIP.flag-list-codec", f.file, f.qualname, f.construct,
                        "flag_by_member_names: what the dumper emits for a value is not what the loader turns back into that value. "
                        + f.message[:220], f.line))


def integration_codecs_use_the_column_type(repo: Repo, res: CheckResult) -> None:
    """integrations/sqlalchemy AdaptixJSON stores a value of the declared type `tp`: binding dumps with the dumper OF tp and the
    result is loaded with the loader OF tp. A dump chosen by the class of the value (`retort.dump(value)` without the type)
    picks another codec than the loader's whenever tp is not that class (list[...], NewType with its own codec, tuples)."""
    try:
        m = repo.mod("integrations/sqlalchemy/orm")
    except AnalysisError:
        return
    ci = m.classes.get("AdaptixJSON")
    if ci is None:
        raise AnalysisError("anchor vanished: AdaptixJSON")
    res.evaluated("roundtrip:sqlalchemy-json-type", True)
    for mname in ("process_bind_param", "process_result_value", "process_literal_param"):
        fn = ci.methods.get(mname)
        if fn is None:
            continue
        for c in [x for x in ast.walk(fn) if isinstance(x, ast.Call) and isinstance(x.func, ast.Attribute) and x.func.attr in ("dump", "load")]:
            n_args = len(c.args) + len(c.keywords)
            if n_args < 2:
                res.add(Finding("C01", "ROUNDTRIP.integration-codec-untyped", m.rel, f"AdaptixJSON.{mname}", norm(c),
                                f"`{norm(c)}` chooses the codec by the class of the value, the other direction uses the declared type "
                                "`tp`: for a column declared as list[Point], a NewType with its own codec or a tuple the stored "
                                "representation is not the one the loader expects", c.lineno))


def self_type_is_the_nearest_owner(repo: Repo, res: CheckResult) -> None:
    """typing.Self in a field annotation denotes the class that declares the field: the loader and the dumper of a recursive model
    (`reply_to: Optional[Self]`) substitute the owner of the NEAREST field location. Scanning the location stack from its root
    finds the outermost model instead as soon as the model is itself a field of another one (`Post.comments: list[Comment]`):
    Self becomes Post, dump raises AttributeError and load builds the wrong class."""
    m = repo.mod("provider/loc_stack_tools")
    fn = m.functions.get("find_owner_with_field") if hasattr(m, "functions") else None
    if fn is None:
        fn = next((f for f in m.tree.body if isinstance(f, ast.FunctionDef) and f.name == "find_owner_with_field"), None)
    if fn is None:
        raise AnalysisError("anchor vanished: provider/loc_stack_tools.py:find_owner_with_field")
    users = [mm.rel for mm in repo.modules.values() if any(isinstance(c, ast.Call) and norm(c.func).endswith("find_owner_with_field") for c in ast.walk(mm.tree))] \
        if hasattr(repo, "modules") else []
    stack = func_params(fn)[0]
    loops = [l for l in ast.walk(fn) if isinstance(l, ast.For)]
    res.evaluated("self-type:nearest-owner", True)
    if len(loops) != 1:
        raise AnalysisError("find_owner_with_field: expected one loop over the location stack")
    it = loops[0].iter
    backwards = any(isinstance(c, ast.Call) and norm(c.func) == "reversed" and c.args and stack in norm(c.args[0]) for c in ast.walk(it)) \
        or "[::-1]" in norm(it)
    if stack not in norm(it):
        raise AnalysisError(f"find_owner_with_field: the loop does not iterate the stack parameter: {norm(it)}")
    if not backwards:
        res.add(Finding("C01", "SELF.owner-searched-from-the-root", m.rel, "find_owner_with_field", norm(loops[0].iter)[:100],
                        f"`for ... in {norm(it)[:60]}` walks the location stack from its root: the first field found is the OUTERMOST one, so "
                        "typing.Self of a model nested in another model's field resolves to the outer model (loader and dumper of the "
                        "wrong class; dump raises AttributeError); Self is the owner of the nearest field location -- the stack has to be "
                        "scanned backwards", loops[0].lineno))
