"""C02 — non-model loaders and dumpers implement exactly the documented per-type rules (clauses: DESIGN.md 3/C02)."""
from __future__ import annotations

import ast
import re
from typing import Dict, List, Optional, Set, Tuple

from ..core import AnalysisError, CheckResult, ClassInfo, Finding, ModuleInfo, Repo, func_params, norm, walk_no_nested
from .c07 import _dominating_type_guard

LEVEL = "other"
EXHAUSTIVE = True
EXPLANATION = (
    "Agreement between the documentation table and the code, plus path rules over the few closures that define the "
    "per-type behaviour: (a) for each of the seven basic scalar types the set of exact input types that reach a `return` "
    "of the strict loader equals the 'Allowed strict origins' column of docs/loading-and-dumping/specific-types-behavior.rst, "
    "and the registered dumper has the documented outer form (no conversion <-> as-is, str <-> T.__str__); "
    "(b) abstract collections are loaded and converted to the documented minimal concrete types, the loader table and "
    "the coercer table are equal, every implementation is a subclass of its ABC, Mapping/MutableMapping/ByteString are "
    "proxied to dict/dict/bytes; (c) every union loader variant tries the case loaders in order, returns the result of "
    "the first one that does not raise LoadError, lets nothing but LoadError skip a case, and fails only after the loop; "
    "single Optional passes None through and delegates everything else; (d) the union dumper dispatches on type(data) "
    "through __mro__ front to back and a Literal case wins only on type-exact equality; (e) Literal loaders test "
    "membership of the datum itself and compare enum/bytes results with the plain cases (kind agreement); (f) iterable dumpers build list for list children and tuple otherwise; dict loader/dumper build a "
    "new dict from any Mapping; (g) the unwrapping providers delegate NewType/Annotated/alias to the wrapped type."
)
RULE = "one evaluation = one documentation row / one table entry / one closure path obligation"
ASSUMPTIONS = ["the constructors int/float/str/bool/Decimal/Fraction/complex behave as in CPython",
               "acceptance sets of nested types follow from the element loaders (C04/C06/C07 cover their guards)",
               "values returned by case loaders of a union are those loaders' business"]

DOC = "docs/loading-and-dumping/specific-types-behavior.rst"
CP = "morphing/concrete_provider"
GP = "morphing/generic_provider"


def run(repo: Repo, tier: str, res: CheckResult, seed: int = 0) -> None:
    scalar_table(repo, res)
    abc_tables(repo, res)
    union_loaders(repo, res)
    union_dumper(repo, res)
    literal_rules(repo, res)
    container_outer_forms(repo, res)
    container_passthrough(repo, res)
    regex_guards(repo, res)
    unwrapping(repo, res)
    recipe_specific_before_general(repo, res)
    io_dumper_rewinds(repo, res)
    whole_fraction_split(repo, res)
    regex_loader_takes_str_only(repo, res)
    newtype_delegates_one_level(repo, res)
    alias_arguments_by_alias_parameters(repo, res)
    lax_loaders_pass_the_datum(repo, res)
    union_closures_not_shared_across_literals(repo, res)
    strict_container_exclusions(repo, res)
    res.assumptions = list(ASSUMPTIONS)


# ------------------------------------------------------------------------------------------ (a) doc table
def _doc_rows(repo: Repo) -> Dict[str, Tuple[Set[str], str]]:
    p = repo.root / DOC
    if not p.exists():
        raise AnalysisError(f"anchor vanished: {DOC}")
    text = p.read_text(encoding="utf-8")
    m = re.search(r"\.\. list-table::\n(?:\s+:.*\n)*\n((?:\s+\*? ?- .*\n|\s*\n)+)", text)
    if not m:
        raise AnalysisError("documentation table of basic types not found")
    cells = re.findall(r"^\s+(\*)? ?- (.*)$", m.group(1), flags=re.M)
    rows: List[List[str]] = []
    for star, cell in cells:
        if star:
            rows.append([])
        rows[-1].append(cell.strip())
    out = {}
    for r in rows[1:]:
        if len(r) != 3:
            raise AnalysisError(f"documentation table row with {len(r)} cells: {r}")
        tp = r[0].strip("`")
        origins = {x.strip().strip("`") for x in r[1].split(",")}
        out[tp] = (origins, r[2].strip("`").strip())
    return out


def scalar_table(repo: Repo, res: CheckResult) -> None:
    rows = _doc_rows(repo)
    m = repo.mod(CP)
    provs = {}
    for node in ast.walk(m.tree):
        if isinstance(node, ast.Call) and norm(node.func) == "ScalarProvider":
            kw = {k.arg: k.value for k in node.keywords}
            if "target" in kw:
                provs[norm(kw["target"])] = (kw, node.lineno)
    n = 0
    for tp, (origins, dumping) in rows.items():
        n += 1
        res.evaluated(f"doc-row:{tp}", True)
        if tp not in provs:
            res.add(Finding("C02", "DOC.scalar-missing", m.rel, "<module>", tp,
                            f"the documentation lists basic type {tp} but no ScalarProvider(target={tp}) exists", 0))
            continue
        kw, line = provs[tp]
        sr = repo.resolve_expr_static(m, kw["strict_coercion_loader"])
        if sr is None or sr.kind != "func":
            raise AnalysisError(f"ScalarProvider({tp}): strict loader is not a repo function")
        fn: ast.FunctionDef = sr.node
        d = func_params(fn)[0]
        accepted: Set[str] = set()
        for r in [x for x in ast.walk(fn) if isinstance(x, ast.Return)]:
            g = _dominating_type_guard(m, r, d)
            if g is None:
                res.add(Finding("C02", "DOC.strict-origins", m.rel, fn.name, norm(r),
                                f"an accepting path of the strict loader of {tp} is not guarded by an exact type test", r.lineno))
                continue
            accepted |= g
        res.sample({"type": tp, "documented_origins": sorted(origins), "code_origins": sorted(accepted), "dumping": dumping})
        if accepted != origins:
            res.add(Finding("C02", "DOC.strict-origins", m.rel, fn.name, f"{sorted(accepted)} vs documented {sorted(origins)}",
                            f"strict loader of {tp} accepts exactly the types {sorted(accepted)} but the documentation's "
                            f"'Allowed strict origins' are {sorted(origins)}", fn.lineno))
        # a path guarded by the target type itself returns the datum, other origins go through the constructor
        for r in [x for x in ast.walk(fn) if isinstance(x, ast.Return)]:
            g = _dominating_type_guard(m, r, d) or set()
            v = r.value
            if g == {tp} and not (isinstance(v, ast.Name) and v.id == d) and not (
                    isinstance(v, ast.Call) and norm(v.func) == tp and [norm(a) for a in v.args] == [d]):
                res.add(Finding("C02", "DOC.strict-value", m.rel, fn.name, norm(r),
                                f"a datum that already is a {tp} must be returned as is", r.lineno))
            if g and g != {tp} and tp not in g and not (isinstance(v, ast.Call) and norm(v.func) == tp and [norm(a) for a in v.args] == [d]):
                res.add(Finding("C02", "DOC.strict-value", m.rel, fn.name, norm(r),
                                f"data of the origins {sorted(g)} must be loaded by the constructor {tp}(data)", r.lineno))
        res.evaluated(f"doc-dump:{tp}", True)
        dm = norm(kw.get("dumper", ast.Constant(None)))
        want = {"no conversion": {"as_is_stub"}, "str": {f"{tp}.__str__", "str"}}.get(dumping)
        if want is None:
            raise AnalysisError(f"documentation: unknown dumping form `{dumping}` for {tp}")
        if dm not in want:
            res.add(Finding("C02", "DOC.dumping-form", m.rel, "<module>", f"ScalarProvider(target={tp}, dumper={dm})",
                            f"{tp} is documented to be dumped as `{dumping}` but the registered dumper is `{dm}`", line))
    for tp in provs:
        if tp not in rows:
            res.add(Finding("C02", "DOC.scalar-undocumented", m.rel, "<module>", tp,
                            f"ScalarProvider(target={tp}) has no row in the documentation table", provs[tp][1]))
    res.count("DOC.scalar-rows", n, 7)


# ------------------------------------------------------------------------------------------ (b) ABC tables
ABC_EXPECT = {"collections.abc.Iterable": "tuple", "collections.abc.Reversible": "tuple", "collections.abc.Collection": "tuple",
              "collections.abc.Sequence": "tuple", "collections.abc.MutableSequence": "list", "collections.abc.Set": "frozenset",
              "collections.abc.MutableSet": "set"}
SUBCLASS_OK = {("tuple", "Iterable"), ("tuple", "Reversible"), ("tuple", "Collection"), ("tuple", "Sequence"),
               ("list", "MutableSequence"), ("frozenset", "Set"), ("set", "MutableSet"), ("dict", "Mapping"),
               ("dict", "MutableMapping"), ("bytes", "ByteString")}


def _dict_literal(ci: ClassInfo, attr: str, repo: Optional[Repo] = None) -> Dict[str, str]:
    e = ci.attrs.get(attr)
    if isinstance(e, ast.Dict):
        return {norm(k): norm(v) for k, v in zip(e.keys, e.values)}
    if e is None or repo is None:
        raise AnalysisError(f"anchor vanished: {ci.name}.{attr} is not a dict display")
    # the table is COMPUTED in the class body (a comprehension, a helper): the class definition is executed in a child process
    # (an import of the module -- definitions only, no loader is created or called) and the finished table is read
    import json as _json
    import os
    import subprocess
    mod = ci.module.name
    code = (f"import json, importlib; m = importlib.import_module({mod!r}); t = getattr(m.{ci.name}, {attr!r}); "
            "print(json.dumps({k.__module__ + '.' + k.__qualname__: v.__name__ for k, v in t.items()})); "
            "import adaptix; print(adaptix.__file__)")
    env = dict(os.environ)
    env["PYTHONPATH"] = str(repo.src_root)
    env["PYTHONDONTWRITEBYTECODE"] = "1"
    p = subprocess.run(["/venv/bin/python", "-c", code], capture_output=True, text=True, env=env, timeout=120, cwd="/")
    lines = p.stdout.strip().splitlines()
    if p.returncode != 0 or len(lines) != 2 or not lines[1].startswith(str(repo.src_root)):
        raise AnalysisError(f"{ci.name}.{attr} is computed and could not be read from the class definition: {p.stderr[-300:]}")
    return dict(_json.loads(lines[0]))


def abc_tables(repo: Repo, res: CheckResult) -> None:
    mi = repo.mod("morphing/iterable_provider")
    mc = repo.mod("conversion/coercer_provider")
    li = _dict_literal(mi.classes["IterableProvider"], "ABC_TO_IMPL", repo)
    co = _dict_literal(mc.classes["IterableCoercerProvider"], "ABC_TO_IMPL", repo)
    res.evaluated("abc:loader-table", True)
    res.sample({"ABC_TO_IMPL": li})
    for k in sorted(set(li) | set(ABC_EXPECT)):
        res.evaluated(f"abc:{k}", True)
        if li.get(k) != ABC_EXPECT.get(k):
            res.add(Finding("C02", "ABC.minimal-implementation", mi.rel, "IterableProvider", f"{k} -> {li.get(k)}",
                            f"abstract collection {k} must be loaded as its documented minimal concrete type "
                            f"{ABC_EXPECT.get(k)} (found {li.get(k)})", mi.classes["IterableProvider"].node.lineno))
    res.evaluated("abc:sibling-tables", True)
    if li != co:
        res.add(Finding("C02", "ABC.sibling-tables", mc.rel, "IterableCoercerProvider", f"{co} vs {li}"[:200],
                        "loader and coercer map abstract collections to different concrete types", 0))
    for k, v in li.items():
        if (v, k.split(".")[-1]) not in SUBCLASS_OK:
            res.add(Finding("C02", "ABC.not-a-subclass", mi.rel, "IterableProvider", f"{k} -> {v}",
                            f"{v} is not an implementation of {k}", 0))
    # proxies of the builtin recipe
    fr = repo.mod("morphing/facade/retort")
    prox = {}
    for c in ast.walk(fr.tree):
        if isinstance(c, ast.Call) and norm(c.func) == "ABCProxy" and len(c.args) == 2:
            prox[norm(c.args[0])] = norm(c.args[1])
    res.evaluated("abc:proxies", True)
    want = {"Mapping": "dict", "MutableMapping": "dict", "ByteString": "bytes"}
    if prox != want:
        res.add(Finding("C02", "ABC.proxies", fr.rel, "FilledRetort", str(prox),
                        f"the builtin recipe must proxy {want}", 0))
    # the proxy hands the TYPE ARGUMENTS on: Mapping[int, str] -> dict[int, str] (a bare dict loads keys and values as Any)
    pt = repo.mod("morphing/provider_template")
    px = pt.classes.get("ABCProxy")
    if px is None:
        raise AnalysisError("anchor vanished: ABCProxy")
    for mname in ("provide_loader", "provide_dumper"):
        fnp = px.methods.get(mname)
        if fnp is None:
            raise AnalysisError(f"anchor vanished: ABCProxy.{mname}")
        res.evaluated(f"abc:proxy-arguments:{mname}", True)
        req = func_params(fnp)[2]
        reps = [c for c in ast.walk(fnp) if isinstance(c, ast.Call) and isinstance(c.func, ast.Attribute) and c.func.attr == "replace_last_type"]
        for c in reps:
            arg = c.args[0] if c.args else None
            uses_request_type = arg is not None and any(
                isinstance(x, ast.Attribute) and x.attr in ("type", "args") and req in norm(x) for x in ast.walk(arg))
            if isinstance(arg, ast.Name):
                d0 = [a.value for a in ast.walk(fnp) if isinstance(a, ast.Assign) and norm(a.targets[0]) == arg.id]
                uses_request_type = any(req in norm(d) for d in d0)
            if not uses_request_type:
                res.add(Finding("C02", "ABC.proxy-drops-arguments", pt.rel, f"ABCProxy.{mname}", norm(c)[:100],
                                f"the abstract type is replaced by `{norm(arg) if arg is not None else None}` without the type "
                                "arguments of the request: Mapping[int, int] is loaded as a bare dict, keys and values pass "
                                "unvalidated", c.lineno))
        if not reps:
            raise AnalysisError(f"ABCProxy.{mname}: no replace_last_type call")
    # _get_iter_factory: abstract -> table, concrete -> the class itself
    gi = mi.classes["IterableProvider"].methods.get("_get_iter_factory")
    if gi is None:
        raise AnalysisError("anchor vanished: IterableProvider._get_iter_factory")
    o = func_params(gi)[1]
    res.evaluated("abc:iter-factory", True)
    txt = norm(gi).replace(" ", "")
    if f"ifisabstract({o}):returnself._get_abstract_impl({o})" not in txt.replace("\n", "") or f"ifcallable({o}):return{o}" not in txt.replace("\n", ""):
        res.add(Finding("C02", "ABC.iter-factory", mi.rel, "IterableProvider._get_iter_factory", norm(gi)[:160],
                        "abstract origins are built by their table entry, concrete origins by the class itself", gi.lineno))


# ------------------------------------------------------------------------------------------ (c) union loaders
def union_loaders(repo: Repo, res: CheckResult) -> None:
    m = repo.mod(GP)
    ci = m.classes.get("UnionProvider")
    if ci is None:
        raise AnalysisError("anchor vanished: UnionProvider")
    n = 0
    for mname, fn in ci.methods.items():
        for cl in [d for d in fn.body if isinstance(d, ast.FunctionDef) and d.name.startswith("union_loader")]:
            n += 1
            qual = f"UnionProvider.{mname}.{cl.name}"
            res.evaluated(f"union-loader:{cl.name}", True)
            d = func_params(cl)[0]
            loops = [l for l in cl.body if isinstance(l, ast.For)]
            if len(loops) != 1 or not isinstance(loops[0].target, ast.Name):
                raise AnalysisError(f"{qual}: expected one loop over the case loaders")
            lp = loops[0]
            lv = lp.target.id
            # iterates all case loaders in order
            it = norm(lp.iter)
            if it not in func_params(fn) and it not in [f"tuple({p})" for p in func_params(fn)]:
                res.add(Finding("C02", "UNION.case-order", m.rel, qual, it,
                                "the union loader must try the case loaders in declaration order (plain iteration over the "
                                "loaders it was given)", lp.lineno))
            tries = [t for t in lp.body if isinstance(t, ast.Try)]
            if len(tries) != 1 or len(lp.body) != 1:
                raise AnalysisError(f"{qual}: loop body is not a single try")
            tr = tries[0]
            calls = [c for b in tr.body for c in ast.walk(b) if isinstance(c, ast.Call) and norm(c.func) == lv]
            if len(calls) != 1 or [norm(a) for a in calls[0].args] != [d]:
                res.add(Finding("C02", "UNION.case-application", m.rel, qual, "; ".join(norm(c) for c in calls),
                                "each case loader is applied exactly once to the datum itself", tr.lineno))
                continue
            # success: the result of the case loader is returned (directly or through `result`)
            ret_direct = any(isinstance(b, ast.Return) and b.value is calls[0] for b in tr.body)
            res_vars = {norm(a.targets[0]) for a in tr.body if isinstance(a, ast.Assign) and a.value is calls[0]}
            ret_else = any(isinstance(r, ast.Return) and norm(r.value) in res_vars for b in tr.orelse for r in ast.walk(b))
            if not (ret_direct or ret_else):
                res.add(Finding("C02", "UNION.returns-case-result", m.rel, qual, norm(tr)[:120],
                                "the result of the first accepting case must be returned unchanged", tr.lineno))
            # only LoadError skips a case; its handler neither raises nor leaves the loop
            le = [h for h in tr.handlers if h.type is not None and norm(h.type).split(".")[-1] == "LoadError"]
            if len(le) != 1:
                res.add(Finding("C02", "UNION.skip-on-load-error", m.rel, qual, "; ".join(norm(h.type) if h.type else "bare" for h in tr.handlers),
                                "a case is skipped exactly when its loader raises LoadError", tr.lineno))
            else:
                for x in ast.walk(ast.Module(body=le[0].body, type_ignores=[])):
                    if isinstance(x, (ast.Raise, ast.Break, ast.Return)):
                        res.add(Finding("C02", "UNION.fails-only-after-all-cases", m.rel, qual, norm(x),
                                        "a LoadError of one case must not end the search: the union fails only if every case "
                                        "fails", x.lineno))
            for h in tr.handlers:
                if h in le:
                    continue
                # broader handlers may only collect (ALL mode); they must not turn an unexpected error into a skip silently
                if not any(isinstance(x, ast.Call) and norm(x.func).endswith(".append") for x in ast.walk(h)):
                    res.add(Finding("C02", "UNION.skip-on-load-error", m.rel, qual, f"except {norm(h.type) if h.type else ''}",
                                    "an exception other than LoadError silently skips a union case", h.lineno))
            # after the loop: raise
            after = cl.body[cl.body.index(lp) + 1:]
            if not after or not any(isinstance(x, ast.Raise) for st in after for x in ast.walk(st)) or any(
                    isinstance(x, ast.Return) for st in after for x in ast.walk(st)):
                res.add(Finding("C02", "UNION.fails-after-loop", m.rel, qual, "; ".join(norm(s)[:40] for s in after),
                                "when no case accepted the datum the loader must raise (never return)", lp.lineno))
            if lp.orelse:
                res.add(Finding("C02", "UNION.fails-after-loop", m.rel, qual, "for/else", "unexpected for/else", lp.lineno))
        for cl in [d for d in fn.body if isinstance(d, ast.FunctionDef) and d.name.startswith("optional_dt")]:
            n += 1
            qual = f"UnionProvider.{mname}.{cl.name}"
            res.evaluated(f"optional-loader:{cl.name}", True)
            d = func_params(cl)[0]
            first = cl.body[0]
            ok = isinstance(first, ast.If) and norm(first.test) == f"{d} is None" and any(
                isinstance(r, ast.Return) and norm(r.value) == "None" for r in first.body)
            calls = [c for c in ast.walk(cl) if isinstance(c, ast.Call) and norm(c.func) == "loader" and [norm(a) for a in c.args] == [d]]
            rets = [r for r in ast.walk(cl) if isinstance(r, ast.Return) and r.value is not None and calls and r.value is calls[0]]
            if not ok or len(calls) != 1 or not rets:
                res.add(Finding("C02", "UNION.optional", m.rel, qual, norm(cl)[:160],
                                "Optional[T]: None is passed through, every other datum is loaded by T's loader and its result "
                                "returned", cl.lineno))
    res.count("UNION.loader-closures", n, 5)


# ------------------------------------------------------------------------------------------ (d) union dumper
def union_dumper(repo: Repo, res: CheckResult) -> None:
    ds = repo.mod("datastructures")
    ci = ds.classes.get("ClassDispatcher")
    if ci is None or "dispatch" not in ci.methods:
        raise AnalysisError("anchor vanished: ClassDispatcher.dispatch")
    fn = ci.methods["dispatch"]
    k = func_params(fn)[1]
    res.evaluated("dispatch:mro", True)
    loops = [l for l in fn.body if isinstance(l, ast.For)]
    ok = len(loops) == 1 and norm(loops[0].iter) in (f"{k}.__mro__", f"{k}.mro()", f"inspect.getmro({k})")
    if not ok:
        it = norm(loops[0].iter) if loops else "?"
        res.add(Finding("C02", "DISPATCH.mro-order", ds.rel, "ClassDispatcher.dispatch", it,
                        "the dumper of a union is chosen by walking the runtime class's __mro__ front to back (nearest "
                        "ancestor first)", fn.lineno))
    else:
        lp = loops[0]
        pv = norm(lp.target)
        rets = [r for r in ast.walk(lp) if isinstance(r, ast.Return)]
        if len(rets) != 1 or norm(rets[0].value) != f"self._mapping[{pv}]":
            res.add(Finding("C02", "DISPATCH.first-hit", ds.rel, "ClassDispatcher.dispatch", "; ".join(norm(r) for r in rets),
                            "the first class of the MRO that is registered decides", lp.lineno))
        tail = fn.body[-1]
        if not (isinstance(tail, ast.Raise) and "KeyError" in norm(tail)):
            res.add(Finding("C02", "DISPATCH.no-match", ds.rel, "ClassDispatcher.dispatch", norm(tail),
                            "an object of an unlisted class without listed ancestors is an error (KeyError)", tail.lineno))
    m = repo.mod(GP)
    up = m.classes["UnionProvider"]
    pd = up.methods.get("_produce_dumper")
    res.evaluated("union-dumper:by-runtime-class", True)
    if pd is None:
        raise AnalysisError("anchor vanished: UnionProvider._produce_dumper")
    cl = [d for d in pd.body if isinstance(d, ast.FunctionDef)]
    rets = [r for c in cl for r in ast.walk(c) if isinstance(r, ast.Return)]
    if len(cl) != 1 or len(rets) != 1 or norm(rets[0].value).replace(" ", "") != f"dumper_type_dispatcher.dispatch(type({func_params(cl[0])[0]}))({func_params(cl[0])[0]})":
        res.add(Finding("C02", "UNION.dump-by-class", m.rel, "UnionProvider._produce_dumper", "; ".join(norm(r) for r in rets),
                        "the union dumper applies the dumper dispatched on type(data) to the datum", pd.lineno))
    # literal case: type-exact membership
    pl = up.methods.get("_produce_dumper_for_literal")
    if pl is None:
        raise AnalysisError("anchor vanished: UnionProvider._produce_dumper_for_literal")
    res.evaluated("union-dumper:literal-typed-membership", True)
    cl = [d for d in pl.body if isinstance(d, ast.FunctionDef)]
    if len(cl) != 1:
        raise AnalysisError("UnionProvider._produce_dumper_for_literal: expected one closure")
    dn = func_params(cl[0])[0]
    tests = [i.test for i in cl[0].body if isinstance(i, ast.If)]
    typed = False
    for t in tests:
        if isinstance(t, ast.Compare) and isinstance(t.ops[0], ast.In):
            left = norm(t.left).replace(" ", "")
            coll = norm(t.comparators[0])
            # everything that flows into the collection: assigned values and the arguments of element-wise insertions
            defs = [a.value for a in ast.walk(pl) if isinstance(a, ast.Assign) and norm(a.targets[0]) == coll]
            defs += [arg for c in ast.walk(pl) if isinstance(c, ast.Call) and isinstance(c.func, ast.Attribute)
                     and c.func.attr in ("append", "add", "extend", "update") and norm(c.func.value) == coll for arg in c.args]
            built_typed = any("type(" in norm(dv) for dv in defs)
            typed = left in (f"(type({dn}),{dn})",) and built_typed
        if isinstance(t, ast.Call) and norm(t.func) == "any" and f"type({dn}) is type(" in norm(t):
            typed = True
    if not typed:
        res.add(Finding("C02", "UNION.literal-type-blind", m.rel, "UnionProvider._produce_dumper_for_literal.union_dumper_with_literal",
                        "; ".join(norm(t) for t in tests),
                        "whether the object is one of the Literal cases is decided by == alone: Decimal('1'), 1.0 and True equal "
                        "the case 1, so they bypass the dumper of their own class (dump(Decimal('1'), Union[Literal[1], Decimal]) "
                        "returns the Decimal object instead of '1')", cl[0].lineno))


# ------------------------------------------------------------------------------------------ (e) literal loaders
def literal_rules(repo: Repo, res: CheckResult) -> None:
    m = repo.mod(GP)
    ci = m.classes.get("LiteralProvider")
    if ci is None or "_make_loader" not in ci.methods:
        raise AnalysisError("anchor vanished: LiteralProvider._make_loader")
    fn = ci.methods["_make_loader"]
    # kind of each collection variable: 'plain' (built from the cases) or 'typed' (built from (type, case) pairs)
    kinds: Dict[str, str] = {}
    for a in ast.walk(fn):
        if isinstance(a, ast.Assign) and isinstance(a.targets[0], ast.Name) and isinstance(a.value, ast.Call) \
                and norm(a.value.func) == "self._get_allowed_values_collection" and a.value.args:
            arg = a.value.args[0]
            kinds[a.targets[0].id] = "typed" if "type(" in norm(arg) else "plain"
    if "plain" not in kinds.values():
        raise AnalysisError("LiteralProvider._make_loader: plain collection of cases not found")
    # the membership collection holds exactly the values it is given (no substitution by another collection)
    gc = ci.methods.get("_get_allowed_values_collection")
    if gc is None:
        raise AnalysisError("anchor vanished: LiteralProvider._get_allowed_values_collection")
    a0 = func_params(gc)[1]
    res.evaluated("literal:collection-of-cases", True)
    for r in [x for x in walk_no_nested(gc) if isinstance(x, ast.Return) and x.value is not None]:
        v = r.value
        ok = isinstance(v, ast.Call) and norm(v.func) in ("set", "tuple", "frozenset", "list") and [norm(a) for a in v.args] == [a0] \
            and not v.keywords
        if not ok:
            res.add(Finding("C02", "LITERAL.collection-not-the-cases", m.rel, "LiteralProvider._get_allowed_values_collection", norm(r),
                            f"the membership collection must contain exactly the given cases (`set({a0})` / `tuple({a0})`), found "
                            f"`{norm(v)}`: loaded enum members / data are compared with something else than the Literal's "
                            "arguments", r.lineno))
    for c in ast.walk(fn):
        if isinstance(c, ast.Call) and norm(c.func) == "self._get_allowed_values_collection" and (len(c.args) != 1 or c.keywords):
            res.add(Finding("C02", "LITERAL.collection-not-the-cases", m.rel, "LiteralProvider._make_loader", norm(c)[:120],
                            "the membership collection is built from the cases alone", c.lineno))
    n = 0
    for c in ast.walk(fn):
        if isinstance(c, ast.Call) and norm(c.func) in ("self._get_literal_loader_with_enum", "self._get_literal_loader_with_bytes"):
            n += 1
            which = norm(c.func).split("_")[-1]
            coll = c.args[2] if which == "enum" else c.args[1]
            res.evaluated(f"literal:wrapper-kind:{which}:{norm(coll)}", True)
            # how the wrapper tests membership: `v in coll` (plain) or `(type(v), v) in coll` (typed)
            wfn = ci.methods.get(norm(c.func).split(".")[-1])
            if wfn is None:
                raise AnalysisError(f"anchor vanished: LiteralProvider.{norm(c.func)}")
            wparams = func_params(wfn)
            cparam = wparams[3] if which == "enum" else wparams[2]
            tests = [t for t in ast.walk(wfn) if isinstance(t, ast.Compare) and len(t.ops) == 1 and isinstance(t.ops[0], ast.In)
                     and any(isinstance(x, ast.Name) and x.id == cparam for x in ast.walk(t.comparators[0]))]
            if not tests:
                raise AnalysisError(f"LiteralProvider.{wfn.name}: no membership test against `{cparam}`")
            for t in tests:
                typed_test = isinstance(t.left, ast.Tuple) and len(t.left.elts) == 2 and norm(t.left.elts[0]) == f"type({norm(t.left.elts[1])})" \
                    and norm(t.comparators[0]) == cparam
                test_kind = "typed" if typed_test else "plain"
                if kinds.get(norm(coll)) != test_kind:
                    res.add(Finding("C02", "LITERAL.kind-mismatch", m.rel, "LiteralProvider._make_loader", norm(c)[:120],
                                    f"the {which} wrapper tests `{norm(t)}` ({test_kind}) against `{norm(coll)}`, which holds "
                                    f"{kinds.get(norm(coll), 'unknown')} entries: no loaded member ever matches, so "
                                    f"{which} cases of the Literal cannot be loaded in this mode", c.lineno))
                if not typed_test:
                    # a member of an enum with an int / str / bytes mixin equals its plain value (IntE.A == 1 == True): an untyped
                    # test lets the enum loader's result for ANOTHER member pass as the listed plain value
                    res.add(Finding("C02", "LITERAL.wrapper-membership-untyped", m.rel, f"LiteralProvider.{wfn.name}", norm(t),
                                    f"`{norm(t)}`: the value the {which} loader produced is accepted when it EQUALS a case; members of "
                                    "mixed-in enums equal plain values, so load(1, Literal[True, IntE.B]) returns IntE.A (== True), a "
                                    "value the Literal does not list; the class has to take part: (type(v), v) in <typed collection>",
                                    t.lineno))
    res.count("LITERAL.wrapper-sites", n, 3)
    # every return path of _make_loader wraps enum / bytes cases when they exist
    res.evaluated("literal:all-paths-wrap", True)
    for r in [x for x in walk_no_nested(fn) if isinstance(x, ast.Return) and x.value is not None]:
        txt = norm(r.value)
        if "_get_literal_loader_with_enum" not in txt and "_get_literal_loader_with_bytes" not in txt and "_get_literal_loader_many" not in txt:
            res.add(Finding("C02", "LITERAL.unwrapped-path", m.rel, "LiteralProvider._make_loader", txt[:100],
                            "a loader is returned without the enum/bytes wrappers: Enum and bytes cases would be compared with "
                            "the raw datum instead of being loaded by their own loaders", r.lineno))
    # membership is tested on the datum itself, and the datum itself is returned
    for cl in [d for d in ast.walk(fn) if isinstance(d, ast.FunctionDef) and d is not fn]:
        d = func_params(cl)[0]
        res.evaluated(f"literal:membership:{cl.name}:{cl.lineno - fn.lineno}", True)
        ins = [c for c in ast.walk(cl) if isinstance(c, ast.Compare) and isinstance(c.ops[0], ast.In)]
        ok = len(ins) == 1 and norm(ins[0].left).replace(" ", "") in (d, f"(type({d}),{d})") and kinds.get(norm(ins[0].comparators[0])) == (
            "typed" if "type(" in norm(ins[0].left) else "plain")
        rets = [r for r in ast.walk(cl) if isinstance(r, ast.Return)]
        if not ok or [norm(r.value) for r in rets] != [d]:
            res.add(Finding("C02", "LITERAL.membership", m.rel, f"LiteralProvider._make_loader.{cl.name}", norm(cl)[:160],
                            "a Literal loader returns the datum itself exactly when it (typed under strict coercion with "
                            "bool/0/1 cases) is one of the cases", cl.lineno))
    # NOTE: the documentation says enum loaders are applied first; with both enum and bytes cases the code tries the bytes
    # wrapper first.  The order only matters for data that two cases accept, for which the documentation declares the
    # result undefined, so it is not part of the property (recorded in DESIGN.md as an observation, no rule).


# ------------------------------------------------------------------------------------------ (f) outer forms
def container_outer_forms(repo: Repo, res: CheckResult) -> None:
    mi = repo.mod("morphing/iterable_provider")
    ci = mi.classes["IterableProvider"]
    fn = ci.methods.get("_get_dumper_iter_factory")
    if fn is None:
        raise AnalysisError("anchor vanished: IterableProvider._get_dumper_iter_factory")
    res.evaluated("outer:iterable-dumper", True)
    txt = norm(fn).replace(" ", "").replace("\n", "")
    ok = txt.endswith("returntuple") and any(f"if{t}(norm.origin,list):return{r}" in txt for t in ("issubclass", "is_subclass_soft")
                                             for r in ("list", "norm.origin"))
    if not ok:
        res.add(Finding("C02", "OUTER.iterable-dump", mi.rel, "IterableProvider._get_dumper_iter_factory", norm(fn)[:160],
                        "every iterable is dumped as tuple, list children as list", fn.lineno))
    md = repo.mod("morphing/dict_provider")
    dp = md.classes.get("DictProvider")
    if dp is None:
        raise AnalysisError("anchor vanished: DictProvider")
    n = 0
    for mname, f in dp.methods.items():
        for cl in [d for d in f.body if isinstance(d, ast.FunctionDef) and (d.name.startswith("dict_loader") or d.name.startswith("dict_dumper"))]:
            n += 1
            res.evaluated(f"outer:{cl.name}", True)
            rets = [r for r in walk_no_nested(cl) if isinstance(r, ast.Return) and r.value is not None]
            inits = [a for a in cl.body if isinstance(a, ast.Assign) and isinstance(a.value, ast.Dict) and not a.value.keys]
            ok = bool(rets) and all(isinstance(r.value, ast.DictComp) or (isinstance(r.value, ast.Name) and any(
                norm(i.targets[0]) == r.value.id for i in inits)) for r in rets)
            if not ok:
                res.add(Finding("C02", "OUTER.dict", md.rel, f"DictProvider.{mname}.{cl.name}", "; ".join(norm(r) for r in rets),
                                "dict loaders and dumpers build a new plain dict", cl.lineno))
            if cl.name.startswith("dict_loader"):
                d = func_params(cl)[0]
                probe = any(isinstance(x, ast.Attribute) and x.attr == "items" and norm(x.value) == d for x in ast.walk(cl))
                if not probe:
                    res.add(Finding("C02", "OUTER.dict-accepts-mapping", md.rel, f"DictProvider.{mname}.{cl.name}", "items()",
                                    "the loader accepts any Mapping (it reads the items of the datum)", cl.lineno))
    res.count("OUTER.dict-closures", n, 6)


def container_passthrough(repo: Repo, res: CheckResult) -> None:
    """documented: container dumpers/loaders CONSTRUCT the outer container (dict / tuple / list); handing the argument back
    (as_is_stub) keeps OrderedDict, MappingProxyType, generators ... in the dumped data"""
    n = 0
    for short, cname in (("morphing/dict_provider", "DictProvider"), ("morphing/dict_provider", "DefaultDictProvider"),
                         ("morphing/iterable_provider", "IterableProvider"),
                         ("morphing/constant_length_tuple_provider", "ConstantLengthTupleProvider")):
        m = repo.mod(short)
        ci = m.classes.get(cname)
        if ci is None:
            raise AnalysisError(f"anchor vanished: {cname}")
        for mname, fn in ci.methods.items():
            if not (mname.startswith(("provide_loader", "provide_dumper", "_make_", "_get_"))):
                continue
            for r in [x for x in walk_no_nested(fn) if isinstance(x, ast.Return) and x.value is not None]:
                n += 1
                res.evaluated(f"outer:passthrough:{cname}.{mname}:{norm(r.value)[:30]}", True)
                if any(isinstance(x, ast.Name) and x.id in ("as_is_stub", "as_is_stub_with_ctx") for x in ast.walk(r.value)) \
                        and not isinstance(r.value, ast.Compare):
                    res.add(Finding("C02", "OUTER.container-passthrough", m.rel, f"{cname}.{mname}", norm(r),
                                    f"{cname} answers with the as-is stub: the {'dumped' if 'dump' in mname else 'loaded'} value is "
                                    "the argument itself, not the documented newly constructed dict/tuple/list (a "
                                    "MappingProxyType, OrderedDict or generator passes straight through)", r.lineno))
    res.count("OUTER.container-provider-returns", n, 20)


def regex_guards(repo: Repo, res: CheckResult) -> None:
    """a compiled pattern that validates a whole datum must be applied with fullmatch (or end with \\Z): `$` also matches
    before a trailing newline, `match`/`search` accept trailing garbage"""
    n = 0
    for m in repo.modules.values():
        if "/morphing/" not in m.rel:
            continue
        pats = {}
        for st in m.tree.body:
            if isinstance(st, ast.Assign) and isinstance(st.value, ast.Call) and norm(st.value.func) in ("re.compile", "compile") \
                    and isinstance(st.targets[0], ast.Name) and st.value.args and isinstance(st.value.args[0], ast.Constant):
                pats[st.targets[0].id] = st.value.args[0].value
        for c in ast.walk(m.tree):
            if isinstance(c, ast.Call) and isinstance(c.func, ast.Attribute) and isinstance(c.func.value, ast.Name) \
                    and c.func.value.id in pats and c.func.attr in ("match", "search", "fullmatch"):
                n += 1
                pat = pats[c.func.value.id]
                ptxt = pat.decode("latin1") if isinstance(pat, bytes) else str(pat)
                res.evaluated(f"regex-guard:{m.rel}:{c.func.value.id}.{c.func.attr}", True)
                if c.func.attr == "fullmatch":
                    continue
                anchored_end = ptxt.endswith("\\Z")
                anchored_start = c.func.attr == "match" or ptxt.startswith(("\\A", "^"))
                if not (anchored_end and anchored_start):
                    res.add(Finding("C02", "REGEX.not-full-match", m.rel, m.qualname(c), f"{c.func.value.id}.{c.func.attr}({ptxt[:40]})",
                                    f"the validating pattern `{ptxt[:60]}` is applied with `{c.func.attr}`"
                                    + (" and ends with `$`, which also matches before a trailing newline" if ptxt.endswith("$") else "")
                                    + ": data with trailing characters the documented format does not allow is accepted", c.lineno))
    res.coverage["regex_guards"] = n


# ------------------------------------------------------------------------------------------ (g) unwrapping providers
def unwrapping(repo: Repo, res: CheckResult) -> None:
    m = repo.mod(GP)
    want = {
        "NewTypeUnwrappingProvider": ("__supertype__",),
        "TypeHintTagsUnwrappingProvider": ("strip_tags",),
        "TypeAliasUnwrappingProvider": ("__value__", "value"),
    }
    n = 0
    for cname, marks in want.items():
        ci = m.classes.get(cname)
        if ci is None:
            raise AnalysisError(f"anchor vanished: {cname}")
        gd = ci.methods.get("get_delegated_type")
        if gd is None:
            raise AnalysisError(f"anchor vanished: {cname}.get_delegated_type")
        n += 1
        res.evaluated(f"unwrap:{cname}", True)
        txt = norm(gd)
        attrs_used = {x.attr for x in ast.walk(gd) if isinstance(x, ast.Attribute)} | {norm(c.func) for c in ast.walk(gd) if isinstance(c, ast.Call)}
        marks = tuple(mk.split(".")[-1] for mk in marks)
        if not any(mk in attrs_used for mk in marks):
            res.add(Finding("C02", "UNWRAP.delegation", m.rel, f"{cname}.get_delegated_type", txt[:160],
                            f"{cname} must delegate to the wrapped type ({' / '.join(marks)})", gd.lineno))
        if not repo.is_subclass(ci, "LocatedRequestDelegatingProvider"):
            res.add(Finding("C02", "UNWRAP.delegation", m.rel, cname, "base classes",
                            "unwrapping providers delegate the whole request with the last type replaced", ci.node.lineno))
    res.count("UNWRAP.providers", n, 3)
    lr = repo.mod("provider/located_request")
    dp = lr.classes.get("LocatedRequestDelegatingProvider")
    res.evaluated("unwrap:delegating-handler", True)
    if dp is None:
        raise AnalysisError("anchor vanished: LocatedRequestDelegatingProvider")
    gh = dp.methods["get_request_handlers"]
    txt = norm(gh).replace(" ", "").replace("\n", "")
    mt = re.search(r"(\w+)=self\.get_delegated_type\((\w+),(\w+)\)", txt)
    ok = mt is not None and f"{mt.group(2)}.delegating_provide(replace({mt.group(3)},loc_stack={mt.group(3)}.loc_stack.replace_last_type({mt.group(1)})))" in txt
    if not ok:
        res.add(Finding("C02", "UNWRAP.delegation", lr.rel, "LocatedRequestDelegatingProvider.get_request_handlers", norm(gh)[:200],
                        "the delegated request is the same request with only the last type replaced by the wrapped type", gh.lineno))


# ------------------------------------------------------------------------------------------ recipe: specific before general
# concrete classes below an abstract predicate class, with the numbers of type arguments their hints can carry
_UNDER_ITERABLE = {"builtins.tuple": "any", "builtins.dict": {2}, "collections.defaultdict": {2}, "builtins.bytes": {0},
                   "builtins.bytearray": {0}, "builtins.str": {0}, "builtins.list": {1}, "builtins.set": {1}, "builtins.frozenset": {1},
                   "collections.deque": {1}}


def _predicate_of(repo: Repo, ci: ClassInfo) -> Optional[str]:
    for c in repo.mro(ci):
        for d in c.node.decorator_list:
            if isinstance(d, ast.Call) and norm(d.func).split(".")[-1] == "for_predicate" and len(d.args) == 1:
                a = d.args[0]
                if isinstance(a, (ast.Name, ast.Attribute)):
                    r = repo.resolve_expr_static(c.module, a)
                    return r.name if r.kind == "ext" else norm(a)
                return norm(a)
    return None


def recipe_specific_before_general(repo: Repo, res: CheckResult) -> None:
    """The first matching provider wins and a class predicate for an ABC matches every subclass: a provider for a concrete
    container must stand before the provider of an abstract class above it whenever the abstract one would accept the
    same hint. IterableProvider accepts hints with exactly one type argument (derived from its arity test) -- tuple[T] is
    one -- so the constant-length tuple provider has to precede it; otherwise Tuple[int] loads [1, 2, 3]."""
    m = repo.mod("morphing/facade/retort")
    recipe = None
    for ci in m.classes.values():
        for st in ci.node.body:
            if isinstance(st, ast.Assign) and any(norm(t) == "recipe" for t in st.targets) and isinstance(st.value, ast.List) \
                    and len(st.value.elts) > 20:
                recipe = st.value
    if recipe is None:
        raise AnalysisError("anchor vanished: the builtin recipe list of FilledRetort")
    entries: List[Tuple[int, str, str, ClassInfo]] = []
    for i, e in enumerate(recipe.elts):
        if isinstance(e, ast.Call) and isinstance(e.func, ast.Name) and not e.args and not e.keywords:
            r = repo.resolve_expr_static(m, e.func)
            if r.kind == "class" and r.cls is not None:
                pred = _predicate_of(repo, r.cls)
                if pred is not None:
                    entries.append((i, r.cls.name, pred, r.cls))
    abstract = [e for e in entries if e[2] == "collections.abc.Iterable"]
    if len(abstract) != 1:
        raise AnalysisError(f"builtin recipe: expected one provider for collections.abc.Iterable, found {len(abstract)}")
    gi, gname, _gp, gcls = abstract[0]
    # arities the general provider accepts: `if len(norm.args) != N ...: raise CannotProvide`
    accepted: Set[int] = set()
    for fn in gcls.methods.values():
        for c in ast.walk(fn):
            if isinstance(c, ast.Compare) and len(c.ops) == 1 and isinstance(c.ops[0], ast.NotEq) and norm(c.left).startswith("len(") \
                    and norm(c.left).endswith(".args)") and isinstance(c.comparators[0], ast.Constant):
                accepted.add(c.comparators[0].value)
    if not accepted:
        raise AnalysisError(f"{gname}: the arity test on the normalised type was not found")
    n = 0
    for i, name, pred, _cls in entries:
        ar = _UNDER_ITERABLE.get(pred)
        if ar is None or name == gname:
            continue
        overlap = ar == "any" or bool(set(ar) & accepted)
        n += 1
        res.evaluated(f"recipe-order:{name}<{gname}", overlap)
        if overlap and i > gi:
            res.add(Finding("C02", "RECIPE.general-before-specific", m.rel, "FilledRetort.recipe", f"{gname}() before {name}()",
                            f"`{gname}` (predicate {_gp}, accepts hints with {sorted(accepted)} type argument(s)) stands before `{name}` "
                            f"(predicate {pred}) in the builtin recipe: the first match wins, so {pred.split('.')[-1]}[T] is handled as an "
                            "iterable of unknown length -- Tuple[int] accepts [1, 2, 3] and [] and the dumper stops checking the "
                            "length", recipe.elts[i].lineno))
    res.count("RECIPE.specific-general-pairs", n, 3)


def io_dumper_rewinds(repo: Repo, res: CheckResult) -> None:
    """IO[bytes] is dumped as the base64 of its WHOLE content (documented like BytesIO): a dumper that reads a stream must
    rewind a seekable one first, otherwise a just written file dumps as ''."""
    m = repo.mod(CP)
    ci = m.classes.get("IOBytesBase64Provider")
    fn = ci.methods.get("_make_dumper") if ci is not None else None
    if fn is None:
        raise AnalysisError("anchor vanished: IOBytesBase64Provider._make_dumper")
    closures = [f for f in ast.walk(fn) if isinstance(f, ast.FunctionDef) and f is not fn]
    if len(closures) != 1:
        raise AnalysisError("IOBytesBase64Provider._make_dumper: expected one dumper closure")
    d = closures[0]
    p = func_params(d)[0]
    res.evaluated("io-dumper:rewind-before-read", True)
    reads = [c for c in ast.walk(d) if isinstance(c, ast.Call) and isinstance(c.func, ast.Attribute) and c.func.attr in ("read", "readall", "readinto")
             and norm(c.func.value) == p]
    seeks = [c for c in ast.walk(d) if isinstance(c, ast.Call) and isinstance(c.func, ast.Attribute) and c.func.attr == "seek"
             and norm(c.func.value) == p and c.args and norm(c.args[0]) == "0"]
    for r in reads:
        if not any(sk.lineno <= r.lineno for sk in seeks):
            res.add(Finding("C02", "IO.read-without-rewind", m.rel, f"IOBytesBase64Provider._make_dumper.{d.name}", norm(r),
                            f"`{norm(r)}` reads from the current position and nothing rewinds the stream before (`{p}.seek(0)`): a file "
                            "that was just written dumps as '' and a partially read one loses its head; the documented "
                            "representation is the base64 of the content", r.lineno))


# ------------------------------------------------------------------------------------------ whole / fraction split of a number
def whole_fraction_split(repo: Repo, res: CheckResult) -> None:
    """A number x is split into a whole and a fractional part in one expression (timedelta: seconds + microseconds). The two
    halves must come from operators that agree for negative x: (x // 1, x % 1), divmod, math.modf, (int(x), x - int(x)),
    (math.floor(x), x % 1) for floats. int(x) / math.trunc(x) TRUNCATE while x % 1 FLOORS: int(-1.5) + (-1.5 % 1) == -0.5.
    A fraction scaled to an integer unit must be rounded, not truncated (2.3 % 1 * 10**6 == 299999.99999999994)."""
    m = repo.mod(CP)
    n = 0
    for fn in [f for f in ast.walk(m.tree) if isinstance(f, ast.FunctionDef)]:
        ps = func_params(fn)
        if not ps:
            continue
        d = ps[0]
        for call in ast.walk(fn):
            if not isinstance(call, ast.Call):
                continue
            parts = list(call.args) + [k.value for k in call.keywords]
            mods = [p for p in parts if any(isinstance(x, ast.BinOp) and isinstance(x.op, ast.Mod) and norm(x.left) == d and norm(x.right) == "1"
                                            for x in ast.walk(p))]
            if not mods:
                continue
            wholes = [p for p in parts if p not in mods and any(isinstance(x, ast.Name) and x.id == d for x in ast.walk(p))]
            if not wholes:
                continue
            n += 1
            res.evaluated(f"split:{m.qualname(fn)}:{norm(call)[:50]}", True)
            for w in wholes:
                wt = norm(w)
                floors = f"{d} // 1" in wt or f"floor({d})" in wt or f"divmod({d}" in wt
                truncs = wt in (f"int({d})", f"math.trunc({d})", f"trunc({d})")
                if truncs or not floors:
                    res.add(Finding("C02", "SPLIT.trunc-with-floor-mod", m.rel, m.qualname(fn), norm(call)[:120],
                                    f"`{wt}` truncates towards zero while `{d} % 1` is the floor remainder: for a negative datum the two "
                                    f"parts do not add up to it (-1.5 -> -1 + 0.5 = -0.5, -0.25 -> 0 + 0.75); the documented "
                                    "representation (seconds as a number, what the dumper emits) is not loaded back", call.lineno))
            for p in mods:
                pt = norm(p)
                if pt.startswith("int(") or pt.startswith("math.trunc("):
                    res.add(Finding("C02", "SPLIT.fraction-truncated", m.rel, m.qualname(fn), pt[:120],
                                    f"`{pt}` truncates the scaled fraction: binary floats make 2.3 % 1 * 10**6 == 299999.99999999994, so the "
                                    "value the dumper emitted (2.3) is loaded as 2.299999; the scaled fraction has to be rounded",
                                    call.lineno))
    # the same conversion written without a split: the datum handed to timedelta() through float(). The loader accepts exact
    # numbers (int, Decimal); a double has 53 bits, so microseconds are lost beyond ~1e10 s and Decimal ties round differently
    for fn in [f for f in ast.walk(m.tree) if isinstance(f, ast.FunctionDef)]:
        ps = func_params(fn)
        if not ps:
            continue
        d = ps[0]
        for call in ast.walk(fn):
            if isinstance(call, ast.Call) and norm(call.func) in ("timedelta", "datetime.timedelta"):
                parts = list(call.args) + [k.value for k in call.keywords]
                lossy = [c for p_ in parts for c in ast.walk(p_) if isinstance(c, ast.Call) and norm(c.func) == "float"
                         and c.args and norm(c.args[0]) == d]
                if lossy:
                    n += 1
                    res.evaluated(f"split:{m.qualname(fn)}:{norm(call)[:50]}", True)
                    res.add(Finding("C02", "SPLIT.exact-datum-through-float", m.rel, m.qualname(fn), norm(call)[:120],
                                    f"`{norm(call)[:100]}` converts the datum to a double before timedelta() splits it: the loader accepts "
                                    "exact numbers (int, Decimal) whose microseconds do not survive 53 bits "
                                    "(Decimal('86400000000.000001') loses the microsecond, Decimal('1.0000005') rounds the other way); "
                                    "the documented representation is the number of seconds, not its nearest double", call.lineno))
    res.count("SPLIT.sites", n, 1)


def regex_loader_takes_str_only(repo: Repo, res: CheckResult) -> None:
    """re.Pattern is loaded from a STRING (documented). re.compile itself also takes bytes and compiled patterns, so the loader
    has to test the type before it calls the constructor -- translating the constructor's TypeError is not enough."""
    m = repo.mod(CP)
    ci = m.classes.get("RegexPatternProvider")
    fn = ci.methods.get("_make_loader") if ci is not None else None
    if fn is None:
        raise AnalysisError("anchor vanished: RegexPatternProvider._make_loader")
    closures = [f for f in ast.walk(fn) if isinstance(f, ast.FunctionDef) and f is not fn]
    if len(closures) != 1:
        raise AnalysisError("RegexPatternProvider._make_loader: expected one loader closure")
    cl = closures[0]
    d = func_params(cl)[0]
    res.evaluated("regex:str-guard", True)
    rets = [r for r in ast.walk(cl) if isinstance(r, ast.Return) and r.value is not None]
    guards = [i for i in cl.body if isinstance(i, ast.If) and any(isinstance(x, ast.Raise) for x in i.body) and not i.orelse
              and norm(i.test) in (f"not isinstance({d}, str)", f"type({d}) is not str", f"type({d}) != str")]
    for r in rets:
        g = {"str"} if any(gi.lineno < r.lineno for gi in guards) else set()
        if g != {"str"}:
            res.add(Finding("C02", "REGEX.accepts-more-than-str", m.rel, f"RegexPatternProvider._make_loader.{cl.name}", norm(r)[:80],
                            f"`{norm(r)[:60]}` is reached without a test that the datum is a str (guard: {sorted(g) if g else 'none'}): "
                            "re.compile also accepts bytes and compiled patterns, so b'\\d+' and re.compile('x') are loaded although "
                            "the documented representation is a string", r.lineno))


def newtype_delegates_one_level(repo: Repo, res: CheckResult) -> None:
    """A NewType shares the loader and dumper of its origin type INCLUDING user providers for it: the delegation has to go
    to the direct supertype (one level per request), so that a provider registered for an intermediate NewType of a chain
    (Price -> Cents -> int) is found. Unwrapping the whole chain at once skips it."""
    m = repo.mod("morphing/generic_provider")
    ci = m.classes.get("NewTypeUnwrappingProvider")
    fn = ci.methods.get("get_delegated_type") if ci is not None else None
    if fn is None:
        raise AnalysisError("anchor vanished: NewTypeUnwrappingProvider.get_delegated_type")
    res.evaluated("newtype:one-level", True)
    loops = [x for x in ast.walk(fn) if isinstance(x, (ast.While, ast.For)) and "__supertype__" in norm(x)]
    rets = [r for r in ast.walk(fn) if isinstance(r, ast.Return) and r.value is not None]
    deep = [r for r in rets if norm(r.value).count("__supertype__") > 1]
    if loops or deep:
        node = (loops or deep)[0]
        res.add(Finding("C02", "NEWTYPE.chain-unwrapped-at-once", m.rel, "NewTypeUnwrappingProvider.get_delegated_type", norm(node)[:80].split("\n")[0],
                        "the NewType chain is followed to its end in one step: the request is delegated to the final supertype and the "
                        "recipe is never asked for the intermediate NewTypes, so `loader(Cents, ...)` is skipped for "
                        "Price = NewType('Price', Cents)", node.lineno))


def alias_arguments_by_alias_parameters(repo: Repo, res: CheckResult) -> None:
    """`type Swap[A, B] = dict[B, A]`: Swap[str, int] is dict[int, str]. The value's own __parameters__ are ordered by first
    appearance in the value, so subscripting the value with the alias arguments positionally binds them to the wrong
    variables; the arguments have to be matched with the alias's type parameters."""
    m = repo.mod("morphing/generic_provider")
    ci = m.classes.get("TypeAliasUnwrappingProvider")
    fn = ci.methods.get("get_delegated_type") if ci is not None else None
    if fn is None:
        raise AnalysisError("anchor vanished: TypeAliasUnwrappingProvider.get_delegated_type")
    res.evaluated("alias:arguments-by-alias-parameters", True)
    # names bound from an expression over the alias's own type parameters, transitively
    derived: set = set()
    for _ in range(3):
        for st in ast.walk(fn):
            if isinstance(st, ast.Assign) and len(st.targets) == 1 and isinstance(st.targets[0], ast.Name):
                t = norm(st.value)
                if "type_params" in t or any(isinstance(n, ast.Name) and n.id in derived for n in ast.walk(st.value)):
                    derived.add(st.targets[0].id)
    subs = [x for x in ast.walk(fn) if isinstance(x, ast.Subscript) and norm(x.value).endswith(".value")]
    by_alias = [x for x in subs if "type_params" in norm(x.slice) or any(isinstance(n, ast.Name) and n.id in derived for n in ast.walk(x.slice))]
    if subs and not by_alias:
        res.add(Finding("C02", "UNWRAP.alias-arguments-positional", m.rel, "TypeAliasUnwrappingProvider.get_delegated_type", norm(subs[0])[:80],
                        f"`{norm(subs[0])[:60]}` subscripts the VALUE of the alias with the arguments of the alias: the value's parameters "
                        "are in order of first appearance (dict[B, A] -> (B, A)), so Swap[str, int] with `type Swap[A, B] = dict[B, A]` "
                        "is processed as dict[str, int]", subs[0].lineno))


def lax_loaders_pass_the_datum(repo: Repo, res: CheckResult) -> None:
    """Documentation, lax column: the value is "loaded using the constructor" -- `T(data)`. A lax loader that first rewrites the
    datum (float -> repr(float), stripping, rounding) loads another value than the constructor does: load(0.1, Decimal) is
    Decimal(0.1), not Decimal('0.1')."""
    m = repo.mod(CP)
    n = 0
    for name, fn in m.functions.items():
        if not name.endswith("_lax_coercion_loader"):
            continue
        n += 1
        d = func_params(fn)[0]
        res.evaluated(f"lax-datum:{name}", True)
        for c in ast.walk(fn):
            if isinstance(c, ast.Call) and len(c.args) == 1 and not c.keywords and norm(c.args[0]) != d and isinstance(c.func, ast.Name) \
                    and c.func.id[:1].isupper() | (c.func.id in ("int", "float", "complex", "str", "bytes")) \
                    and any(isinstance(x, ast.Name) and x.id == d for x in ast.walk(c.args[0])) and not isinstance(c.args[0], ast.Name):
                res.add(Finding("C02", "DOC.lax-datum-rewritten", m.rel, name, norm(c)[:100],
                                f"`{norm(c)[:80]}`: the constructor is applied to a rewritten datum; the documented lax rule is "
                                "\"loaded using the constructor\" -- T(data) for the datum as given", c.lineno))
        for a in ast.walk(fn):
            tg = a.targets if isinstance(a, ast.Assign) else [a.target] if isinstance(a, (ast.AugAssign, ast.AnnAssign)) else []
            if any(isinstance(t, ast.Name) and t.id == d for t in tg):
                res.add(Finding("C02", "DOC.lax-datum-rewritten", m.rel, name, norm(a)[:100],
                                f"`{norm(a)[:80]}` replaces the datum before the constructor sees it: the documented lax rule is "
                                "\"loaded using the constructor\", so the result must be T(data) for the datum as given "
                                "(load(0.1, Decimal) == Decimal(0.1))", a.lineno))
    res.count("DOC.lax-loaders", n, 4)


def union_closures_not_shared_across_literals(repo: Repo, res: CheckResult) -> None:
    """Union[Literal[0, 1], Decimal] and Union[Literal[False, True], Decimal] follow different rules (a Literal member is dumped
    as is, anything else by the dumper of its class). Their closures are memoised per retort (cached_call): the key must tell
    the two unions apart -- Literal cases carried as a plain tuple compare equal (audit shared with C11)."""
    from .c11 import ted_cache_keys
    sub = CheckResult("C11")
    ted_cache_keys(repo, sub)
    res.evaluated("union:memo-key-tells-literals-apart", True)
    for f in sub.findings:
        if "UnionProvider" in f.qualname:
            res.add(Finding("C02", "UNION.closure-shared-across-literal-types", f.file, f.qualname, f.construct,
                            "the union closure is memoised under a key in which the Literal cases are a plain tuple: (0, 1) == "
                            "(False, True), so the union requested second on a retort gets the closure of the first -- its own "
                            "Literal members are no longer recognised (KeyError / dumped by the wrong rule). " + f.message[:120], f.line))


def strict_container_exclusions(repo: Repo, res: CheckResult) -> None:
    """'takes any iterable excluding str and Mapping' (iterables, constant-length tuples): the strict loaders exclude exactly by
    `type(data) is str` and `isinstance(data, Mapping)`. A look-alike test (`hasattr(data, "keys")`, a duck-typed helper)
    rejects iterables that are not Mappings (sqlite3.Row, any class with a keys() method). Audit shared with C07."""
    from . import c07
    sub = CheckResult("C07")
    c07.sibling_pairs(repo, c07.Resolver(repo), sub)
    n = sum(1 for k in sub.nontrivial if str(k).startswith("docguard:"))
    res.evaluated("container:strict-exclusions", True)
    for f in sub.findings:
        if f.rule == "DOC.strict-guards-missing":
            res.add(Finding("C02", "DOC.strict-exclusion-not-the-documented-test", f.file, f.qualname, f.construct,
                            "the documented rule excludes exactly str and collections.abc.Mapping; the strict loader tests "
                            f"`{f.construct[:120]}` instead, so it rejects (or admits) other data than the rule says: " + f.message[:160], f.line))
    res.count("DOC.strict-container-loaders", n, 4)
