"""C16 — generic models: type arguments are substituted through the class hierarchy."""
from __future__ import annotations

import ast
from typing import Dict, List, Set

from ..core import AnalysisError, CheckResult, Finding, Repo, func_params, norm, walk_no_nested

LEVEL = "translation_validation"
EXHAUSTIVE = True
EXPLANATION = (
    "Translation validation of generic resolution on compiler output (tier G): generic dataclass hierarchies are given as "
    "specs (single generic class with containers; two parameters; a child that re-orders its parent's parameters; partial "
    "binding; non-generic child of a parametrised base; three levels; an overriding annotation that shadows an inherited "
    "type variable; a renamed variable bound to a container of the child's variable; bound / constrained / plain TypeVars "
    "used bare; two generic bases; annotations that mention the variables in another order than Generic[...]; a plain "
    "class beside a subscripted base; a plain subclass of a (overriding) generic; TypedDict hierarchies). For each queried parametrisation the loader and dumper are compiled through the real "
    "Retort with a CodeGenAccumulator and, per field, the function bound as `loader_<field>` / `dumper_<field>` together with "
    "the callables it closes over is read from the emitted namespace (never called). An independent resolver written from "
    "the property statement computes the substituted annotation of every field; its scalar leaves determine which strict "
    "scalar loaders (int/str/bool/float/Decimal/bytes/as-is/Book model) and which non-trivial dumpers must be bound, and the "
    "outer constructor (List/Dict/Optional/Union) which closure kind. A non-parametrised generic must be refused for dumping. "
    "Because every pool type has its own loader function, 'the type used to load each field' is decided exactly for the "
    "enumerated hierarchies, for all data at once. The closure tree is compared in pre-order (argument positions matter). "
    "Tier S: a memo inside the resolver singletons must be keyed by every parameter its value is computed from."
)
RULE = "one evaluation = one parametrisation (all its fields, loader and dumper)"
ASSUMPTIONS = ["dataclass hierarchies plus two TypedDict, two attrs, one NamedTuple and one pydantic hierarchy (the resolver is shared "
               "by all kinds; per-kind introspection is C17); class-init models, InitVar, **kwargs: T are not enumerated",
               "type pool {int, str, bool, float, Decimal, bytes, Any, Book}: distinct types have distinct loader functions",
               "TypeVarTuple / Unpack are not enumerated"]


def run(repo: Repo, tier: str, res: CheckResult, seed: int = 0) -> None:
    from .. import genprog
    genprog.c16_checks(repo, tier, res, seed)
    res.coverage["programs"] = 2 * res.counts["GENERIC.parametrisations"][0]     # one loader and one dumper per parametrisation
    res.coverage["disagreements_checked"] = res.counts["GENERIC.fields"][0]
    memo_keys(repo, res)
    res.assumptions = list(ASSUMPTIONS)


RESOLVER_MODULES = ("type_tools/implicit_params", "type_tools/generic_resolver", "provider/shape_provider")


def _memo_stores(fn: ast.AST):
    """`container[key] = value` stores into an attribute of self / a module-level name (a memo that outlives the call)"""
    local_containers: Set[str] = set()
    for n in walk_no_nested(fn, include_root=False):
        if isinstance(n, ast.Assign) and len(n.targets) == 1 and isinstance(n.targets[0], ast.Name) \
                and isinstance(n.value, (ast.Dict, ast.DictComp, ast.List, ast.ListComp, ast.Call)):
            local_containers.add(n.targets[0].id)
    for n in walk_no_nested(fn, include_root=False):
        if isinstance(n, ast.Assign):
            for t in n.targets:
                if isinstance(t, ast.Subscript):
                    base = t.value
                    if isinstance(base, ast.Attribute) and norm(base.value) in ("self", "cls"):
                        yield n, t, n.value
                    elif isinstance(base, ast.Name) and base.id not in local_containers and base.id not in func_params(fn):
                        yield n, t, n.value


def _param_deps(fn: ast.FunctionDef, e: ast.AST, params: Set[str]) -> Set[str]:
    """parameters the value of `e` depends on (through local assignments)"""
    assigns: Dict[str, List[ast.AST]] = {}
    for n in walk_no_nested(fn, include_root=False):
        if isinstance(n, ast.Assign):
            for t in n.targets:
                if isinstance(t, ast.Name):
                    assigns.setdefault(t.id, []).append(n.value)
    seen: Set[str] = set()
    out: Set[str] = set()
    todo = [e]
    while todo:
        x = todo.pop()
        for nm in ast.walk(x):
            if isinstance(nm, ast.Name):
                if nm.id in params:
                    out.add(nm.id)
                elif nm.id in assigns and nm.id not in seen:
                    seen.add(nm.id)
                    todo += assigns[nm.id]
    return out - {"self", "cls"}


def memo_keys(repo: Repo, res: CheckResult) -> None:
    """The resolver objects are module-level singletons shared by every retort. A memo inside them is sound only when its
    key determines the stored value: every parameter the value is computed from has to be part of the key (the namespace a
    string bound is evaluated in comes from the TypeVar's module -- ForwardRef('Item') of two modules compare equal)."""
    n = 0
    for mname in RESOLVER_MODULES:
        m = repo.mod(mname)
        for fn in [x for x in ast.walk(m.tree) if isinstance(x, ast.FunctionDef)]:
            params = set(func_params(fn))
            for st, tgt, val in _memo_stores(fn):
                n += 1
                res.evaluated(f"memo:{m.rel}:{m.qualname(fn)}:{norm(tgt)[:40]}", True)
                deps = _param_deps(fn, val, params)
                keys = _param_deps(fn, tgt.slice, params)
                missing = deps - keys
                if missing:
                    res.add(Finding("C16", "MEMO.key-omits-dependency", m.rel, m.qualname(fn), norm(st)[:100],
                                    f"`{norm(tgt)}` memoises a value computed from {sorted(deps)} under a key made of {sorted(keys)} only: "
                                    f"two requests that differ in {sorted(missing)} share the entry (a string bound `'Item'` of TypeVars "
                                    "from two modules resolves to the class of whichever module was asked first), so the type a bare "
                                    "generic is loaded with depends on the history of the process", st.lineno))
    res.count("MEMO.stores-in-resolvers", n, 0)
    fx = ast.parse("class G:\n    def f(self, type_var, tp):\n        if tp not in self._c:\n            self._c[tp] = ev(vars(mods[type_var.__module__]), tp)\n        return self._c[tp]\n")
    ffn = fx.body[0].body[0]
    got = [(_param_deps(ffn, v, {"self", "type_var", "tp"}), _param_deps(ffn, t.slice, {"self", "type_var", "tp"})) for _s, t, v in _memo_stores(ffn)]
    if got != [({"type_var", "tp"}, {"tp"})]:
        raise AnalysisError("MEMO rule fixture no longer matches")
    res.evaluated("memo:fixture", True)
