"""C16 — generic models: type arguments are substituted through the class hierarchy."""
from __future__ import annotations

from ..core import CheckResult, Repo

LEVEL = "translation_validation"
EXHAUSTIVE = True
EXPLANATION = (
    "Translation validation of generic resolution on compiler output (tier G): generic dataclass hierarchies are given as "
    "specs (single generic class with containers; two parameters; a child that re-orders its parent's parameters; partial "
    "binding; non-generic child of a parametrised base; three levels; an overriding annotation that shadows an inherited "
    "type variable; a renamed variable bound to a container of the child's variable; bound / constrained / plain TypeVars "
    "used bare; two generic bases). For each queried parametrisation the loader and dumper are compiled through the real "
    "Retort with a CodeGenAccumulator and, per field, the function bound as `loader_<field>` / `dumper_<field>` together with "
    "the callables it closes over is read from the emitted namespace (never called). An independent resolver written from "
    "the property statement computes the substituted annotation of every field; its scalar leaves determine which strict "
    "scalar loaders (int/str/bool/float/Decimal/bytes/as-is/Book model) and which non-trivial dumpers must be bound, and the "
    "outer constructor (List/Dict/Optional/Union) which closure kind. A non-parametrised generic must be refused for dumping. "
    "Because every pool type has its own loader function, 'the type used to load each field' is decided exactly for the "
    "enumerated hierarchies, for all data at once."
)
RULE = "one evaluation = one parametrisation (all its fields, loader and dumper)"
ASSUMPTIONS = ["dataclass hierarchies only (the resolver is shared by all kinds; per-kind introspection is C17)",
               "type pool {int, str, bool, float, Decimal, bytes, Any, Book}: distinct types have distinct loader functions",
               "TypeVarTuple / Unpack are not enumerated"]


def run(repo: Repo, tier: str, res: CheckResult, seed: int = 0) -> None:
    from .. import genprog
    genprog.c16_checks(repo, tier, res, seed)
    res.coverage["programs"] = 2 * res.counts["GENERIC.parametrisations"][0]     # one loader and one dumper per parametrisation
    res.coverage["disagreements_checked"] = res.counts["GENERIC.fields"][0]
    res.assumptions = list(ASSUMPTIONS)
