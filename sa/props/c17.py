"""C17 — all supported model kinds behave the same for the same logical model."""
from __future__ import annotations

import ast
from typing import List

from ..core import AnalysisError, CheckResult, Finding, Repo, norm

LEVEL = "other"
EXHAUSTIVE = True
EXPLANATION = (
    "Sibling cross-check over model kinds on compiler output (tier G): the same logical model (field names, types, "
    "defaults, default factories) is declared as dataclass, NamedTuple, TypedDict, attrs class and pydantic model; for "
    "each name_mapping setting (plain, name style, as_list, map with nested path, omit_default, skip) and debug mode the "
    "whole compilation pipeline is driven through a real Retort with a CodeGenAccumulator and the emitted loader and "
    "dumper of every kind are audited into a kind-independent fingerprint -- per field: source/destination path, which "
    "loader/dumper function is bound (by qualified name), trail annotation, default expression (literal, captured "
    "constant with type, or factory call), the set of LoadError classes per node, unknown-key and length checks, sieve "
    "conditions, return form -- which must be equal across kinds (constructor call form and accessor kind are the "
    "documented per-kind differences and are left out). Converters between every ordered pair of kinds must copy every "
    "field from the same-named source field. Plus two source rules: every later stage consumes only the common shape "
    "(no import of a kind-specific introspector outside the shape provider), and the builtin shape provider lists every "
    "documented kind with __init__ introspection last. Emitted text is audited; nothing emitted is called."
)
RULE = "one evaluation = one (logical model, name_mapping, mode) group compared across kinds / one converter pair / one import"
ASSUMPTIONS = ["kinds: dataclass, NamedTuple, TypedDict, attrs, pydantic; sqlalchemy takes part in one spec (scalar columns, natural primary key, a renamed column)",
               "field types from {int, str, float, bool, Any, List[int], Optional[int], Dict[str, int]}; defaults are immutable "
               "values or list/dict factories; kinds that cannot express a spec are skipped for it",
               "value-level behaviour of the bound loaders/dumpers is the other properties' business"]

KIND_MODULES = ("attrs", "dataclass", "named_tuple", "typed_dict", "pydantic", "sqlalchemy", "class_init")


def run(repo: Repo, tier: str, res: CheckResult, seed: int = 0) -> None:
    layering(repo, res)
    shape_provider_list(repo, res)
    from .. import genprog
    genprog.c17_checks(repo, tier, res, seed)
    shared_kind_audits(repo, tier, res, seed)
    res.assumptions = list(ASSUMPTIONS)


def layering(repo: Repo, res: CheckResult) -> None:
    n = 0
    for m in repo.modules.values():
        if not any(s in m.rel for s in ("/morphing/model/", "/morphing/name_layout/", "/conversion/")):
            continue
        for node in ast.walk(m.tree):
            mods: List[str] = []
            if isinstance(node, ast.ImportFrom) and node.module:
                mods = [node.module + "." + a.name for a in node.names] + [node.module]
            elif isinstance(node, ast.Import):
                mods = [a.name for a in node.names]
            for mod in mods:
                n += 1
                parts = mod.split(".")
                kind_specific = ("introspection" in parts and any(k in parts for k in KIND_MODULES)) or parts[0] in (
                    "attr", "attrs", "pydantic", "sqlalchemy", "dataclasses") and not m.rel.endswith("definitions.py")
                if parts[0] == "dataclasses":
                    # `dataclass` / `field` / `replace` for adaptix's own classes are fine; kind tests are not
                    kind_specific = any(x in ("is_dataclass", "fields") for x in parts)
                if kind_specific:
                    res.add(Finding("C17", "LAYER.kind-specific-import", m.rel, "<module>", mod,
                                    f"`{mod}` is imported by a stage that must consume only the common InputShape/OutputShape: "
                                    "behaviour can depend on the model kind there", node.lineno))
    res.evaluated("layering:imports", True)
    res.coverage["imports_checked"] = n


def shape_provider_list(repo: Repo, res: CheckResult) -> None:
    m = repo.mod("provider/shape_provider")
    val = None
    for st in m.tree.body:
        if isinstance(st, ast.Assign) and norm(st.targets[0]) == "BUILTIN_SHAPE_PROVIDER":
            val = st.value
    if not isinstance(val, ast.Call):
        raise AnalysisError("anchor vanished: BUILTIN_SHAPE_PROVIDER")
    order = [norm(a.args[0]) for a in val.args if isinstance(a, ast.Call) and a.args]
    res.evaluated("shape-provider:list", True)
    want = {"get_named_tuple_shape", "get_typed_dict_shape", "get_dataclass_shape", "get_attrs_shape", "get_sqlalchemy_shape",
            "get_pydantic_shape", "get_class_init_shape"}
    if set(order) != want:
        res.add(Finding("C17", "SHAPE.introspectors", m.rel, "BUILTIN_SHAPE_PROVIDER", ", ".join(order),
                        f"the builtin shape provider must list exactly the documented kinds {sorted(want)}", val.lineno))
    elif order.index("get_class_init_shape") != len(order) - 1 or len(order) != len(set(order)):
        res.add(Finding("C17", "SHAPE.introspectors", m.rel, "BUILTIN_SHAPE_PROVIDER", ", ".join(order),
                        "__init__ introspection must be the last resort: placed earlier it shadows the introspector of a "
                        "supported kind and the model is loaded by its raw __init__ signature", val.lineno))


def shared_kind_audits(repo: Repo, tier: str, res: CheckResult, seed: int) -> None:
    """Three places where the kinds meet code that only SOME of them exercise (audits other properties own, reported here as
    uniformity clauses): (a) the generated model codec is memoised per retort -- its key must contain the shape, or twin models
    of different kinds that share module, name and field codecs share one loader (the TypedDict twin is loaded as the
    dataclass); (b) optional OUTPUT fields exist only for TypedDict (NotRequired keys): the dumper fragment for them must
    write every present value, None included, like the other kinds write their fields; (c) an optional INPUT key that comes
    first in the crown (TypedDict sorts its keys, keyword-only defaults may be declared first) must report a non-mapping datum
    with the same TypeLoadError the other kinds give, not with whatever `key in data` raises."""
    from ..values import Resolver
    from .. import genprog
    from . import c11
    sub = CheckResult("C11")
    c11.cached_call_sites(repo, Resolver(repo), sub)
    res.evaluated("kinds:codec-memo-key-has-shape", True)
    for f in sub.findings:
        if f.rule == "KEY.always-equal" and "/morphing/model/" in f.file:
            res.add(Finding("C17", "KIND.codec-memo-ignores-shape", f.file, f.qualname, f.construct,
                            "the memo key of the generated model codec leaves out the shape / constructor: twin models of different "
                            "kinds with one module-qualified name (make_dataclass, functional TypedDict / NamedTuple, attrs.make_class) "
                            "share the codec of whichever was requested first. " + f.message[:160], f.line))
    sub3 = CheckResult("C03")
    genprog.c03_dumper_checks(repo, tier, sub3, seed, prop="C03")
    res.evaluated("kinds:optional-output-fields-written", True)
    for f in sub3.findings:
        if f.rule == "TV.field-write-path" and "optional" in f.qualname:
            res.add(Finding("C17", "KIND.optional-output-field-dropped", f.file, f.qualname, f.construct,
                            "optional output fields exist only for TypedDict (NotRequired keys): the fragment that writes them drops or "
                            "misplaces a present value (a key that is present with None), while every other kind dumps the field. "
                            + f.message[:200], f.line))
    from ..esc import Esc
    sub4 = CheckResult("C04")
    genprog.c04_checks(repo, tier, sub4, Esc(repo, Resolver(repo), role="loader"), seed)
    res.evaluated("kinds:optional-first-key-type-error", True)
    for f in sub4.findings:
        if f.rule == "ESC.generated-escape" and "optional" in f.qualname:
            res.add(Finding("C17", "KIND.error-differs-by-field-order", f.file, f.qualname, f.construct,
                            "the extraction of an optional key lets a raw exception escape for a datum that is no mapping when no "
                            "required key was read before it: kinds that list an optional key first (TypedDict sorts its keys) answer "
                            "TypeError where the other kinds answer TypeLoadError. " + f.message[:200], f.line))
