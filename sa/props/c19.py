"""C19 — generated code treats names and keys purely as data.

Clause decided: no user supplied text reaches generated source except inside a repr()-produced literal, as a
validated identifier behind a fixed prefix, or through the sanitizer; and fixed identifiers of the templates cannot be
captured by user derived ones.
"""
from __future__ import annotations

import ast
import re
from typing import Dict, List, Optional, Set, Tuple

from ..core import AnalysisError, CheckResult, Finding, Repo, func_params, norm, walk_no_nested
from ..strkind import IDENT_PREFIXES, SAFE_TEXT, StrKind
from ..values import Resolver, ctx_for

LEVEL = "other"
EXHAUSTIVE = True
EXPLANATION = (
    "Taint/provenance analysis of every interpolation hole of every f-string (and Template/ast-building call) in the "
    "code generator modules: each hole expression is traced through locals, parameters (all call sites), "
    "properties, helper returns and constructor sites to a provenance kind; external keys must be !r-quoted, validated "
    "identifiers must follow a fixed prefix (or be keyword-safe), user text must not reach code. Plus freshness: "
    "identifiers fixed in the templates never fall into the prefixed name spaces, and identifiers handed to ast.Name / "
    "ast.keyword / def headers are checked the same way. Thorough tier repeats the decision on emitted programs for "
    "hostile identifiers and keys (tier G)."
)
RULE = "one evaluation = one interpolation hole / one ast identifier site; non-trivial = hole expression is not a constant"
ASSUMPTIONS = [
    "BaseField.__post_init__ and Param._validate reject non-identifiers (verified structurally by this check)",
    "inspect.Parameter rejects keywords and non-identifiers (stdlib)",
    "repr() of str/int/tuple-of-those is a python literal",
]

GEN_MODULES = ["morphing/model/loader_gen", "morphing/model/dumper_gen", "morphing/model/basic_gen",
               "conversion/broaching/code_generator", "conversion/converter_provider"]
AST_MODULES = ["conversion/broaching/code_generator", "conversion/model_coercer_provider"]
RESERVED = re.compile(r"^(f|r|loader|dumper|dfl|accessor_getter|trail_element|access_error)_\w+$")


def _in_raise_or_repr(m, node: ast.AST) -> bool:
    p = m.parent(node)
    while p is not None:
        if isinstance(p, ast.Raise):
            return True
        if isinstance(p, ast.Call) and isinstance(p.func, ast.Name) and p.func.id in ("CannotProvide", "ValueError",
                                                                                      "TypeError", "KeyError", "RuntimeError"):
            return True
        if isinstance(p, (ast.FunctionDef, ast.Lambda)):
            if isinstance(p, ast.FunctionDef) and p.name in ("__repr__", "__str__"):
                return True
            if isinstance(p, ast.Lambda):
                return True  # error-description / file-name lambdas
            break
        p = m.parent(p)
    return False


def run(repo: Repo, tier: str, res: CheckResult, seed: int = 0) -> None:
    R = Resolver(repo)
    SK = StrKind(repo, R)
    n_holes = 0
    n_templates = 0
    kinds_hist: Dict[str, int] = {}
    for sm in GEN_MODULES:
        m = repo.mod(sm)
        for node in ast.walk(m.tree):
            if not isinstance(node, ast.JoinedStr):
                continue
            if _in_raise_or_repr(m, node):
                continue
            # nested f-string inside a hole's format spec is not a template
            parent = m.parent(node)
            if isinstance(parent, ast.FormattedValue) and parent.format_spec is node:
                continue
            if isinstance(parent, ast.Call) and isinstance(parent.func, ast.Attribute) and parent.func.attr == "sanitize":
                continue  # text handed to the sanitizer is data, the sanitizer's result is what reaches code
            fn = m.enclosing_function(node)
            fctx = ctx_for(repo, m, fn) if fn is not None else None
            n_templates += 1
            text0 = "".join(v.value for v in node.values if isinstance(v, ast.Constant))
            comment = text0.lstrip().startswith("#")
            for i, v in enumerate(node.values):
                if not isinstance(v, ast.FormattedValue):
                    continue
                n_holes += 1
                ok, kinds, why = SK.hole_verdict(node, i, fctx, m, comment=comment)
                for k in kinds:
                    kinds_hist[k] = kinds_hist.get(k, 0) + 1
                ident = f"{m.rel}:{m.qualname(node)}:{norm(v.value)}:{v.conversion}"
                res.evaluated(ident, not isinstance(v.value, ast.Constant))
                res.sample({"hole": norm(v.value), "conversion": "!r" if v.conversion == ord("r") else "",
                            "in": f"{m.rel}:{m.qualname(node)}", "kinds": sorted(kinds), "verdict": "ok" if ok else why},
                           limit=16)
                if ok:
                    continue
                if kinds and kinds <= (SAFE_TEXT | {"UNKNOWN", "NONE"}) and "UNKNOWN" in kinds:
                    raise AnalysisError(f"cannot determine provenance of hole `{norm(v.value)}` in {m.rel}:"
                                        f"{m.qualname(node)} (template `{norm(node)[:80]}`)")
                res.add(Finding(
                    "C19", "TAINT.hole", m.rel, m.qualname(node),
                    f"{{{norm(v.value)}{'!r' if v.conversion == ord('r') else ''}}} in {_template_text(node)[:120]}",
                    f"interpolation of `{norm(v.value)}` (provenance {sorted(kinds)}) into generated source: {why}",
                    node.lineno,
                ))
    res.count("TAINT.templates", n_templates, 100)
    res.count("TAINT.holes", n_holes, 190)

    # Template(...).substitute(k=v): every value must be code-kind
    n_subst = 0
    for sm in GEN_MODULES:
        m = repo.mod(sm)
        for node in ast.walk(m.tree):
            if isinstance(node, ast.Call) and isinstance(node.func, ast.Attribute) and node.func.attr == "substitute" \
                    and isinstance(node.func.value, ast.Call) and norm(node.func.value.func) in ("Template", "string.Template"):
                fn = m.enclosing_function(node)
                fctx = ctx_for(repo, m, fn) if fn is not None else None
                for kw in node.keywords:
                    n_subst += 1
                    kinds = SK.classify(kw.value, fctx, m)
                    res.evaluated(f"{m.rel}:{m.qualname(node)}:subst:{kw.arg}:{norm(kw.value)}", True)
                    bad = kinds - SAFE_TEXT
                    if bad:
                        if bad <= {"UNKNOWN"}:
                            raise AnalysisError(f"cannot determine provenance of Template value `{norm(kw.value)}` in "
                                                f"{m.rel}:{m.qualname(node)}")
                        res.add(Finding("C19", "TAINT.template-subst", m.rel, m.qualname(node),
                                        f"${kw.arg}={norm(kw.value)}",
                                        f"Template substitution value has provenance {sorted(kinds)}; not code-safe",
                                        node.lineno))
    res.count("TAINT.template-substitutions", n_subst, 3)
    # the TEXT of a string.Template is interpreted a second time by substitute(): a hole that is safe as Python source under
    # !r (a user key) is not safe there -- `$` inside the key is template syntax (KeyError / ValueError at generation, or a
    # silently different key)
    for sm in GEN_MODULES:
        m = repo.mod(sm)
        for node in ast.walk(m.tree):
            if isinstance(node, ast.Call) and norm(node.func) in ("Template", "string.Template") and node.args \
                    and isinstance(node.args[0], ast.JoinedStr):
                fn = m.enclosing_function(node)
                fctx = ctx_for(repo, m, fn) if fn is not None else None
                for v in node.args[0].values:
                    if not isinstance(v, ast.FormattedValue):
                        continue
                    kinds = SK.classify(v.value, fctx, m)
                    res.evaluated(f"{m.rel}:{m.qualname(node)}:template-text:{norm(v.value)}", True)
                    if kinds - {"CONST", "CODE", "INT", "LITERAL", "SANITIZED", "IDENT", "NONE"}:
                        res.add(Finding("C19", "TAINT.template-second-pass", m.rel, m.qualname(node),
                                        f"Template(f'..{{{norm(v.value)}{'!r' if v.conversion == ord('r') else ''}}}..')",
                                        f"`{norm(v.value)}` (provenance {sorted(kinds)}) is interpolated into the text of a "
                                        "string.Template: substitute() interprets `$` inside it, so a key such as 'US$' or '$ref' "
                                        "breaks generation and '$$' / '$value' silently change the key", node.lineno))

    # identifiers handed to the ast builders
    n_ast = 0
    for sm in AST_MODULES:
        m = repo.mod(sm)
        for node in ast.walk(m.tree):
            if not isinstance(node, ast.Call):
                continue
            fname = norm(node.func)
            target: Optional[ast.expr] = None
            what = ""
            if fname in ("ast.Name", "Name"):
                target = node.args[0] if node.args else next((k.value for k in node.keywords if k.arg == "id"), None)
                what = "ast.Name id"
            elif fname in ("ast.keyword", "keyword"):
                target = next((k.value for k in node.keywords if k.arg == "arg"), None)
                what = "ast.keyword arg"
            elif fname in ("ast.arg",):
                target = node.args[0] if node.args else next((k.value for k in node.keywords if k.arg == "arg"), None)
                what = "ast.arg name"
            elif fname in ("ast.Attribute",):
                target = next((k.value for k in node.keywords if k.arg == "attr"), None)
                what = "ast.Attribute attr"
            if target is None:
                continue
            fn = m.enclosing_function(node)
            fctx = ctx_for(repo, m, fn) if fn is not None else None
            kinds = SK.classify(target, fctx, m)
            n_ast += 1
            res.evaluated(f"{m.rel}:{m.qualname(node)}:{what}:{norm(target)}", True)
            res.sample({"ast_site": f"{what} = {norm(target)}", "in": f"{m.rel}:{m.qualname(node)}",
                        "kinds": sorted(kinds)}, limit=20)
            if "IDENT" in kinds and SK.guarded_not_keyword(node, target, m):
                kinds = (kinds - {"IDENT"}) | {"IDENT_KW"}
            bad = kinds - (SAFE_TEXT | {"IDENT_KW", "PARAM_KW"})
            if not bad:
                continue
            if bad <= {"UNKNOWN"}:
                raise AnalysisError(f"cannot determine provenance of {what} `{norm(target)}` in {m.rel}:{m.qualname(node)}")
            why = "identifier that may be a keyword" if bad <= {"IDENT"} else f"provenance {sorted(bad)}"
            res.add(Finding("C19", "TAINT.ast-ident", m.rel, m.qualname(node), f"{what}={norm(target)}",
                            f"{what} `{norm(target)}` ({sorted(kinds)}) is written to generated source verbatim by "
                            f"ast.unparse: {why}", node.lineno))
    res.count("TAINT.ast-identifier-sites", n_ast, 4)

    # registration of namespace names: add_constant / try_add_constant / register_var first argument is code-kind
    n_reg = 0
    for sm in GEN_MODULES:
        m = repo.mod(sm)
        for node in ast.walk(m.tree):
            if isinstance(node, ast.Call) and isinstance(node.func, ast.Attribute) and node.func.attr in (
                    "add_constant", "add_outer_constant", "try_add_constant", "register_var") and node.args:
                fn = m.enclosing_function(node)
                fctx = ctx_for(repo, m, fn) if fn is not None else None
                kinds = SK.classify(node.args[0], fctx, m)
                n_reg += 1
                res.evaluated(f"{m.rel}:{m.qualname(node)}:ns:{norm(node.args[0])}", True)
                bad = kinds - (SAFE_TEXT | {"IDENT_KW"})
                # `named_value.__name__` for a fixed tuple of repo functions/classes is code the generator owns
                if bad and norm(node.args[0]).endswith(".__name__") and _iterates_fixed_tuple(m, node):
                    bad = frozenset()
                if bad:
                    if bad <= {"UNKNOWN"}:
                        raise AnalysisError(f"cannot determine provenance of namespace name `{norm(node.args[0])}` in "
                                            f"{m.rel}:{m.qualname(node)}")
                    res.add(Finding("C19", "TAINT.namespace-name", m.rel, m.qualname(node),
                                    f"{node.func.attr}({norm(node.args[0])}, ...)",
                                    f"name registered in the generated module namespace has provenance {sorted(kinds)}",
                                    node.lineno))
    res.count("TAINT.namespace-registrations", n_reg, 20)

    freshness(repo, res)
    converter_scoping(repo, SK, res)
    validators(repo, res)
    sanitizer(repo, res)
    res.coverage["hole_kind_histogram"] = dict(sorted(kinds_hist.items()))
    ast_templater_structural(repo, res)
    captured_global_names(repo, res)
    namespace_exclusion(repo, res)
    mapped_keys_are_plain(repo, res)
    registrations_are_mangled(repo, res)
    keyword_arguments_survive_the_parser(repo, res)
    # a default (or a constant) the renderer inlines must be a CLOSED literal: anything else is text of the user's value executed
    # as code -- `(inf+0j)` names `inf`, a NameError in the generated function or whatever a global of that name holds (audit
    # shared with C08, which owns the literal renderer family)
    from .. import genprog
    sub = CheckResult("C08")
    genprog.literal_checks(repo, tier, sub, seed, "C08")
    res.evaluated("default:rendered-literals-are-closed", True)
    for f in sub.findings:
        if f.rule == "LITERAL.not-a-literal":
            res.add(Finding("C19", "DEFAULT.rendered-text-is-not-a-literal", f.file, f.qualname, f.construct,
                            "a default value is written into the generated function as source text that is not a closed literal: names "
                            "inside it are resolved (or fail) when the function runs. " + f.message[:200], f.line))
    res.assumptions = list(ASSUMPTIONS)

    from .. import genprog
    genprog.c19_checks(repo, tier, res, seed)


def _iterates_fixed_tuple(m, node: ast.Call) -> bool:
    p = m.parent(node)
    while p is not None and not isinstance(p, (ast.For, ast.FunctionDef)):
        p = m.parent(p)
    return isinstance(p, ast.For) and isinstance(p.iter, (ast.Tuple, ast.List)) \
        and all(isinstance(e, (ast.Name, ast.Attribute)) for e in p.iter.elts)


def _template_text(js: ast.JoinedStr) -> str:
    out = []
    for v in js.values:
        if isinstance(v, ast.Constant):
            out.append(str(v.value))
        else:
            out.append("{…}")
    return " ".join("".join(out).split())


# ------------------------------------------------------------------------------------------ freshness
def freshness(repo: Repo, res: CheckResult) -> None:
    """Identifiers that the templates themselves use must not live in the name spaces reserved for user derived names
    (`f_<id>`, `loader_<id>`, ...): otherwise a field called like the suffix captures the template's variable."""
    n = 0
    for sm in ("morphing/model/loader_gen", "morphing/model/dumper_gen"):
        m = repo.mod(sm)
        for node in ast.walk(m.tree):
            texts: List[Tuple[str, ast.AST]] = []
            if isinstance(node, ast.JoinedStr):
                if _in_raise_or_repr(m, node):
                    continue
                parts = []
                for v in node.values:
                    parts.append(str(v.value) if isinstance(v, ast.Constant) else "\0")
                texts.append(("".join(parts), node))
            elif isinstance(node, ast.Constant) and isinstance(node.value, str):
                p = m.parent(node)
                if isinstance(p, ast.JoinedStr) or isinstance(p, ast.Expr):
                    continue
                if _in_raise_or_repr(m, node):
                    continue
                texts.append((node.value, node))
            for text, nd in texts:
                for mt in re.finditer(r"(\0?)([A-Za-z_][A-Za-z_0-9]*)(\0?)", text):
                    if mt.group(1) or mt.group(3):
                        continue  # glued to a hole: a prefix/suffix, not a whole identifier
                    tok = mt.group(2)
                    n += 1
                    if RESERVED.match(tok):
                        res.add(Finding("C19", "FRESH.reserved-prefix", m.rel, m.qualname(nd), tok,
                                        f"fixed identifier `{tok}` of a template lies in the name space reserved for "
                                        f"field-derived variables; a field named `{tok.split('_', 1)[1]}` captures it",
                                        getattr(nd, "lineno", 0)))
    res.evaluated("freshness:fixed-identifiers", True)
    res.count("FRESH.fixed-identifiers", n, 150)


def converter_scoping(repo: Repo, SK: StrKind, res: CheckResult) -> None:
    """Converter templates put user-chosen parameter names and a user-chosen function name into the scope of the
    generated function.  (a) Identifiers the template fixes INSIDE the function body can be captured by a parameter of
    the same name, so the body may only use keywords/None besides holes that went through a namespace check against
    the parameter names; (b) the function name, when it is an unprefixed user name, must be reserved in the namespace
    (otherwise `def coercer(...)` rebinds the helper the body calls)."""
    import keyword
    n = 0
    for sm in ("conversion/converter_provider", "conversion/broaching/code_generator"):
        m = repo.mod(sm)
        for node in ast.walk(m.tree):
            if not isinstance(node, ast.JoinedStr) or _in_raise_or_repr(m, node):
                continue
            parts = [str(v.value) if isinstance(v, ast.Constant) else "\0" for v in node.values]
            text = "".join(parts)
            if not re.search(r"\bdef \0", text):
                continue
            fn = m.enclosing_function(node)
            fctx = ctx_for(repo, m, fn) if fn is not None else None
            n += 1
            res.evaluated(f"scoping:{m.rel}:{m.qualname(node)}", True)
            # (a) fixed identifiers after the header line
            header_end = text.find(":", text.find("def \0"))
            body = text[header_end + 1:] if header_end >= 0 else ""
            for mt in re.finditer(r"(\0?)([A-Za-z_][A-Za-z_0-9]*)(\0?)", body):
                if mt.group(1) or mt.group(3):
                    continue
                tok = mt.group(2)
                if keyword.iskeyword(tok) or tok in ("None", "True", "False"):
                    continue
                res.add(Finding("C19", "SCOPE.fixed-identifier-in-body", m.rel, m.qualname(node), tok,
                                f"the template fixes the identifier `{tok}` inside the body of a function whose parameter "
                                f"names are chosen by the user: a parameter called `{tok}` shadows it", node.lineno))
            # holes of the body that name namespace objects must come from a registration that checks the parameters
            idx_header = None
            for i, v in enumerate(node.values):
                if isinstance(v, ast.Constant) and ":" in str(v.value) and idx_header is None and i > 0:
                    idx_header = i
            # (b) reservation of the function name
            def_hole = None
            for i, v in enumerate(node.values):
                if isinstance(v, ast.FormattedValue) and i > 0 and isinstance(node.values[i - 1], ast.Constant) \
                        and str(node.values[i - 1].value).rstrip(" ").endswith("def"):
                    def_hole = v
            # (b') the same namespace receives constants under names chosen by the user (a linked function's __name__):
            # whatever the def name is, it must be reserved, otherwise `def <name>` rebinds such a constant to the closure
            user_named_constants = []
            cls_ = m.enclosing_class(node)
            if def_hole is not None and cls_ is not None:
                for mname2, f2 in m.classes[cls_.name].methods.items() if cls_.name in m.classes else []:
                    for c in ast.walk(f2):
                        if isinstance(c, ast.Call) and isinstance(c.func, ast.Attribute) and c.func.attr in (
                                "register_mangled", "_register_mangled") and c.args:
                            a0 = c.args[0] if c.func.attr == "register_mangled" else (c.args[1] if len(c.args) > 1 else c.args[0])
                            if isinstance(a0, ast.Attribute) and a0.attr == "__name__":
                                user_named_constants.append(norm(c)[:60])
            if def_hole is not None and fn is not None and user_named_constants \
                    and not _unprefixed_user_name(repo, SK, m, fn, def_hole.value, fctx):
                nm = norm(def_hole.value)
                reserved = False
                for c in ast.walk(fn):
                    if isinstance(c, ast.Call) and "Namespace" in norm(c.func):
                        occ = next((k.value for k in c.keywords if k.arg == "occupied"), None)
                        if occ is not None and any(isinstance(x, ast.Name) and x.id == nm for x in ast.walk(occ)):
                            reserved = True
                res.evaluated(f"scoping:user-named-constants:{m.rel}:{m.qualname(node)}", True)
                if not reserved:
                    res.add(Finding("C19", "SCOPE.function-name-not-reserved", m.rel, m.qualname(node), f"def {{{nm}}} with user-named constants",
                                    f"constants are registered in this namespace under names chosen by the user ({user_named_constants[0]}) "
                                    f"but the name of the generated function (`{nm}`) is not reserved: a linked function whose "
                                    "__name__ equals the closure name is rebound by `def` and the closure calls itself", node.lineno))
            if def_hole is not None and fn is not None and _unprefixed_user_name(repo, SK, m, fn, def_hole.value, fctx):
                nm = norm(def_hole.value)
                reserved = False
                for c in ast.walk(fn):
                    if isinstance(c, ast.Call) and "Namespace" in norm(c.func):
                        occ = next((k.value for k in c.keywords if k.arg == "occupied"), None)
                        if occ is not None and any(isinstance(x, ast.Name) and x.id == nm for x in ast.walk(occ)):
                            reserved = True
                    if isinstance(c, ast.Call) and isinstance(c.func, ast.Attribute) and c.func.attr in (
                            "register_var", "add_constant", "try_register_var") and c.args and norm(c.args[0]) == nm:
                        reserved = True
                if not reserved:
                    res.add(Finding("C19", "SCOPE.function-name-not-reserved", m.rel, m.qualname(node), f"def {{{nm}}}",
                                    f"the generated function is named by the user (`{nm}`) but the name is not reserved in "
                                    "the namespace: a name equal to a helper registered for the body (e.g. `coercer`) "
                                    "rebinds it and the converter calls itself", node.lineno))
    res.count("SCOPE.def-templates", n, 2)


def _unprefixed_user_name(repo: Repo, SK: StrKind, m, fn: ast.FunctionDef, expr: ast.expr, fctx) -> bool:
    """the def-name expression is (derived from) a user-chosen name without a fixed prefix"""
    kinds = SK.classify(expr, fctx, m)
    if "USER" in kinds:
        return True
    if "SANITIZED" not in kinds:
        return False
    # find sanitize(...) calls that can produce this name along the parameter's call sites
    if isinstance(expr, ast.Name):
        fr = ctx_for(repo, m, fn)
        seen = 0
        for call, cctx, shift in SK.R.call_sites(fr):
            for kw in call.keywords:
                if kw.arg == expr.id and cctx is not None:
                    for node in ast.walk(cctx.fn):
                        if isinstance(node, ast.Call) and isinstance(node.func, ast.Attribute) and node.func.attr == "sanitize" \
                                and node.args:
                            a0 = node.args[0]
                            prefixed = isinstance(a0, ast.JoinedStr) and a0.values and isinstance(a0.values[0], ast.Constant) \
                                and str(a0.values[0].value) != ""
                            seen += 1
                            if not prefixed:
                                # is this sanitize result the bound argument?
                                if isinstance(kw.value, ast.Name):
                                    for asg in ast.walk(cctx.fn):
                                        if isinstance(asg, ast.Assign) and norm(asg.targets[0]) == kw.value.id \
                                                and any(x is node for x in ast.walk(asg.value)):
                                            return True
    return False


def validators(repo: Repo, res: CheckResult) -> None:
    """BaseField.__post_init__ / Param._validate must reject non-identifiers (the IDENT kind rests on it)."""
    m = repo.mod("model_tools/definitions")
    ok_field = ok_param = False
    bf = m.classes.get("BaseField")
    if bf is None:
        raise AnalysisError("anchor vanished: BaseField")
    pi = repo.find_method(bf, "__post_init__")
    if pi is not None:
        ok_field = _raises_unless_identifier(repo, m, pi[1], "id")
    pa = m.classes.get("Param")
    if pa is None:
        raise AnalysisError("anchor vanished: Param")
    for name in ("_validate", "__post_init__"):
        f = repo.find_method(pa, name)
        if f is not None and _raises_unless_identifier(repo, m, f[1], "name") and _raises_unless_identifier(repo, m, f[1], "field_id"):
            ok_param = True
    res.evaluated("validator:BaseField.id", True)
    res.evaluated("validator:Param.name", True)
    if not ok_field:
        res.add(Finding("C19", "IDENT.validator", m.rel, "BaseField.__post_init__", "isidentifier(id)",
                        "field ids are no longer validated as identifiers at construction; every f_<id>/loader_<id> "
                        "interpolation becomes an injection site", bf.node.lineno))
    if not ok_param:
        res.add(Finding("C19", "IDENT.validator", m.rel, "Param._validate", "isidentifier(name)",
                        "parameter names / field ids of Param are no longer validated as identifiers", pa.node.lineno))
    # the identifier has to be STABLE under the parser's NFKC normalisation: '\ufb01' (a legal identifier) is read back as 'fi'
    helper = m.functions.get("is_valid_field_id")
    if helper is None:
        raise AnalysisError("anchor vanished: model_tools/definitions.is_valid_field_id")
    res.evaluated("validator:field-id-nfkc", True)
    rets = [r for r in ast.walk(helper) if isinstance(r, ast.Return) and r.value is not None]
    p0 = helper.args.args[0].arg

    def nfkc_fixpoint(e: ast.expr) -> bool:
        for c in ast.walk(e):
            if isinstance(c, ast.Compare) and len(c.ops) == 1 and isinstance(c.ops[0], ast.Eq):
                sides = [c.left, c.comparators[0]]
                calls = [x for x in sides if isinstance(x, ast.Call) and norm(x.func).endswith("normalize") and x.args
                         and isinstance(x.args[0], ast.Constant) and x.args[0].value in ("NFKC",) and norm(x.args[-1]) == p0]
                if calls and any(norm(x) == p0 for x in sides):
                    return True
        return False
    if not (rets and all(isinstance(r.value, ast.BoolOp) and isinstance(r.value.op, ast.And) and nfkc_fixpoint(r.value) for r in rets)):
        res.add(Finding("C19", "IDENT.validator-nfkc", m.rel, "is_valid_field_id", "; ".join(norm(r.value) for r in rets)[:120],
                        "a field id is accepted although it is not a fixed point of NFKC normalisation: the parser normalises "
                        "identifiers, so f_<id> / loader_<id> / <id>=... written for the key '\ufb01' denote `fi` in the generated "
                        "code -- two fields share one variable (silently wrong values) or the generated name is not bound "
                        "(NameError while the loader is built)", helper.lineno))


def _raises_unless_identifier(repo: Repo, m, fn: ast.FunctionDef, attr: str) -> bool:
    """fn contains `if not <self.attr is identifier>: raise ...` (directly or through is_valid_field_id)."""
    for node in walk_no_nested(fn):
        if isinstance(node, ast.If) and any(isinstance(s, ast.Raise) for s in node.body):
            t = node.test
            if isinstance(t, ast.UnaryOp) and isinstance(t.op, ast.Not):
                inner = t.operand
                txt = norm(inner)
                if f"self.{attr}" in txt:
                    if ".isidentifier()" in txt:
                        return True
                    if isinstance(inner, ast.Call) and isinstance(inner.func, ast.Name) and inner.func.id in m.functions:
                        helper = m.functions[inner.func.id]
                        rets = [r for r in ast.walk(helper) if isinstance(r, ast.Return) and r.value is not None]
                        if rets and all(".isidentifier()" in norm(r.value) for r in rets):
                            return True
    return False


def sanitizer(repo: Repo, res: CheckResult) -> None:
    """BuiltinNameSanitizer.sanitize: the output is a valid identifier: first char forced to ascii letter or '_', every other
    character kept only if it may continue an identifier (str.isidentifier, or an ASCII-only regex class -- the Unicode-aware
    \\w is wider than the identifier alphabet)."""
    m = repo.mod("code_tools/name_sanitizer")
    ci = m.classes.get("BuiltinNameSanitizer")
    if ci is None or "sanitize" not in ci.methods:
        raise AnalysisError("anchor vanished: BuiltinNameSanitizer.sanitize")
    fn = ci.methods["sanitize"]
    res.evaluated("sanitizer:alphabet", True)
    rets = [r for r in ast.walk(fn) if isinstance(r, ast.Return) and r.value is not None]
    bad = None
    exprs: List[Tuple[ast.AST, ast.expr]] = [(r, r.value) for r in rets]
    accepted_names: Set[str] = set()
    # names assigned from an accepted expression are accepted as well (result = first_letter + ...)
    assigns = [n for n in ast.walk(fn) if isinstance(n, ast.Assign) and len(n.targets) == 1 and isinstance(n.targets[0], ast.Name)]
    for holder, v in [(a, a.value) for a in assigns] + exprs:
        is_ret = isinstance(holder, ast.Return)
        if isinstance(v, ast.Constant) and v.value == "":
            continue
        if isinstance(v, ast.Name) and v.id in accepted_names:
            continue
        if isinstance(v, ast.BinOp) and isinstance(v.op, ast.Add) and isinstance(v.left, ast.Name) \
                and v.left.id in accepted_names and isinstance(v.right, ast.Constant) \
                and isinstance(v.right.value, str) and re.fullmatch(r"\w+", v.right.value):
            continue  # accepted text with a fixed word-character suffix (keyword escaping)
        # first_letter + REGEX.sub("", ...)
        if isinstance(v, ast.BinOp) and isinstance(v.op, ast.Add):
            right = v.right
            okr = isinstance(right, ast.Call) and isinstance(right.func, ast.Attribute) and right.func.attr == "sub" \
                and right.args and isinstance(right.args[0], ast.Constant) and right.args[0].value == ""
            if okr:
                pat_name = norm(right.func.value).split(".")[-1]
                pat = ci.attrs.get(pat_name)
                # \w is WIDER than the identifier alphabet ('²', '①' are \w but not XID_Continue): the Unicode-aware class is
                # accepted only together with re.ASCII; explicit ASCII classes are fine
                ascii_flag = isinstance(pat, ast.Call) and any("ASCII" in norm(a) or norm(a) in ("re.A",) for a in list(pat.args[1:]) + [k.value for k in pat.keywords])
                okp = isinstance(pat, ast.Call) and pat.args and isinstance(pat.args[0], ast.Constant) \
                    and (pat.args[0].value in (r"[^A-Za-z0-9_]", r"[^a-zA-Z0-9_]") or (pat.args[0].value in (r"\W", r"[^\w]") and ascii_flag))
                if okp and _first_letter_safe(fn, v.left):
                    if not is_ret:
                        accepted_names.add(holder.targets[0].id)
                    continue
            # first_letter + "".join(c for c in ... if (<identifier start> + c).isidentifier())
            if isinstance(right, ast.Call) and isinstance(right.func, ast.Attribute) and right.func.attr == "join" \
                    and isinstance(right.func.value, ast.Constant) and right.func.value.value == "" and right.args \
                    and isinstance(right.args[0], (ast.GeneratorExp, ast.ListComp)) and len(right.args[0].generators) == 1:
                g = right.args[0].generators[0]
                cv = norm(g.target)
                keeps_char = norm(right.args[0].elt) == cv
                tests = [norm(t).replace("'", '"') for t in g.ifs]
                ident_test = any(t in (f'("_" + {cv}).isidentifier()', f'("a" + {cv}).isidentifier()') for t in tests)
                if keeps_char and ident_test and _first_letter_safe(fn, v.left):
                    if not is_ret:
                        accepted_names.add(holder.targets[0].id)
                    continue
        if is_ret:
            bad = holder
    # the parser NFKC-normalises identifiers: the sanitised name must be the name that will really be defined, otherwise the
    # namespace compares another string than the one that is bound (a converter named with a fullwidth letter shadows a helper)
    res.evaluated("sanitizer:nfkc", True)
    ntxt = norm(fn).replace("'", '"')
    if 'normalize("NFKC"' not in ntxt:
        res.add(Finding("C19", "SANITIZER.not-nfkc", m.rel, "BuiltinNameSanitizer.sanitize", "no NFKC normalisation",
                        "the sanitizer hands out names that the parser will rewrite (NFKC): the collision tests of the namespace see "
                        "`c\uff4fercer`, the program defines `coercer` -- a user-chosen converter name captures the helper of that name",
                        fn.lineno))
    if bad is not None or not rets:
        res.add(Finding("C19", "SANITIZER.alphabet", m.rel, "BuiltinNameSanitizer.sanitize",
                        norm(bad.value) if bad is not None else "no return",
                        "sanitizer does not guarantee a valid identifier (first character forced to an ascii letter or '_', every "
                        "other character kept only if it may continue an identifier; the Unicode-aware \\w also matches '²', '①' "
                        "... which the parser rejects)", fn.lineno))


def _first_letter_safe(fn: ast.FunctionDef, left: ast.expr) -> bool:
    if not isinstance(left, ast.Name):
        return False
    for node in ast.walk(fn):
        if isinstance(node, ast.Assign) and any(isinstance(t, ast.Name) and t.id == left.id for t in node.targets):
            v = node.value
            if isinstance(v, ast.IfExp) and isinstance(v.orelse, ast.Constant) and v.orelse.value == "_":
                t = norm(v.test)
                if "ascii_letters" in t or "isalpha" in t and "isascii" in t:
                    return True
    return False


def ast_templater_structural(repo: Repo, res: CheckResult) -> None:
    """ast_substitute puts AST fragments (field accesses built from user-chosen attribute names and keys) into a code
    template. It must parse the FIXED template first and replace placeholder Name nodes in the tree: a textual replacement
    rewrites every occurrence of the placeholder text, including the ones inside an already substituted fragment (a source
    field called `__target_expr__` reads `data.data`), and re-parses user-derived text as code."""
    m = repo.mod("code_tools/ast_templater")
    fn = next((f for f in m.tree.body if isinstance(f, ast.FunctionDef) and f.name == "ast_substitute"), None)
    if fn is None:
        raise AnalysisError("anchor vanished: code_tools/ast_templater.ast_substitute")
    tpl = func_params(fn)[0]
    res.evaluated("templater:structural-substitution", True)
    problems = []
    for st in ast.walk(fn):
        tgts = st.targets if isinstance(st, ast.Assign) else [st.target] if isinstance(st, (ast.AugAssign, ast.AnnAssign)) else []
        if any(isinstance(t, ast.Name) and t.id == tpl for t in tgts):
            problems.append(f"`{norm(st)[:80]}` rewrites the template text")
    parses = [c for c in ast.walk(fn) if isinstance(c, ast.Call) and norm(c.func) in ("ast.parse", "parse")]
    if not parses:
        problems.append("the template is never parsed")
    for c in parses:
        if not (c.args and isinstance(c.args[0], ast.Name) and c.args[0].id == tpl):
            problems.append(f"`{norm(c)[:80]}` parses something else than the fixed template")
    for c in ast.walk(fn):
        if isinstance(c, ast.Call) and isinstance(c.func, ast.Attribute) and c.func.attr in ("replace", "format", "substitute", "format_map") \
                and any(isinstance(x, ast.Name) and x.id == tpl for x in ast.walk(c.func.value)):
            problems.append(f"`{norm(c)[:80]}` substitutes in the text")
        if isinstance(c, ast.Call) and norm(c.func) in ("ast.unparse", "unparse"):
            problems.append(f"`{norm(c)[:80]}` renders a fragment back to text")
    for pr in dict.fromkeys(problems):
        res.add(Finding("C19", "TEMPLATER.textual-substitution", m.rel, "ast_substitute", pr[:120],
                        f"{pr}: placeholders must be replaced as Name nodes of the parsed fixed template; textual replacement also hits the "
                        "placeholder text inside substituted fragments (a source attribute or key named like the placeholder silently "
                        "reads another member) and lets user-derived text be parsed as code", fn.lineno))


def captured_global_names(repo: Repo, res: CheckResult) -> None:
    """compile_closure_with_globals_capturing emits `name = <global name>` for every namespace constant inside the closure
    maker, where every namespace name and the closure name are LOCALS. The global name therefore has to differ from all of
    them (and from the other globals): with the fixed prefix alone, `foo` and `g_foo` in one namespace make `foo = g_foo`
    read the local `g_foo` -- UnboundLocalError or, in the other order, the wrong function without any error."""
    m = repo.mod("morphing/model/basic_gen")
    fn = m.functions.get("compile_closure_with_globals_capturing")
    if fn is None:
        raise AnalysisError("anchor vanished: basic_gen.compile_closure_with_globals_capturing")
    ps = {a.arg for a in fn.args.args + fn.args.kwonlyargs}
    ns_param = "namespace" if "namespace" in ps else None
    cl_param = "closure_name" if "closure_name" in ps else None
    if ns_param is None or cl_param is None:
        raise AnalysisError("compile_closure_with_globals_capturing: parameters namespace / closure_name not found")
    res.evaluated("scope:captured-global-names", True)
    # the variable that names the global: key of the globals dict store
    gvars = {norm(st.targets[0].slice) for st in ast.walk(fn) if isinstance(st, ast.Assign) and isinstance(st.targets[0], ast.Subscript)
             and isinstance(st.targets[0].slice, ast.Name)}
    ok = False
    for w in ast.walk(fn):
        if isinstance(w, ast.While) and isinstance(w.test, ast.Compare) and len(w.test.ops) == 1 and isinstance(w.test.ops[0], ast.In) \
                and norm(w.test.left) in gvars:
            occ = norm(w.test.comparators[0])
            inits = [st.value for st in ast.walk(fn) if isinstance(st, ast.Assign) and any(norm(t) == occ for t in st.targets)]
            names = {x.id for v in inits for x in ast.walk(v) if isinstance(x, ast.Name)}
            grows = any(isinstance(c, ast.Call) and isinstance(c.func, ast.Attribute) and c.func.attr == "add" and norm(c.func.value) == occ
                        for c in ast.walk(fn))
            rebinds = any(isinstance(st, ast.Assign) and any(norm(t) in gvars for t in st.targets) for st in ast.walk(w))
            if ns_param in names and cl_param in names and grows and rebinds:
                ok = True
    if not ok:
        res.add(Finding("C19", "SCOPE.captured-global-collides", m.rel, "compile_closure_with_globals_capturing",
                        "global names are not made distinct from the namespace names and the closure name",
                        "the name under which a namespace constant is captured as a global is not checked against the names that are "
                        "locals of the closure maker (every namespace name, the closure name) and against the other globals: user-chosen "
                        "names that start with the prefix (functions `foo` and `g_foo` linked to one converter, a converter named "
                        "`g_coercer`) make the generated `name = g_name` read a local -- UnboundLocalError or the wrong function", fn.lineno))


# categories of names a generated program binds; a name admitted into one category must be refused by the admission tests of
# the categories it would capture (confirmed on the tree; `try_add_outer_constant` and `try_register_var` do not look at each
# other -- outer constants vs. local variables is an observation of DESIGN 8.6, not a rule)
NAMESPACE_MATRIX = {
    "try_add_constant": {"_occupied", "_variables", "_outer_constants", "NAME_TO_BUILTIN"},
    "try_add_outer_constant": {"_constants", "NAME_TO_BUILTIN"},
    "try_register_var": {"_occupied", "_constants", "_variables", "NAME_TO_BUILTIN"},
}


def namespace_exclusion(repo: Repo, res: CheckResult) -> None:
    """BuiltinCascadeNamespace decides which names the generators may bind. `all_constants` merges inner and outer constants
    into ONE mapping and the variables live in the same function scope, so a name admitted twice binds one of the two objects
    for both uses (a linked function named like a helper of the closure maker is replaced by the helper: the converter is
    generated and fails, or calls the wrong object). Each admission test must therefore refuse a name already present in the
    other categories. The tests are followed through helper methods of the class."""
    m = repo.mod("code_tools/cascade_namespace")
    ci = m.classes.get("BuiltinCascadeNamespace")
    if ci is None:
        raise AnalysisError("anchor vanished: BuiltinCascadeNamespace")

    def tested(fn: ast.FunctionDef, pname: str, depth: int = 0) -> set:
        out = set()
        for c in ast.walk(fn):
            if isinstance(c, ast.Compare) and len(c.ops) == 1 and isinstance(c.ops[0], (ast.In, ast.NotIn)) and norm(c.left) == pname:
                r = c.comparators[0]
                out.add(r.attr if isinstance(r, ast.Attribute) and norm(r.value) == "self" else norm(r))
            if depth < 3 and isinstance(c, ast.Call) and isinstance(c.func, ast.Attribute) and norm(c.func.value) == "self" \
                    and c.func.attr in ci.methods and c.func.attr not in NAMESPACE_MATRIX \
                    and any(norm(a) == pname for a in c.args):
                callee = ci.methods[c.func.attr]
                cps = [a for a in func_params(callee) if a != "self"]
                idx = [norm(a) for a in c.args].index(pname)
                if idx < len(cps):
                    out |= tested(callee, cps[idx], depth + 1)
        return out
    declared = {norm(t) for fn_ in ci.methods.values() for a in ast.walk(fn_) if isinstance(a, (ast.Assign, ast.AnnAssign))
                for t in (a.targets if isinstance(a, ast.Assign) else [a.target])}
    for cat in {c for need in NAMESPACE_MATRIX.values() for c in need if c.startswith("_")}:
        if f"self.{cat}" not in declared:
            raise AnalysisError(f"BuiltinCascadeNamespace no longer keeps `{cat}`: the category matrix has to be re-confirmed")
    for mname, need in NAMESPACE_MATRIX.items():
        fn = ci.methods.get(mname)
        if fn is None:
            raise AnalysisError(f"anchor vanished: BuiltinCascadeNamespace.{mname}")
        pname = [a for a in func_params(fn) if a != "self"][0]
        res.evaluated(f"namespace:{mname}", True)
        # the refusal: the tests guard a `return False`
        got = tested(fn, pname)
        missing = sorted(need - got)
        if missing:
            res.add(Finding("C19", "NAMESPACE.admission-ignores-category", m.rel, f"BuiltinCascadeNamespace.{mname}", ", ".join(missing),
                            f"`{mname}` admits a name without looking at {missing}: a user-derived name (a linked function, a destination "
                            "class, a field id) equal to a name of that category is not mangled, the two objects share one binding "
                            "in the generated program and one of them is used for both", fn.lineno))
    res.count("NAMESPACE.admission-tests", len(NAMESPACE_MATRIX), 3)


def mapped_keys_are_plain(repo: Repo, res: CheckResult) -> None:
    """The taint analysis treats `{key!r}` as a literal because repr() of a str / int IS a literal. That holds for the exact
    types only: a member of `class K(str, Enum)` or of an IntEnum, or any subclass with its own __repr__, renders as something
    else (`<K.RED: 'red'>`). Every key the user supplies enters through resolve_map_result; there each one has to pass through
    a conversion to the plain type before it is put into a key path."""
    m = repo.mod("morphing/name_layout/name_mapping")
    fn = m.functions.get("resolve_map_result")
    if fn is None:
        raise AnalysisError("anchor vanished: resolve_map_result")
    ps = func_params(fn)
    user = ps[1] if len(ps) > 1 else "map_result"
    res.evaluated("keys:plain-type-at-entry", True)
    raw = []
    for r in [x for x in ast.walk(fn) if isinstance(x, ast.Return) and x.value is not None]:
        v = r.value
        elts: List[ast.expr] = []
        if isinstance(v, ast.Tuple):
            elts = list(v.elts)
        elif isinstance(v, ast.Call) and norm(v.func) == "tuple" and v.args and isinstance(v.args[0], (ast.GeneratorExp, ast.ListComp)):
            comp = v.args[0]
            derived = {t.id for g in comp.generators if any(isinstance(x, ast.Name) and x.id == user for x in ast.walk(g.iter))
                       for t in ast.walk(g.target) if isinstance(t, ast.Name)}
            e = comp.elt
            arms = [e.body, e.orelse] if isinstance(e, ast.IfExp) else [e]
            raw += [a for a in arms if isinstance(a, ast.Name) and a.id in derived]
            continue
        raw += [e for e in elts if isinstance(e, ast.Name) and e.id == user]
    for e in raw:
        res.add(Finding("C19", "KEY.subclass-reaches-repr", m.rel, "resolve_map_result", norm(e),
                        f"the user's key `{norm(e)}` goes into the key path as it is: the generators render keys with repr(), and a key of a "
                        "str / int SUBCLASS (a member of `class K(str, Enum)`, an IntEnum) has another repr -- the generated loader "
                        "and dumper do not compile, or contain text chosen by the key's __repr__", e.lineno))
    # the converter the keys pass through must produce exact types
    conv = [c for c in ast.walk(fn) if isinstance(c, ast.Call) and isinstance(c.func, ast.Name) and c.func.id in m.functions
            and c.func.id != "resolve_map_result"]
    for name in sorted({c.func.id for c in conv}):
        cf = m.functions[name]
        for r in [x for x in ast.walk(cf) if isinstance(x, ast.Return) and x.value is not None]:
            p0 = func_params(cf)[0]
            if isinstance(r.value, ast.Name) and r.value.id == p0:
                guard = _dominating_exact_type_test(m, r, p0)
                if not guard:
                    res.add(Finding("C19", "KEY.subclass-reaches-repr", m.rel, name, norm(r),
                                    f"`{name}` hands the key back unchanged on a path that has not established its exact type", r.lineno))


def _dominating_exact_type_test(m, node: ast.AST, var: str) -> bool:
    p = m.parent(node)
    while p is not None and not isinstance(p, ast.FunctionDef):
        if isinstance(p, ast.If) and node in ast.walk(p) and any(node is x or node in ast.walk(x) for x in p.body):
            t = norm(p.test).replace(" ", "")
            if t.startswith(f"type({var})in(") or t.startswith(f"type({var})is"):
                return True
        p = m.parent(p)
    return False


def registrations_are_mangled(repo: Repo, res: CheckResult) -> None:
    """The converter generators put user-derived names (a linked function's __name__, a destination class) and their own
    numbered ids (constant_0, func_0, accessor_0) into ONE namespace. A user function may be CALLED constant_0. The only
    collision-free way in is the mangling loop (try_add_constant, then a numeric suffix until a free name is found); the
    unconditional add_constant raises KeyError on the first collision -- the converter cannot be generated because of a name."""
    n = 0
    for short in ("conversion/broaching/code_generator", "conversion/converter_provider", "conversion/model_coercer_provider"):
        try:
            m = repo.mod(short)
        except AnalysisError:
            continue
        for fn in [f for f in ast.walk(m.tree) if isinstance(f, ast.FunctionDef)]:
            for c in [x for x in walk_no_nested(fn) if isinstance(x, ast.Call) and isinstance(x.func, ast.Attribute)]:
                if c.func.attr not in ("add_constant", "register_var", "add_outer_constant"):
                    continue
                if "namespace" not in norm(c.func.value).lower():
                    continue
                n += 1
                res.evaluated(f"mangled:{m.rel}:{m.qualname(fn)}:{c.lineno}", True)
                # a name that is a fixed literal of the generator itself is registered first, before any user name: fine
                arg0 = c.args[0] if c.args else None
                if isinstance(arg0, ast.Constant):
                    continue
                res.add(Finding("C19", "SCOPE.unmangled-registration", m.rel, m.qualname(fn), norm(c)[:100],
                                f"`{norm(c)[:80]}` registers a computed name unconditionally: when a user-derived name already holds it (a "
                                "linked function called `constant_0`) the call raises KeyError('... is duplicated') and no converter is "
                                "generated; names enter the namespace through the try-and-suffix loop", c.lineno))
    res.count("SCOPE.unconditional-registrations", n, 0)


def keyword_arguments_survive_the_parser(repo: Repo, res: CheckResult) -> None:
    """A constructor parameter name is data too (a pydantic alias is any string that is an identifier). Written as `name=value`
    it goes through the parser, which refuses keywords AND rewrites identifiers to NFKC: `\ufb01eld=...` arrives as `field=...`.
    The guard that chooses between `name=value` and `**{'name': value}` therefore has to establish both properties."""
    sites = (("morphing/model/loader_gen", "BuiltinModelLoaderGen", "_gen_constructor_call"),
             ("conversion/broaching/code_generator", "BuiltinBroachingCodeGenerator", "_gen_function_call"))
    for short, cname, mname in sites:
        m = repo.mod(short)
        ci = m.classes.get(cname)
        fn = ci.methods.get(mname) if ci is not None else None
        if fn is None:
            raise AnalysisError(f"anchor vanished: {cname}.{mname}")
        res.evaluated(f"kwarg-name:{cname}.{mname}", True)
        guards = []
        for cond in [x for x in ast.walk(fn) if isinstance(x, ast.If)]:
            core = cond.test.operand if isinstance(cond.test, ast.UnaryOp) and isinstance(cond.test.op, ast.Not) else cond.test
            if isinstance(core, ast.Call) and isinstance(core.func, ast.Name) and len(core.args) == 1 and (
                    core.func.id == "iskeyword" or "keyword" in core.func.id.lower()):
                guards.append((cond, core))
        if not guards:
            raise AnalysisError(f"{cname}.{mname}: the guard of keyword arguments was not found")
        for cond, core in guards:
            ok = False
            if core.func.id != "iskeyword":
                r = repo.resolve_global(m, core.func.id)
                f2 = getattr(r, "node", None) if getattr(r, "kind", None) == "func" else None
                if isinstance(f2, ast.FunctionDef):
                    txt = norm(f2).replace("'", '"')
                    ok = "iskeyword(" in txt and 'normalize("NFKC"' in txt
            if not ok:
                res.add(Finding("C19", "KWARG.name-rewritten-by-parser", m.rel, f"{cname}.{mname}", norm(cond.test)[:80],
                                f"`{norm(cond.test)[:60]}` decides whether `{norm(core.args[0])}` is written as `name=value`; it does not "
                                "establish that the name is in NFKC normal form: the parser rewrites `\ufb01eld=` to `field=`, the "
                                "constructor receives another keyword (a pydantic alias) and the value is lost or refused", cond.lineno))
