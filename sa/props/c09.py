"""C09 — recipe resolution is first-match in recipe order; chaining composes exactly once.

Clauses decided (structural necessary conditions, DESIGN.md 3/C09):
 (1) flush/reset pairing of the router builder's accumulator (typestate),
 (2) both routers scan from the offset and hand back offset+1; the bus feeds it back, continues only on a
     non-terminal CannotProvide, returns the first response,
 (3) chaining handler calls the wrapped handler and provide_from_next exactly once on every path; FIRST/LAST direction,
 (4) extend() prepends; full recipe = head, instance, class MRO, tail,
 (5) a retort in a recipe answers from its own recipe under an always-true checker.
"""
from __future__ import annotations

import ast
import re
from typing import Dict, List, Optional, Set, Tuple

from ..core import AnalysisError, CheckResult, ClassInfo, Finding, ModuleInfo, Repo, norm, walk_no_nested, func_params
from ..paths import calls_in, enumerate_paths, step_nodes

LEVEL = "other"
EXHAUSTIVE = True
EXPLANATION = (
    "Path rules over the router builder, the two routers, the request bus, the chaining wrapper and the recipe "
    "concatenations: every path of every ExactOriginCombiner method that hands the accumulated combo (or its content) "
    "to the result rebinds the accumulator to a fresh dict afterwards; route_handler loops start at the search offset "
    "and return index+1; _send_inner threads that offset, continues only on non-terminal CannotProvide and returns the "
    "first response; chaining_handler calls handler and provide_from_next exactly once per path and composes in the "
    "documented direction (symbolic evaluation of _make_chain); extend prepends; full recipe order head/instance/"
    "class/tail; retort-as-provider delegates to its own recipe."
)
RULE = "one evaluation = one enumerated path or one structural obligation; non-trivial = path touches the tracked state"
ASSUMPTIONS = ["predicate semantics is C10", "equivalence of the optimised router with the linear scan for every "
               "arrangement is not decided (execution-level); the typestate rule is a necessary condition"]


def run(repo: Repo, tier: str, res: CheckResult, seed: int = 0) -> None:
    late_binding_handlers(repo, res)
    terminal_flag_kept(repo, res)
    facade_functions_forward_the_recipe(repo, res)
    retort_handler_overrides(repo, res)
    facade_cache_vs_recipe(repo, res)
    combiner_typestate(repo, res)
    routers(repo, res)
    send_inner(repo, res)
    chaining(repo, res)
    recipe_order(repo, res)
    retort_as_provider(repo, res)
    one_shot_recipes(repo, res)
    recursion_by_whole_location(repo, res)
    routing_decisions_not_memoised(repo, res)
    delegation_restarts_the_search_at_the_same_location(repo, res)
    res.assumptions = list(ASSUMPTIONS)


# ------------------------------------------------------------------------------------------ (1) typestate
def _is_self_attr(n: ast.AST, attr: str) -> bool:
    return isinstance(n, ast.Attribute) and n.attr == attr and isinstance(n.value, ast.Name) and n.value.id == "self"


def _fresh_dict(e: ast.expr) -> bool:
    if isinstance(e, ast.Dict) and not e.keys:
        return True
    if isinstance(e, ast.Call) and isinstance(e.func, ast.Name) and e.func.id in ("dict", "OrderedDict") and not e.args \
            and not e.keywords:
        return True
    return False


def combiner_typestate(repo: Repo, res: CheckResult) -> None:
    m = repo.mod("retort/routers")
    ci = m.classes.get("ExactOriginCombiner")
    if ci is None:
        raise AnalysisError("anchor vanished: ExactOriginCombiner")
    # accumulator attributes: dict-valued attributes initialised in __init__
    init = ci.methods.get("__init__")
    accs: List[str] = []
    if init is not None:
        for n in ast.walk(init):
            if isinstance(n, (ast.Assign, ast.AnnAssign)):
                tgt = n.targets[0] if isinstance(n, ast.Assign) else n.target
                if isinstance(tgt, ast.Attribute) and isinstance(tgt.value, ast.Name) and tgt.value.id == "self" \
                        and n.value is not None and _fresh_dict(n.value):
                    accs.append(tgt.attr)
    if not accs:
        raise AnalysisError("anchor vanished: accumulator attribute of ExactOriginCombiner")
    n_paths = 0
    n_emitting = 0
    for acc in accs:
        for mname, fn in ci.methods.items():
            if mname == "__init__":
                continue
            for path in enumerate_paths(fn.body):
                n_paths += 1
                if path[-1][0] not in ("return", "fall"):
                    continue
                emit_idx = None
                emit_node = None
                reset_idx = None
                tainted: Set[str] = set()
                for i, step in enumerate(path):
                    if step[0] not in ("stmt",):
                        continue
                    st = step[1]
                    # reset?
                    if isinstance(st, ast.Assign) and any(_is_self_attr(t, acc) for t in st.targets):
                        if _fresh_dict(st.value):
                            reset_idx = i
                        continue
                    # store into the accumulator is not an emission
                    if isinstance(st, ast.Assign) and any(isinstance(t, ast.Subscript) and _is_self_attr(t.value, acc)
                                                          for t in st.targets):
                        continue
                    reads = [n for n in ast.walk(st) if _is_self_attr(n, acc) and isinstance(n.ctx, ast.Load)]
                    uses_tainted = any(isinstance(n, ast.Name) and n.id in tainted for n in ast.walk(st))
                    if isinstance(st, ast.Assign) and reads:
                        # alias / content extraction: taint the targets
                        for t in st.targets:
                            for nn in ast.walk(t):
                                if isinstance(nn, ast.Name):
                                    tainted.add(nn.id)
                        continue
                    if reads or uses_tainted:
                        # the accumulator (or what was taken out of it) flows into a call / the result
                        if isinstance(st, (ast.Expr, ast.Return, ast.AugAssign)) or isinstance(st, ast.Assign):
                            emit_idx, emit_node = i, st
                if emit_idx is None:
                    res.evaluated(f"typestate:{mname}:path{n_paths}", False)
                    continue
                n_emitting += 1
                res.evaluated(f"typestate:{mname}:{norm(emit_node)[:50]}:{n_paths}", True)
                if reset_idx is None or reset_idx < emit_idx:
                    conds = [("not " if not s[2] else "") + norm(s[1]) for s in path[:emit_idx] if s[0] == "test"]
                    res.add(Finding(
                        "C09", "TYPESTATE.flush-without-reset", m.rel, f"ExactOriginCombiner.{mname}",
                        f"{norm(emit_node)} [path: {' and '.join(conds)}]",
                        f"on the path where {' and '.join(conds) or 'always'} the accumulated `self.{acc}` (or its "
                        f"content) is handed to the result by `{norm(emit_node)}` but `self.{acc}` is not rebound to a "
                        f"fresh dict before the method returns: the same handler is emitted again by the next flush "
                        f"(a provider is consulted twice for one request)",
                        emit_node.lineno,
                    ))
    # linearity: every pair handed to register_item reaches the output exactly once -- either through the flush
    # (argument of _stop_combo, which appends it once) or by being stored into the accumulator
    reg = ci.methods.get("register_item")
    stop = ci.methods.get("_stop_combo")
    if reg is None or stop is None:
        raise AnalysisError("anchor vanished: ExactOriginCombiner.register_item/_stop_combo")
    pair = reg.args.args[1].arg
    unpacked: Set[str] = set()
    for node in ast.walk(reg):
        if isinstance(node, ast.Assign) and norm(node.value) == pair and isinstance(node.targets[0], ast.Tuple):
            unpacked |= {norm(e) for e in node.targets[0].elts[1:]}
    for path in enumerate_paths(reg.body):
        if path[-1][0] not in ("return", "fall"):
            continue
        uses = 0
        for step in path:
            if step[0] != "stmt":
                continue
            st = step[1]
            for c in ast.walk(st):
                if isinstance(c, ast.Call) and norm(c.func) == "self._stop_combo" and c.args and norm(c.args[0]) == pair:
                    uses += 1
            if isinstance(st, ast.Assign) and any(isinstance(t, ast.Subscript) and any(_is_self_attr(t.value, a) for a in accs)
                                                  for t in st.targets) and (norm(st.value) in unpacked or norm(st.value) == pair):
                uses += 1
        conds = [("not " if not s[2] else "") + norm(s[1]) for s in path if s[0] == "test"]
        res.evaluated(f"linearity:register_item:{' and '.join(conds)}", True)
        if uses != 1:
            res.add(Finding("C09", "TYPESTATE.item-not-registered-once", m.rel, "ExactOriginCombiner.register_item",
                            f"{uses} registrations [path: {' and '.join(conds)}]",
                            f"on the path where {' and '.join(conds) or 'always'} the (checker, handler) pair reaches the "
                            f"router items {uses} times (flushed as a standalone item and/or stored into the accumulator): a "
                            "provider is consulted twice for one request or never", reg.lineno))
    sp = stop.args.args[1].arg
    for path in enumerate_paths(stop.body):
        if path[-1][0] not in ("return", "fall"):
            continue
        appends = sum(1 for s in path if s[0] == "stmt" for c in ast.walk(s[1]) if isinstance(c, ast.Call)
                      and isinstance(c.func, ast.Attribute) and c.func.attr in ("append", "insert") and c.args
                      and norm(c.args[-1]) == sp)
        not_none = any(s[0] == "test" and norm(s[1]) == f"{sp} is not None" and s[2] for s in path) or \
            any(s[0] == "test" and norm(s[1]) == f"{sp} is None" and not s[2] for s in path)
        is_none = any(s[0] == "test" and norm(s[1]) == f"{sp} is not None" and not s[2] for s in path) or \
            any(s[0] == "test" and norm(s[1]) == f"{sp} is None" and s[2] for s in path)
        res.evaluated(f"linearity:_stop_combo:{appends}:{not_none}:{is_none}", True)
        if (not_none and appends != 1) or (is_none and appends != 0) or (not not_none and not is_none and appends != 1):
            res.add(Finding("C09", "TYPESTATE.item-not-registered-once", m.rel, "ExactOriginCombiner._stop_combo",
                            f"{appends} appends of `{sp}`", "the item that stops the combo must be appended to the result "
                            "exactly once (and never when it is None)", stop.lineno))
    # driver: every input pair is registered once, finalize once after the loop, results concatenated in order
    drv = m.functions.get("create_router_for_located_request")
    if drv is None:
        raise AnalysisError("anchor vanished: create_router_for_located_request")
    res.evaluated("linearity:driver", True)
    loops = [l for l in drv.body if isinstance(l, ast.For)]
    ok_drv = False
    if len(loops) == 1:
        lv = norm(loops[0].target)
        regs = [c for c in ast.walk(loops[0]) if isinstance(c, ast.Call) and isinstance(c.func, ast.Attribute)
                and c.func.attr == "register_item"]
        fins = [c for c in ast.walk(drv) if isinstance(c, ast.Call) and isinstance(c.func, ast.Attribute)
                and c.func.attr == "finalize"]
        fins_in_loop = [c for c in ast.walk(loops[0]) if isinstance(c, ast.Call) and isinstance(c.func, ast.Attribute)
                        and c.func.attr == "finalize"]
        ok_drv = len(regs) == 1 and norm(regs[0].args[0]) == lv and len(fins) == 1 and not fins_in_loop \
            and fins[0].lineno > loops[0].lineno \
            and all(isinstance(m.parent(c), ast.Call) and norm(m.parent(c).func).endswith(".extend") for c in regs + fins)
    if not ok_drv:
        res.add(Finding("C09", "TYPESTATE.driver", m.rel, "create_router_for_located_request", norm(drv)[:160],
                        "the router builder must register every (checker, handler) pair once, in recipe order, and flush "
                        "the accumulator once after the last pair", drv.lineno))
    res.count("TYPESTATE.combiner-paths", n_paths, 8)
    res.count("TYPESTATE.emitting-paths", n_emitting, 2)
    res.sample({"rule": "flush/reset pairing", "class": "ExactOriginCombiner", "accumulators": accs,
                "paths": n_paths, "emitting": n_emitting})


# ------------------------------------------------------------------------------------------ (2) routers
def _route_handler_ok(repo: Repo, m: ModuleInfo, ci: ClassInfo, fn: ast.FunctionDef, res: CheckResult) -> None:
    qual = f"{ci.name}.{fn.name}"
    params = [a.arg for a in fn.args.args]
    if len(params) < 4:
        raise AnalysisError(f"anchor changed: {qual} signature")
    off = params[3]
    loops = [n for n in walk_no_nested(fn) if isinstance(n, ast.For)]
    if len(loops) != 1:
        raise AnalysisError(f"{qual}: expected one scanning loop, found {len(loops)}")
    loop = loops[0]
    res.evaluated(f"router:{qual}:loop", True)
    idx_var: Optional[str] = None
    it = loop.iter
    ok_iter = False
    # enumerate(islice(X, off, None), start=off) | enumerate(X[off:], start=off) | range(off, len(X))
    if isinstance(it, ast.Call) and norm(it.func) == "enumerate" and it.args:
        start = next((k.value for k in it.keywords if k.arg == "start"), it.args[1] if len(it.args) > 1 else None)
        inner = it.args[0]
        from_off = False
        if isinstance(inner, ast.Call) and norm(inner.func) in ("islice", "itertools.islice") and len(inner.args) >= 2:
            from_off = norm(inner.args[1]) == off and (len(inner.args) < 3 or norm(inner.args[2]) == "None")
        elif isinstance(inner, ast.Subscript) and isinstance(inner.slice, ast.Slice):
            from_off = inner.slice.lower is not None and norm(inner.slice.lower) == off and inner.slice.upper is None
        ok_iter = from_off and start is not None and norm(start) == off
        if isinstance(loop.target, ast.Tuple) and isinstance(loop.target.elts[0], ast.Name):
            idx_var = loop.target.elts[0].id
    elif isinstance(it, ast.Call) and norm(it.func) == "range" and len(it.args) == 2 and norm(it.args[0]) == off:
        ok_iter = True
        if isinstance(loop.target, ast.Name):
            idx_var = loop.target.id
    if not ok_iter or idx_var is None:
        res.add(Finding("C09", "ROUTER.scan-from-offset", m.rel, qual, norm(it),
                        f"the routing loop does not scan the items from `{off}` with indices starting at `{off}`: "
                        "providers before the running one are consulted again or indices are shifted", loop.lineno))
        return
    rets = [n for n in walk_no_nested(loop) if isinstance(n, ast.Return)]
    if not rets:
        raise AnalysisError(f"{qual}: no return inside the scanning loop")
    for r in rets:
        res.evaluated(f"router:{qual}:return:{norm(r)}", True)
        v = r.value
        good = isinstance(v, ast.Tuple) and len(v.elts) == 2 and norm(v.elts[1]) in (f"{idx_var} + 1", f"1 + {idx_var}")
        if not good:
            res.add(Finding("C09", "ROUTER.next-offset", m.rel, qual, norm(r),
                            f"route_handler must return the position after the matched item (`{idx_var} + 1`); "
                            "otherwise provide_from_next re-enters the same provider or skips one", r.lineno))
    # table lookup key: a type hint that cannot be normalised matches no exact-origin checker (ExactOriginLSC returns False),
    # so its placeholder key must be unequal to every possible table key -- only a fresh object() is
    tries = [t for t in fn.body if isinstance(t, ast.Try) and any("normalize_type" in norm(b) for b in t.body)]
    for t in tries:
        for h in t.handlers:
            for a in h.body:
                if isinstance(a, ast.Assign):
                    res.evaluated(f"router:{qual}:placeholder:{norm(a)}", True)
                    v = a.value
                    fresh = isinstance(v, ast.Call) and norm(v.func) == "object" and not v.args
                    if isinstance(v, ast.Name):
                        g = next((st.value for st in m.tree.body if isinstance(st, ast.Assign) and norm(st.targets[0]) == v.id), None)
                        fresh = isinstance(g, ast.Call) and norm(g.func) == "object" and not g.args
                    if not fresh:
                        res.add(Finding("C09", "ROUTER.placeholder-is-a-key", m.rel, qual, norm(a),
                                        f"for a type hint that cannot be normalised the table key falls back to `{norm(v)}`, which "
                                        "is a legal origin (a provider registered for it sits in the grouped table): the grouped "
                                        "lookup answers although the linear scan (ExactOriginLSC -> False) would not, so a later "
                                        "matching provider is never asked", a.lineno))
    # the grouped table replaces a run of ExactOriginLSC checkers: its key must be computed from the location exactly as the
    # checker computes what it compares with its origin (sibling agreement), otherwise the table answers for locations the
    # linear scan would not match (a tagged hint served by the provider of the bare type) and later providers are skipped
    # the name the table is looked up with, and every assignment that is not the placeholder of an except handler
    looked = {norm(c.args[0]) for c in ast.walk(fn) if isinstance(c, ast.Call) and isinstance(c.func, ast.Attribute) and c.func.attr == "get"
              and len(c.args) == 1 and isinstance(c.args[0], ast.Name)}
    in_handlers = {id(a) for hd in ast.walk(fn) if isinstance(hd, ast.ExceptHandler) for st in hd.body for a in ast.walk(st)}
    key_assigns = [a for a in ast.walk(fn) if isinstance(a, ast.Assign) and len(a.targets) == 1 and norm(a.targets[0]) in looked
                   and id(a) not in in_handlers]
    if looked and not key_assigns:
        raise AnalysisError(f"{qual}: the key of the grouped table is not assigned in the method")
    for keys in ([key_assigns] if key_assigns else []):
        lsc = repo.mod("provider/loc_stack_filtering").classes.get("ExactOriginLSC")
        chk = lsc.methods.get("_check_location") if lsc is not None else None
        if chk is None:
            raise AnalysisError("anchor vanished: ExactOriginLSC._check_location")
        locp = func_params(chk)[2] if len(func_params(chk)) > 2 else "loc"
        # the checker: `norm = normalize_type(loc.type)` ... `return norm.origin == self.origin`
        ch_assign = {norm(a.targets[0]): a.value for a in ast.walk(chk) if isinstance(a, ast.Assign) and len(a.targets) == 1}
        ch_ret = [r for r in ast.walk(chk) if isinstance(r, ast.Return) and isinstance(r.value, ast.Compare)]
        if len(ch_ret) != 1:
            raise AnalysisError("ExactOriginLSC._check_location: expected one comparing return")
        cmp_ = ch_ret[0].value
        side = cmp_.left if "self." in norm(cmp_.comparators[0]) else cmp_.comparators[0]

        def inline(e: ast.expr, table) -> str:
            txt = norm(e)
            for _ in range(3):
                for k, v in table.items():
                    txt = re.sub(rf"\b{re.escape(k)}\b", norm(v), txt)
            return txt
        want = inline(side, ch_assign).replace(f"{locp}.type", "<TYPE>")
        for a in keys:
            got = norm(a.value).replace("request.last_loc.type", "<TYPE>")
            res.evaluated(f"router:{qual}:table-key", True)
            if got != want:
                res.add(Finding("C09", "ROUTER.table-key-differs-from-checker", m.rel, qual, norm(a)[:100],
                                f"the grouped table is looked up with `{got}` while ExactOriginLSC, the checker the table stands for, "
                                f"compares `{want}`: the two disagree on some locations (a tagged hint such as Annotated[int, ...]), "
                                "there the table hands the request to a provider the linear scan would have passed over, and the "
                                "providers after it that truly match are never asked", a.lineno))
    # after the loop: StopIteration
    after = fn.body[fn.body.index(loop) + 1:] if loop in fn.body else []
    if not any(isinstance(s, ast.Raise) and "StopIteration" in norm(s) for s in after):
        res.add(Finding("C09", "ROUTER.exhausted", m.rel, qual, "post-loop", "route_handler must raise StopIteration "
                        "when no item matches", fn.lineno))


def routers(repo: Repo, res: CheckResult) -> None:
    m = repo.mod("retort/routers")
    n = 0
    for ci in m.classes.values():
        if repo.is_subclass(ci, "RequestRouter") and "route_handler" in ci.methods:
            _route_handler_ok(repo, m, ci, ci.methods["route_handler"], res)
            n += 1
            # get_max_offset = len(items)
    res.count("ROUTER.route_handler-implementations", n, 2)
    # LocatedRequestRouter: tuple item -> checker decides; table item -> .get(origin) / None test
    lr = m.classes.get("LocatedRequestRouter")
    if lr is None:
        raise AnalysisError("anchor vanished: LocatedRequestRouter")


# ------------------------------------------------------------------------------------------ (2b) bus
def send_inner(repo: Repo, res: CheckResult) -> None:
    m = repo.mod("retort/request_bus")
    ci = m.classes.get("BasicRequestBus")
    if ci is None or "_send_inner" not in ci.methods:
        raise AnalysisError("anchor vanished: BasicRequestBus._send_inner")
    fn = ci.methods["_send_inner"]
    qual = "BasicRequestBus._send_inner"
    params = [a.arg for a in fn.args.args]
    # the routing call
    route_calls = [c for c in calls_in(fn) if isinstance(c.func, ast.Attribute) and c.func.attr == "route_handler"]
    if len(route_calls) != 1:
        raise AnalysisError(f"{qual}: expected one route_handler call")
    rc = route_calls[0]
    res.evaluated("bus:offset-threading", True)
    assign = m.parent(rc)
    off_in = norm(rc.args[2]) if len(rc.args) >= 3 else None
    off_out = None
    handler_var = None
    if isinstance(assign, ast.Assign) and isinstance(assign.targets[0], ast.Tuple) and len(assign.targets[0].elts) == 2:
        handler_var = norm(assign.targets[0].elts[0])
        off_out = norm(assign.targets[0].elts[1])
    if off_in is None or off_out is None or off_in != off_out:
        res.add(Finding("C09", "BUS.offset-threading", m.rel, qual, norm(assign) if assign is not None else norm(rc),
                        "the offset returned by route_handler must be the offset passed to the next route_handler call "
                        "(loop-carried variable); otherwise a declined provider is consulted again or providers are "
                        "skipped", rc.lineno))
        return
    # initial value of the offset variable: the search_offset parameter
    inits = [n for n in walk_no_nested(fn) if isinstance(n, ast.Assign) and norm(n.targets[0]) == off_out
             and n is not assign]
    if not inits or not all(norm(i.value) in params for i in inits):
        res.add(Finding("C09", "BUS.offset-init", m.rel, qual, "; ".join(norm(i) for i in inits) or "no initialisation",
                        "the scan must start at the search_offset parameter", fn.lineno))
    # mediator handed to the handler is created with the offset *after* the matched provider
    res.evaluated("bus:mediator-offset", True)
    handler_calls = [c for c in calls_in(fn) if handler_var and norm(c.func) == handler_var]
    if len(handler_calls) != 1:
        raise AnalysisError(f"{qual}: expected exactly one call of the routed handler")
    hc = handler_calls[0]
    med_var = norm(hc.args[0]) if hc.args else None
    med_assigns = [n for n in walk_no_nested(fn) if isinstance(n, ast.Assign) and norm(n.targets[0]) == med_var
                   and n.lineno > rc.lineno and n.lineno < hc.lineno]
    good = med_assigns and isinstance(med_assigns[-1].value, ast.Call) and len(med_assigns[-1].value.args) == 2 \
        and norm(med_assigns[-1].value.args[1]) == off_out and "mediator_factory" in norm(med_assigns[-1].value.func)
    if not good:
        res.add(Finding("C09", "BUS.mediator-offset", m.rel, qual, norm(hc),
                        "the mediator given to the handler must carry the offset returned by route_handler, so that "
                        "provide_from_next continues after the running provider", hc.lineno))
    # CannotProvide handling around the handler call
    res.evaluated("bus:decline-handling", True)
    tr = m.parent(hc)
    while tr is not None and not isinstance(tr, ast.Try):
        tr = m.parent(tr)
    if tr is None:
        raise AnalysisError(f"{qual}: handler call is not inside try")
    hs = [h for h in tr.handlers if h.type is not None and "CannotProvide" in norm(h.type)]
    if not hs:
        res.add(Finding("C09", "BUS.decline", m.rel, qual, norm(hc), "a declining provider (CannotProvide) must let the "
                        "search continue", hc.lineno))
    else:
        h = hs[0]
        ok_term = False
        ok_cont = False
        for path in enumerate_paths(h.body):
            conds = [(norm(s[1]), s[2]) for s in path if s[0] == "test"]
            term = path[-1][0]
            is_terminal_path = any("is_terminal" in c and v for c, v in conds)
            not_terminal_path = any("is_terminal" in c and not v for c, v in conds)
            if is_terminal_path and term == "raise":
                ok_term = True
            if not_terminal_path and term in ("continue", "fall"):
                ok_cont = True
            if not_terminal_path and term in ("raise", "return", "break"):
                ok_cont = False
                res.add(Finding("C09", "BUS.decline", m.rel, qual, f"except CannotProvide: ... {term}",
                                "a non-terminal CannotProvide must continue the search with the next provider",
                                h.lineno))
            if is_terminal_path and term != "raise":
                res.add(Finding("C09", "BUS.terminal", m.rel, qual, f"except CannotProvide: is_terminal ... {term}",
                                "a terminal CannotProvide must stop the search", h.lineno))
        if not (ok_term and ok_cont):
            res.add(Finding("C09", "BUS.decline", m.rel, qual, "except CannotProvide handler",
                            "handler must re-raise terminal errors and continue on non-terminal ones", h.lineno))
    # recursion resolver: the stub of a location is bound to the response of the COMPLETE search (offset 0) of the
    # top-level send; searches continued by provide_from_next (send_chaining) must not rebind it
    rb = m.classes.get("RecursiveRequestBus")
    if rb is None:
        raise AnalysisError("anchor vanished: RecursiveRequestBus")
    res.evaluated("bus:recursion-tracking", True)
    for c in ast.walk(m.tree):
        if isinstance(c, ast.Call) and isinstance(c.func, ast.Attribute) and c.func.attr == "track_response":
            fnc = m.enclosing_function(c)
            ok_track = fnc is not None and fnc.name == "send" and m.enclosing_class(c) is rb and len(c.args) == 2 \
                and isinstance(c.args[1], ast.Name)
            if ok_track:
                srcs = [a.value for a in ast.walk(fnc) if isinstance(a, ast.Assign) and norm(a.targets[0]) == c.args[1].id]
                ok_track = len(srcs) == 1 and norm(srcs[0]).replace(" ", "") in ("self._send_inner(request,0)",
                                                                                  "super()._send_inner(request,0)")
            if not ok_track:
                res.add(Finding("C09", "BUS.recursion-tracking", m.rel, m.qualname(c), norm(c),
                                "the recursion stub must be bound to the response of the complete search started by send() "
                                "(offset 0): bound from a continued search (provide_from_next) it skips the chaining "
                                "provider, so the user function of Chain.FIRST/LAST is applied zero times on recursion",
                                c.lineno))
    for name in ("_send_inner", "send_chaining"):
        if name in rb.methods:
            res.add(Finding("C09", "BUS.recursion-tracking", m.rel, f"RecursiveRequestBus.{name}", f"override of {name}",
                            f"RecursiveRequestBus must not override {name}: continued searches are not tracked", rb.methods[name].lineno))
    # the loop returns the first response
    res.evaluated("bus:first-response", True)
    loops = [n for n in walk_no_nested(fn) if isinstance(n, ast.While)]
    if len(loops) != 1 or not any(isinstance(s, ast.Return) for s in loops[0].body):
        res.add(Finding("C09", "BUS.first-response", m.rel, qual, "while loop", "the search loop must return the "
                        "response of the first provider that does not decline", fn.lineno))
    res.count("BUS.obligations", 4, 4)


# ------------------------------------------------------------------------------------------ (3) chaining
def chaining(repo: Repo, res: CheckResult) -> None:
    m = repo.mod("provider/provider_wrapper")
    ci = m.classes.get("ChainingProvider")
    if ci is None or "_wrap_handler" not in ci.methods or "_make_chain" not in ci.methods:
        raise AnalysisError("anchor vanished: ChainingProvider._wrap_handler/_make_chain")
    wrap = ci.methods["_wrap_handler"]
    inner = [n for n in wrap.body if isinstance(n, ast.FunctionDef)]
    if len(inner) != 1:
        raise AnalysisError("ChainingProvider._wrap_handler: expected one nested handler")
    h = inner[0]
    qual = f"ChainingProvider._wrap_handler.{h.name}"
    wrapped = wrap.args.args[1].arg if len(wrap.args.args) > 1 else "handler"
    med = h.args.args[0].arg
    # exactly once per path
    n_paths = 0
    cur_var = next_var = None
    for path in enumerate_paths(h.body):
        if path[-1][0] != "return":
            continue
        n_paths += 1
        nodes = step_nodes(path)
        n_handler = sum(1 for nd in nodes for c in calls_in(nd) if norm(c.func) == wrapped)
        n_next = sum(1 for nd in nodes for c in calls_in(nd) if norm(c.func) == f"{med}.provide_from_next")
        res.evaluated(f"chain:path{n_paths}", True)
        if n_handler != 1 or n_next != 1:
            conds = [("not " if not s[2] else "") + norm(s[1]) for s in path if s[0] == "test"]
            res.add(Finding("C09", "CHAIN.exactly-once", m.rel, qual,
                            f"handler x{n_handler}, provide_from_next x{n_next} [path: {' and '.join(conds)}]",
                            "on this path the wrapped handler / the next provider is not consulted exactly once",
                            h.lineno))
    res.count("CHAIN.paths", n_paths, 2)
    # a failure of either consulted party is the failure of the chaining provider: a handler around one of the two calls that
    # RETURNS an answer composes the processors zero times (the bare user function serves a request nothing else can serve)
    for tr in [t for t in walk_no_nested(h) if isinstance(t, ast.Try)]:
        guarded = [c for st in tr.body for c in ast.walk(st) if isinstance(c, ast.Call)
                   and norm(c.func) in (wrapped, f"{med}.provide_from_next")]
        if not guarded:
            continue
        for hd in tr.handlers:
            rets_h = [r for st in hd.body for r in ast.walk(st) if isinstance(r, ast.Return)]
            if rets_h:
                res.add(Finding("C09", "CHAIN.failure-answered-alone", m.rel, qual, norm(rets_h[0])[:100],
                                f"a failure of `{norm(guarded[0])}` is caught and answered with `{norm(rets_h[0])[:60]}`: when no later provider "
                                "can serve the request the chaining provider serves it alone (the two processors are composed zero "
                                "times), so a request nobody can process is answered by the bare user function instead of being "
                                "refused", rets_h[0].lineno))
    for n in walk_no_nested(h):
        if isinstance(n, ast.Assign) and isinstance(n.value, ast.Call):
            if norm(n.value.func) == wrapped:
                cur_var = norm(n.targets[0])
            elif norm(n.value.func) == f"{med}.provide_from_next":
                next_var = norm(n.targets[0])
    # direction: symbolic evaluation of _make_chain
    mk = ci.methods["_make_chain"]
    mk_params = [a.arg for a in mk.args.args][1:]
    closures = [n for n in mk.body if isinstance(n, ast.FunctionDef)]
    if len(closures) != 1 or len(mk_params) != 2:
        raise AnalysisError("ChainingProvider._make_chain: unexpected shape")
    cl = closures[0]
    rets = [n for n in ast.walk(cl) if isinstance(n, ast.Return)]
    dparam = cl.args.args[0].arg
    order: Optional[Tuple[str, str]] = None  # (inner, outer)
    if len(rets) == 1 and isinstance(rets[0].value, ast.Call) and len(rets[0].value.args) == 1 \
            and isinstance(rets[0].value.args[0], ast.Call) and norm(rets[0].value.args[0].args[0]) == dparam:
        outer = norm(rets[0].value.func)
        innerf = norm(rets[0].value.args[0].func)
        if {outer, innerf} == set(mk_params):
            order = (innerf, outer)
    if order is None:
        raise AnalysisError("ChainingProvider._make_chain: cannot evaluate composition order")
    inner_pos = mk_params.index(order[0])  # which positional argument is applied to the data first
    for node in walk_no_nested(h):
        if isinstance(node, ast.If) and isinstance(node.test, ast.Compare) and "Chain." in norm(node.test):
            which = norm(node.test.comparators[0]).split(".")[-1]
            r = next((s for s in node.body if isinstance(s, ast.Return)), None)
            if r is None or not isinstance(r.value, ast.Call) or len(r.value.args) != 2:
                raise AnalysisError("chaining_handler: unexpected branch shape")
            first_applied = norm(r.value.args[inner_pos])
            res.evaluated(f"chain:direction:{which}", True)
            want = cur_var if which == "FIRST" else next_var
            if first_applied != want:
                res.add(Finding("C09", "CHAIN.direction", m.rel, qual, norm(r),
                                f"under Chain.{which} the function applied to the raw data first must be "
                                f"{'the user function' if which == 'FIRST' else 'the next provider result'} "
                                f"(`{want}`), found `{first_applied}`", r.lineno))
    res.sample({"rule": "chain direction", "make_chain": f"{order[1]}({order[0]}(data))", "current": cur_var,
                "next": next_var})


# ------------------------------------------------------------------------------------------ (4) recipe order
def _concat_operands(e: ast.expr) -> Optional[List[ast.expr]]:
    """operands of a concatenation in order:  a + b | (*a, *b) | tuple(chain(a, b)) | [*a, *b]"""
    if isinstance(e, ast.BinOp) and isinstance(e.op, ast.Add):
        l = _concat_operands(e.left) or [e.left]
        r = _concat_operands(e.right) or [e.right]
        return l + r
    if isinstance(e, (ast.Tuple, ast.List)) and e.elts and all(isinstance(x, ast.Starred) for x in e.elts):
        return [x.value for x in e.elts]
    if isinstance(e, ast.Call) and norm(e.func) in ("tuple", "list") and len(e.args) == 1:
        return _concat_operands(e.args[0]) or None
    if isinstance(e, ast.Call) and norm(e.func) in ("chain", "itertools.chain"):
        return list(e.args)
    return None


def recipe_order(repo: Repo, res: CheckResult) -> None:
    n = 0
    for short in ("morphing/facade/retort", "conversion/facade/retort"):
        m = repo.mod(short)
        for ci in m.classes.values():
            if "extend" not in ci.methods:
                continue
            fn = ci.methods["extend"]
            qual = f"{ci.name}.extend"
            assigns = [a for a in ast.walk(fn) if isinstance(a, ast.Assign) and isinstance(a.targets[0], ast.Attribute)
                       and a.targets[0].attr == "_instance_recipe"]
            if len(assigns) != 1:
                raise AnalysisError(f"{qual}: expected one assignment to _instance_recipe")
            a = assigns[0]
            n += 1
            res.evaluated(f"order:{qual}", True)
            ops = _concat_operands(a.value)
            if ops is None or len(ops) != 2:
                raise AnalysisError(f"{qual}: cannot decompose `{norm(a.value)}`")
            first_new = any(isinstance(x, ast.Name) and x.id == "recipe" for x in ast.walk(ops[0]))
            second_old = "_instance_recipe" in norm(ops[1])
            if not (first_new and second_old):
                res.add(Finding("C09", "ORDER.extend-prepends", m.rel, qual, norm(a),
                                "extend() must put the new providers before the existing instance recipe (earlier "
                                "providers win)", a.lineno))
            # assignment targets the clone, returns the clone
            if not (isinstance(a.targets[0].value, ast.Name) and a.targets[0].value.id != "self"):
                res.add(Finding("C09", "ORDER.extend-clone", m.rel, qual, norm(a), "extend() must modify the clone, "
                                "not the retort itself", a.lineno))
    res.count("ORDER.extend-implementations", n, 2)
    # full recipe
    m = repo.mod("retort/base_retort")
    ci = m.classes.get("BaseRetort")
    if ci is None or "_calculate_derived" not in ci.methods:
        raise AnalysisError("anchor vanished: BaseRetort._calculate_derived")
    fn = ci.methods["_calculate_derived"]
    assigns = [a for a in ast.walk(fn) if isinstance(a, ast.Assign) and isinstance(a.targets[0], ast.Attribute)
               and a.targets[0].attr == "_full_recipe"]
    if len(assigns) != 1:
        raise AnalysisError("BaseRetort._calculate_derived: expected one assignment to _full_recipe")
    ops = _concat_operands(assigns[0].value)
    res.evaluated("order:full-recipe", True)
    want = ["_get_recipe_head", "_instance_recipe", "_full_class_recipe", "_get_recipe_tail"]
    got = [next((w for w in want if w in norm(o)), "?") for o in (ops or [])]
    if got != want:
        res.add(Finding("C09", "ORDER.full-recipe", m.rel, "BaseRetort._calculate_derived", norm(assigns[0].value),
                        f"full recipe must be head, instance recipe, class recipes (MRO), tail; found {got}",
                        assigns[0].lineno))
    # class recipes in MRO order
    isub = ci.methods.get("__init_subclass__")
    if isub is None:
        raise AnalysisError("anchor vanished: BaseRetort.__init_subclass__")
    res.evaluated("order:class-mro", True)
    comps = [c for c in ast.walk(isub) if isinstance(c, ast.comprehension)]
    ok = any(norm(c.iter) in ("cls.mro()", "cls.__mro__") for c in comps)
    if not ok:
        res.add(Finding("C09", "ORDER.class-mro", m.rel, "BaseRetort.__init_subclass__",
                        "; ".join(norm(c.iter) for c in comps),
                        "class recipes must be concatenated in MRO order (subclass providers first)", isub.lineno))
    # ... for EVERY subclass: the assignment is unconditional (a class without an own recipe still has to merge the recipes
    # of all its bases: `class App(TimeRetort, MoneyRetort): pass`)
    stores = [st for st in ast.walk(isub) if isinstance(st, ast.Assign)
              and any(norm(t) == "cls._full_class_recipe" for t in st.targets)]
    unconditional = len(stores) == 1 and any(st is stores[0] for st in isub.body) and not any(
        isinstance(x, ast.Return) and x.lineno < stores[0].lineno for x in ast.walk(isub))
    if not unconditional:
        res.add(Finding("C09", "ORDER.class-mro", m.rel, "BaseRetort.__init_subclass__", "class recipe not computed for every subclass",
                        "`cls._full_class_recipe` must be computed from the MRO for every subclass; when it is skipped (early return, "
                        "condition) a class that mixes several retort classes inherits the tuple of its FIRST base only and the "
                        "class recipes of the other bases are lost", isub.lineno))
    # recipe tail of the facade carries the scalar options
    res.count("ORDER.full-recipe-operands", len(ops or []), 4)


# ------------------------------------------------------------------------------------------ (5) retort as provider
def one_shot_recipes(repo: Repo, res: CheckResult) -> None:
    """`recipe: Iterable[Provider]` may be a generator: every function that receives it must materialise it (tuple/list)
    as its first and only use; any earlier use (validation loop, len, truth test) consumes it and the recipe becomes empty"""
    n = 0
    for ci in repo.all_classes():
        if not repo.is_subclass(ci, "Cloneable"):
            continue
        m = ci.module
        for mname, fn in ci.methods.items():
            args = fn.args.args + fn.args.kwonlyargs
            for a in args:
                if a.arg != "recipe" or a.annotation is None or "Iterable" not in norm(a.annotation):
                    continue
                uses = sorted([x for x in ast.walk(fn) if isinstance(x, ast.Name) and x.id == "recipe" and isinstance(x.ctx, ast.Load)],
                              key=lambda x: (x.lineno, x.col_offset))
                if not uses:
                    continue
                n += 1
                res.evaluated(f"one-shot:{ci.name}.{mname}", True)
                consuming = []
                for u in uses:
                    p = m.parent(u)
                    if isinstance(p, ast.Call) and norm(p.func) in ("tuple", "list") and p.args and p.args[0] is u:
                        consuming.append(("materialise", u))
                    elif isinstance(p, ast.Starred) and isinstance(m.parent(p), (ast.Tuple, ast.List)):
                        consuming.append(("materialise", u))      # (*recipe, ...) builds the tuple in one pass
                    elif isinstance(p, ast.keyword) or (isinstance(p, ast.Call) and u in p.args):
                        consuming.append(("passed", u))      # handed over unchanged to another receiver: that one materialises
                    elif isinstance(p, ast.IfExp) and p.test is u or isinstance(p, ast.If) and p.test is u:
                        consuming.append(("truth", u))       # truth test of an iterator is always True, of a list by length
                    else:
                        consuming.append(("other", u))
                kinds = [k for k, _ in consuming]
                real = [k for k in kinds if k in ("materialise", "passed", "other")]
                if len(real) > 1 and not (kinds.count("passed") == len(real)):
                    u = consuming[1][1]
                    res.add(Finding("C09", "ORDER.one-shot-recipe-used-twice", m.rel, f"{ci.name}.{mname}",
                                    "; ".join(f"{k}:{norm(m.parent(x))[:40]}" for k, x in consuming),
                                    "the `recipe` argument (Iterable[Provider], possibly a generator) is used more than once: the "
                                    "first use exhausts it and the instance recipe silently becomes empty, so the builtin "
                                    "providers answer instead of the user's", u.lineno))
                elif real and real[0] == "other":
                    u = consuming[0][1]
                    res.add(Finding("C09", "ORDER.one-shot-recipe-used-twice", m.rel, f"{ci.name}.{mname}", norm(m.parent(u))[:80],
                                    "the `recipe` argument is iterated without being materialised first", u.lineno))
    res.count("ORDER.recipe-receivers", n, 3)


def retort_as_provider(repo: Repo, res: CheckResult) -> None:
    m = repo.mod("retort/searching_retort")
    ci = m.classes.get("SearchingRetort")
    if ci is None or "get_request_handlers" not in ci.methods:
        raise AnalysisError("anchor vanished: SearchingRetort.get_request_handlers")
    fn = ci.methods["get_request_handlers"]
    res.evaluated("retort-as-provider", True)
    inner = [n for n in fn.body if isinstance(n, ast.FunctionDef)]
    ok_handler = False
    for h in inner:
        rets = [r for r in ast.walk(h) if isinstance(r, ast.Return) and r.value is not None]
        if rets and all(isinstance(r.value, ast.Call) and norm(r.value.func) == "self._provide_from_recipe"
                        and r.value.args and norm(r.value.args[0]) == h.args.args[1].arg for r in rets):
            ok_handler = True
    ok_checker = "AlwaysTrueRequestChecker()" in norm(fn)
    if not ok_handler:
        res.add(Finding("C09", "RETORT.as-provider", m.rel, "SearchingRetort.get_request_handlers", "handler",
                        "a retort placed in a recipe must answer the request from its own recipe "
                        "(self._provide_from_recipe(request))", fn.lineno))
    if not ok_checker:
        res.add(Finding("C09", "RETORT.as-provider", m.rel, "SearchingRetort.get_request_handlers", "checker",
                        "a retort placed in a recipe must accept every request class it can serve (always-true checker)",
                        fn.lineno))
    # handlers are built afresh from the current recipe on every call: a retort is cloned by copy(), so anything
    # memoised on the instance would make the clone answer through the original retort
    stores = [n for n in ast.walk(fn) if isinstance(n, (ast.Assign, ast.AugAssign)) and any(
        isinstance(t, ast.Attribute) and isinstance(t.value, ast.Name) and t.value.id == "self"
        for t in (n.targets if isinstance(n, ast.Assign) else [n.target]))]
    attr_returns = [r for r in walk_no_nested(fn) if isinstance(r, ast.Return) and isinstance(r.value, ast.Attribute)
                    and isinstance(r.value.value, ast.Name) and r.value.value.id == "self"]
    res.evaluated("retort-as-provider:fresh-handlers", True)
    if stores or attr_returns:
        res.add(Finding("C09", "RETORT.as-provider-memoised", m.rel, "SearchingRetort.get_request_handlers",
                        "; ".join(norm(x)[:60] for x in stores + attr_returns),
                        "the retort-as-provider handlers are memoised on the instance: replace()/extend() copy the instance, "
                        "so a derived retort placed in a recipe answers from the ORIGINAL retort's recipe and options",
                        fn.lineno))
    pf = ci.methods.get("_provide_from_recipe")
    if pf is None or "self._create_mediator" not in norm(pf):
        res.add(Finding("C09", "RETORT.as-provider", m.rel, "SearchingRetort._provide_from_recipe", "mediator",
                        "the inner retort must resolve with its own mediator (own recipe and options)",
                        pf.lineno if pf else fn.lineno))


# ------------------------------------------------------------------------------------------ handlers built in loops / overrides
def terminal_flag_kept(repo: Repo, res: CheckResult) -> None:
    """CannotProvide carries `is_terminal`: a terminal refusal stops the search of the bus, an ordinary one lets the NEXT provider
    answer. Code that catches a CannotProvide and raises a new one in its place decides that flag anew; every such site on the
    tree states it (`is_terminal=True` for mandatory_provide, `False` for provide). A replacement that does not state it
    falls back to the default (not terminal): a terminal refusal inside a nested retort or provider becomes an ordinary decline
    and later providers silently serve the request the first matching provider rejected."""
    n = 0
    for m in repo.modules.values():
        if not any(x in m.rel for x in ("/provider/", "/retort/")):
            continue
        for hd in [x for x in ast.walk(m.tree) if isinstance(x, ast.ExceptHandler)]:
            if hd.type is None or "CannotProvide" not in norm(hd.type):
                continue
            for r in [x for st in hd.body for x in ast.walk(st) if isinstance(x, ast.Raise) and x.exc is not None]:
                exc = r.exc
                if not (isinstance(exc, ast.Call) and "CannotProvide" in norm(exc.func)):
                    continue
                n += 1
                fn = m.enclosing_function(hd)
                q = m.qualname(fn) if fn is not None else "<module>"
                res.evaluated(f"terminal-flag:{m.rel}:{q}:{r.lineno}", True)
                if not any(k.arg == "is_terminal" for k in exc.keywords):
                    res.add(Finding("C09", "BUS.terminal-flag-not-carried", m.rel, q, norm(exc)[:100],
                                    f"`{norm(exc)[:80]}` replaces a caught CannotProvide without stating `is_terminal`: a TERMINAL refusal "
                                    "(a mandatory sub-request failed) leaves as an ordinary decline, the bus goes on and a later "
                                    "provider answers the request the first matching provider had rejected", r.lineno))
    res.count("BUS.replaced-refusals", n, 2)


def late_binding_handlers(repo: Repo, res: CheckResult) -> None:
    """A handler (any function) defined INSIDE a loop that reads the loop variable and outlives the iteration sees the LAST
    value of that variable when it runs: every wrapped handler of a multi-handler provider chains from the last one (the
    loader chain is built from the dumper function). The variable has to be bound per iteration (a factory function or a
    default argument)."""
    n = 0
    for m in repo.modules.values():
        if not any(x in m.rel for x in ("/provider/", "/retort/", "/morphing/facade/", "/conversion/facade/")):
            continue
        for loop in [x for x in ast.walk(m.tree) if isinstance(x, (ast.For, ast.AsyncFor))]:
            targets = {t.id for t in ast.walk(loop.target) if isinstance(t, ast.Name)}
            for fn in [f for st in loop.body for f in ast.walk(st) if isinstance(f, (ast.FunctionDef, ast.Lambda))]:
                params = set(func_params(fn))
                defaults = {norm(d) for d in (fn.args.defaults + [k for k in fn.args.kw_defaults if k is not None])}
                body_nodes = ast.walk(fn) if isinstance(fn, ast.FunctionDef) else ast.walk(fn.body)
                free = {x.id for x in body_nodes if isinstance(x, ast.Name) and isinstance(x.ctx, ast.Load)
                        and x.id in targets and x.id not in params}
                if not free:
                    continue
                # does the function object escape the iteration? (appended, stored into a container, returned, yielded)
                name = fn.name if isinstance(fn, ast.FunctionDef) else None
                escapes = False
                for x in ast.walk(loop):
                    if isinstance(x, ast.Call) and isinstance(x.func, ast.Attribute) and x.func.attr in ("append", "add", "extend", "insert", "setdefault") \
                            and any((isinstance(a, ast.Name) and a.id == name) or a is fn for arg in x.args for a in ast.walk(arg)):
                        escapes = True
                    if isinstance(x, (ast.Yield, ast.Return)) and x.value is not None and any(
                            (isinstance(a, ast.Name) and a.id == name) or a is fn for a in ast.walk(x.value)):
                        escapes = True
                    if isinstance(x, ast.Assign) and any(isinstance(t, ast.Subscript) for t in x.targets) and any(
                            (isinstance(a, ast.Name) and a.id == name) or a is fn for a in ast.walk(x.value)):
                        escapes = True
                n += 1
                res.evaluated(f"late-binding:{m.rel}:{getattr(fn, 'lineno', 0)}", True)
                if escapes:
                    encl = m.enclosing_function(loop)
                    res.add(Finding("C09", "BIND.loop-variable-read-late", m.rel, m.qualname(encl) if encl is not None else "<module>",
                                    f"{name or 'lambda'} reads loop variable(s) {sorted(free)}",
                                    f"`{name or 'lambda'}` is defined inside `for {norm(loop.target)} in ...`, reads {sorted(free)} as free variables and "
                                    "outlives the iteration: when it runs, the variables hold the values of the LAST iteration -- every handler "
                                    "built by the loop uses the last wrapped handler (the loader request is answered by composing the dumper "
                                    "function)", getattr(fn, "lineno", 0)))
        # the same in a comprehension: a lambda in the ELEMENT that reads a comprehension variable is collected by construction
        # (a generator expression's lambda runs after the generator advanced only if it is kept; lists/sets/dicts always keep it)
        for comp in [x for x in ast.walk(m.tree) if isinstance(x, (ast.ListComp, ast.SetComp, ast.DictComp, ast.GeneratorExp))]:
            targets = {t.id for g in comp.generators for t in ast.walk(g.target) if isinstance(t, ast.Name)}
            elts = [comp.key, comp.value] if isinstance(comp, ast.DictComp) else [comp.elt]
            for lam in [f for e in elts for f in ast.walk(e) if isinstance(f, ast.Lambda)]:
                params = set(func_params(lam))
                defaults = [d for d in (lam.args.defaults + [k for k in lam.args.kw_defaults if k is not None])]
                free = {x.id for x in ast.walk(lam.body) if isinstance(x, ast.Name) and isinstance(x.ctx, ast.Load)
                        and x.id in targets and x.id not in params}
                n += 1
                res.evaluated(f"late-binding:{m.rel}:{lam.lineno}:comprehension", True)
                if free:
                    encl = m.enclosing_function(comp)
                    res.add(Finding("C09", "BIND.loop-variable-read-late", m.rel, m.qualname(encl) if encl is not None else "<module>",
                                    f"lambda in a comprehension reads {sorted(free)}",
                                    f"a lambda collected by a comprehension reads the comprehension variable(s) {sorted(free)} as free "
                                    "variables: all collected lambdas share ONE cell per variable and see the value of the last "
                                    "iteration when they run", lam.lineno))
    res.count("BIND.functions-defined-in-loops", n, 0)
    fx = ast.parse("def g(self):\n    out = []\n    for cls, checker, handler in self.p():\n        def h(m, r):\n            return handler(m, r)\n        out.append((cls, checker, h))\n    return out\n")
    loop = next(x for x in ast.walk(fx) if isinstance(x, ast.For))
    if not any(isinstance(f, ast.FunctionDef) for st in loop.body for f in ast.walk(st)):
        raise AnalysisError("late-binding fixture no longer matches")


def retort_handler_overrides(repo: Repo, res: CheckResult) -> None:
    """A retort placed in a recipe takes part in the outer search through SearchingRetort.get_request_handlers: a request it
    cannot serve is DECLINED (CannotProvide) and the search goes on. A facade retort that overrides the handlers and answers
    through its public get_loader / get_dumper / load / dump turns the decline into ProviderNotFoundError: the providers
    after the nested retort are never consulted."""
    n = 0
    for ci in repo.all_classes():
        if not repo.is_subclass(ci, "SearchingRetort") or ci.name == "SearchingRetort":
            continue
        fn = ci.methods.get("get_request_handlers")
        n += 1
        res.evaluated(f"retort-handlers:{ci.name}", fn is not None)
        if fn is None:
            continue
        facade_calls = sorted({norm(x) for x in ast.walk(fn) if isinstance(x, ast.Attribute) and norm(x.value) == "self"
                               and x.attr in ("get_loader", "get_dumper", "load", "dump", "get_converter", "convert")})
        if facade_calls:
            res.add(Finding("C09", "RETORT.handlers-answer-through-facade", ci.module.rel, f"{ci.name}.get_request_handlers",
                            ", ".join(facade_calls),
                            f"{ci.name} overrides get_request_handlers and answers through {facade_calls}: the facade methods raise "
                            "ProviderNotFoundError where a provider has to decline with CannotProvide, so a nested retort that cannot "
                            "serve a type aborts the outer search instead of letting the next provider answer", fn.lineno))
    res.count("RETORT.facade-classes", n, 3)


def facade_cache_vs_recipe(repo: Repo, res: CheckResult) -> None:
    """extend(recipe=...) PREPENDS: get_converter(src, dst, recipe=r) has to be answered by the extended retort. A cache looked up
    on (or filled into) the retort the recipe was NOT added to serves the first converter of a type pair to every later recipe
    (shared rule with C11 / C13)."""
    from .c11 import facade_caches
    fc = CheckResult("C11")
    facade_caches(repo, fc)
    res.evaluated("facade:cache-vs-recipe", True)
    for f in fc.findings:
        if "conversion/" in f.file:
            res.add(Finding("C09", "FACADE.recipe-ignored-by-cache", f.file, f.qualname, f.construct,
                            "the converter cache is consulted / filled on the retort that does not carry the per-call recipe: the "
                            "providers of `recipe=` are not prepended for a type pair that was resolved before (" + f.message[:160] + ")",
                            f.line))


def facade_functions_forward_the_recipe(repo: Repo, res: CheckResult) -> None:
    """The module-level functions of adaptix.conversion are thin fronts of one global retort. A `recipe` argument they accept is
    the head of the recipe for that call: every path that hands the call on must hand the recipe on, otherwise the user's
    providers are silently not consulted (the converter is produced, or refused, by the builtin recipe alone)."""
    m = repo.mod("conversion/facade/func")
    n = 0
    for name, fn in m.functions.items():
        if "recipe" not in func_params(fn):
            continue
        n += 1
        res.evaluated(f"facade-func-recipe:{name}", True)
        for c in [x for x in ast.walk(fn) if isinstance(x, ast.Call) and isinstance(x.func, ast.Attribute)
                  and "_retort" in norm(x.func.value)]:
            passes = any(kw.arg == "recipe" or kw.arg is None for kw in c.keywords) or any(norm(a) == "recipe" for a in c.args)
            if not passes:
                res.add(Finding("C09", "FACADE.recipe-argument-dropped", m.rel, name, norm(c)[:100],
                                f"`{norm(c)[:80]}`: this path of `{name}` does not pass its `recipe` argument on -- the providers the caller "
                                "put in front of the recipe are never consulted for this call", c.lineno))
    res.count("FACADE.functions-with-recipe", n, 2)


# ------------------------------------------------------------------------------------------ recursion stubs / routing memos
def recursion_by_whole_location(repo: Repo, res: CheckResult) -> None:
    """A recursion stub answers a request WITHOUT a search through the recipe. That is the first-match answer only when the
    earlier request it stands for is the same location: predicates see field names, owners and generic positions, not just
    the type. The resolver must therefore recognise a recursive occurrence by comparing whole locations and key its stubs by the
    location; a projection (`loc.type`) answers `Node` inside `Node.children: List[Node]` with the stub of the root `Node`,
    and a provider bound to that nested location (`loader(P[Node].children[Node], f)`) is never consulted."""
    m = repo.mod("retort/operating_retort")
    ci = m.classes.get("LocatedRequestCallableRecursionResolver")
    if ci is None:
        raise AnalysisError("anchor vanished: LocatedRequestCallableRecursionResolver")
    n = 0
    for mname in ("track_request", "track_response"):
        fn = ci.methods.get(mname)
        if fn is None:
            raise AnalysisError(f"anchor vanished: LocatedRequestCallableRecursionResolver.{mname}")
        req = func_params(fn)[1]
        # locals that hold the last location / a projection of it
        whole = {f"{req}.last_loc"}
        proj: Dict[str, str] = {}
        for a in ast.walk(fn):
            if isinstance(a, ast.Assign) and len(a.targets) == 1 and isinstance(a.targets[0], ast.Name):
                v = norm(a.value)
                if v == f"{req}.last_loc":
                    whole.add(a.targets[0].id)
                elif v.startswith(f"{req}.last_loc."):
                    proj[a.targets[0].id] = v
        # comparisons over the stack
        for g in ast.walk(fn):
            if isinstance(g, ast.comprehension) and norm(g.iter) == f"{req}.loc_stack" and isinstance(g.target, ast.Name):
                lv = g.target.id
                par = m.parent(g)
                for c in ast.walk(par):
                    if isinstance(c, ast.Compare):
                        n += 1
                        res.evaluated(f"recursion:{mname}:compare:{norm(c)}", True)
                        sides = [norm(c.left)] + [norm(x) for x in c.comparators]
                        if not (lv in sides and any(sd in whole for sd in sides)):
                            res.add(Finding("C09", "RECURSION.occurrence-by-projection", m.rel, f"{ci.name}.{mname}", norm(c),
                                            f"`{norm(c)}` decides whether the request is a recursive occurrence by a projection of the "
                                            "location: the request then gets the stub of ANOTHER location of the same type and the "
                                            "recipe is not searched for it -- a provider whose predicate matches only the nested "
                                            "location (field name, owner, generic position) is never consulted", c.lineno))
        # the stub table is keyed by the location
        for sub in ast.walk(fn):
            key = None
            if isinstance(sub, ast.Subscript) and isinstance(sub.value, ast.Attribute) and norm(sub.value.value) == "self":
                key = sub.slice
            elif isinstance(sub, ast.Call) and isinstance(sub.func, ast.Attribute) and sub.func.attr in ("pop", "get", "setdefault") \
                    and isinstance(sub.func.value, ast.Attribute) and norm(sub.func.value.value) == "self" and sub.args:
                key = sub.args[0]
            elif isinstance(sub, ast.Compare) and len(sub.ops) == 1 and isinstance(sub.ops[0], (ast.In, ast.NotIn)) \
                    and isinstance(sub.comparators[0], ast.Attribute) and norm(sub.comparators[0].value) == "self":
                key = sub.left
            if key is None:
                continue
            n += 1
            res.evaluated(f"recursion:{mname}:key:{norm(key)}", True)
            k = norm(key)
            if k in proj or k.startswith(f"{req}.last_loc."):
                res.add(Finding("C09", "RECURSION.occurrence-by-projection", m.rel, f"{ci.name}.{mname}", f"stub key {proj.get(k, k)}",
                                f"the stub table is keyed by `{proj.get(k, k)}`, a projection of the location: stubs of different "
                                "locations of one type are one entry, the response of one search is handed to the other location",
                                getattr(key, "lineno", fn.lineno)))
            elif k not in whole:
                raise AnalysisError(f"{ci.name}.{mname}: cannot tell what the stub table key `{k}` is")
    # the decision "this is the first occurrence" consults the resolver's OWN record of the requests it is processing: the stack
    # of a request that reaches a retort used as a provider begins with locations another retort's buses are processing; a stub
    # issued for an occurrence this resolver never saw is bound by nobody (TypeError: 'NoneType' object is not callable at load)
    fn = ci.methods["track_request"]
    firsts = [i for i in ast.walk(fn) if isinstance(i, ast.If) and any(isinstance(x, ast.Return) and (x.value is None or norm(x.value) == "None")
                                                                      for x in i.body)]
    res.evaluated("recursion:first-occurrence-decision", True)
    if len(firsts) != 1:
        raise AnalysisError("LocatedRequestCallableRecursionResolver.track_request: expected one first-occurrence decision (an if that returns None)")
    own_state = any(isinstance(a, ast.Attribute) and norm(a.value) == "self" for a in ast.walk(firsts[0].test))
    if not own_state:
        res.add(Finding("C09", "RECURSION.stub-for-untracked-occurrence", m.rel, f"{ci.name}.track_request", norm(firsts[0].test)[:120],
                        f"`{norm(firsts[0].test)[:100]}` decides from the location stack alone whether an earlier request for this location "
                        "is in flight. A retort placed in a recipe receives requests whose stack begins with locations the OUTER retort "
                        "is processing: for `bound(P[List].generic_arg(0, Node), inner)` and a recursive Node the inner resolver meets "
                        "`children` for the first time, counts two occurrences and hands out a stub nobody binds; the loader it serves "
                        "calls None. The resolver has to keep its own record of the locations it tracks", firsts[0].lineno))
    res.count("RECURSION.location-uses", n, 4)


def routing_decisions_not_memoised(repo: Repo, res: CheckResult) -> None:
    """route_handler answers from the (checker, handler) items in recipe order; a checker may look at the whole request (type
    arguments, field names, the stack). A router keeps no state between requests: a remembered decision keyed by less than the
    request (origin, offset) serves a later request with the handler chosen for another one -- List[str] by the provider of
    List[int] -- or skips a provider that would match."""
    m = repo.mod("retort/routers")
    n = 0
    for ci in m.classes.values():
        if "route_handler" not in ci.methods:
            continue
        n += 1
        res.evaluated(f"router-stateless:{ci.name}", True)
        for mname, fn in ci.methods.items():
            if mname in ("__init__", "__new__"):
                continue
            for st in ast.walk(fn):
                targets = []
                if isinstance(st, ast.Assign):
                    targets = st.targets
                elif isinstance(st, (ast.AugAssign, ast.AnnAssign)):
                    targets = [st.target]
                for t in targets:
                    base = t.value if isinstance(t, ast.Subscript) else t
                    if isinstance(base, ast.Attribute) and norm(base.value) == "self":
                        res.add(Finding("C09", "ROUTER.decision-remembered", m.rel, f"{ci.name}.{mname}", norm(st)[:100],
                                        f"`{norm(st)[:80]}`: the router stores something while routing; its answer is a function of the whole "
                                        "request (checkers see type arguments, field names and the stack), a decision remembered under a "
                                        "smaller key is replayed for requests the skipped checkers would have answered differently, so the "
                                        "serving provider is no longer the first match in recipe order", st.lineno))
            for c in ast.walk(fn):
                if isinstance(c, ast.Call) and isinstance(c.func, ast.Attribute) and c.func.attr in ("setdefault", "update", "append", "add") \
                        and isinstance(c.func.value, ast.Attribute) and norm(c.func.value.value) == "self":
                    res.add(Finding("C09", "ROUTER.decision-remembered", m.rel, f"{ci.name}.{mname}", norm(c)[:100],
                                    f"`{norm(c)[:80]}`: the router modifies its own state while routing (see ROUTER.decision-remembered)",
                                    c.lineno))
    res.count("ROUTER.stateless-routers", n, 2)


def delegation_restarts_the_search_at_the_same_location(repo: Repo, res: CheckResult) -> None:
    """The unwrapping providers (NewType, Annotated, type aliases) answer by sending the request again with the wrapped type.
    Chain.FIRST / LAST compose the user function with "the next matching provider's result exactly once": that holds only if the
    re-sent request cannot reach the chaining provider a second time. The re-send is a COMPLETE search (delegating_provide ->
    offset 0) and `replace_last_type` keeps everything of the location but the type, so a chaining provider bound by a predicate
    that does not look at the type (a field name, `P[M].uid`) matches the re-sent request again and composes twice."""
    m = repo.mod("provider/located_request")
    ci = m.classes.get("LocatedRequestDelegatingProvider")
    if ci is None:
        raise AnalysisError("anchor vanished: LocatedRequestDelegatingProvider")
    n = 0
    for c in ast.walk(ci.node):
        if isinstance(c, ast.Call) and isinstance(c.func, ast.Attribute) and c.func.attr in ("delegating_provide", "mandatory_provide", "provide") \
                and norm(c.func.value) == "mediator" and c.args:
            n += 1
            res.evaluated(f"delegation:{norm(c)[:60]}", True)
            arg = norm(c.args[0])
            if "replace_last_type(" in arg and "loc_stack" in arg:
                res.add(Finding("C09", "CHAIN.delegation-restarts-search-at-same-location", m.rel,
                                "LocatedRequestDelegatingProvider.get_request_handlers.delegating_request_handler",
                                "mediator.delegating_provide(replace(request, loc_stack=request.loc_stack.replace_last_type(tp)))",
                                "the unwrapping providers re-send the request with the wrapped type through the whole recipe at the SAME "
                                "location (field identity kept): a chaining provider selected by a predicate that ignores the type "
                                "matches both the original and the re-sent request and its function is composed twice", c.lineno))
    res.count("CHAIN.delegation-sites", n, 1)
