"""C04 — invalid input raises LoadError and nothing else.

Clause decided: for every builtin loader closure, under the builtin effect table and the data universe of
DESIGN.md, the set of exception classes that may escape is a subset of the LoadError family; and an
AggregateLoadError/UnionLoadError is only ever built from errors caught as LoadError (collect rule).
"""
from __future__ import annotations

import ast
from typing import Dict, List, Optional, Set

from .. import exc_model as M
from ..closures import Closure, Inventory
from ..core import AnalysisError, CheckResult, Finding, Repo, norm, walk_no_nested
from ..esc import Esc, Origin, TOP, USER, Undetermined, Val, RAW
from ..values import Resolver, ctx_for

LEVEL = "other"
EXHAUSTIVE = True
EXPLANATION = (
    "Exception-escape analysis (abstract interpretation with a type-refinement domain over the raw datum) of every "
    "loader closure reachable from provide_loader of every provider class and of the raw `loader(tp, tp)` "
    "registrations of FilledRetort.recipe; may-raise sets of stdlib operations come from the builtin effect table "
    "(sa/exc_model.py); an exception class that can escape and is not a LoadError subclass is a violation, reported "
    "with the raising operation. Second rule: every handler that collects a caught exception into the list later "
    "wrapped in AggregateLoadError/UnionLoadError catches LoadError only, or sets the flag that selects the plain "
    "ExceptionGroup. Thorough tier adds the emitted model-loader programs (tier G)."
)
RULE = ("one evaluation = one loader closure (all modes); non-trivial = closure contains at least one operation on raw "
        "data with a non-empty may-raise set or a call of a mediator-provided loader")
ASSUMPTIONS = [
    "builtin effect table sa/exc_model.py is complete for the data universe (builtin and stdlib value types)",
    "dunder methods of user-defined classes inside the datum, custom Enum._missing_, constructors, saturators and "
    "validators are user code (C04 second sentence)",
    "RecursionError/MemoryError (resource exhaustion) out of scope",
    "A5: element/key types of set-like and dict targets are hashable types",
    "iterating an iterator found in the datum does not itself raise",
    "pathlib.WindowsPath on POSIX / PosixPath on Windows raise NotImplementedError for every argument (platform "
    "limitation, not an input error): not counted",
]


def allowed(H: M.ExcHierarchy, exc: str) -> bool:
    return exc == USER or H.is_sub(exc, "LoadError")


def esc_findings(repo: Repo, esc_engine: Esc, c: Closure, res: CheckResult) -> None:
    H = esc_engine.H
    if c.kind == "ext":
        if c.role != "loader":
            return
        eff = M.call_effect(c.ext or "", None)
        res.evaluated(c.name, True)
        if eff is None:
            raise AnalysisError(f"raw loader registration of `{c.ext}` is not in the effect table")
        bad = sorted(e for e in eff if not allowed(H, e))
        res.sample({"closure": c.name, "may_escape": sorted(eff), "verdict": "violation" if bad else "ok"})
        if bad:
            assert c.site_module is not None and c.site is not None
            res.add(Finding(
                "C04", "ESC.raw-registration", c.site_module.rel, c.provider,
                f"loader({c.ext})",
                f"stdlib callable {c.ext} is registered directly as a loader; on invalid input it raises "
                f"{', '.join(bad)} which is not a LoadError",
                getattr(c.site, "lineno", 0),
            ))
        return
    assert c.fctx is not None
    esc_engine.freevar_model = dict(c.freevars)
    try:
        esc, _rv = esc_engine.analyze(c.fctx)
    except Undetermined as e:
        raise AnalysisError(f"ESC undetermined for {c.name}: {e}")
    finally:
        esc_engine.freevar_model = {}
    nontrivial = bool(esc)
    res.evaluated(c.name, nontrivial)
    bad = {k: o for k, o in esc.items() if not allowed(H, k[0])}
    res.sample({"closure": c.name, "may_escape": sorted({k[0] for k in esc}),
                "verdict": "violation" if bad else "ok"}, limit=14)
    for (exc, _q, _c), o in sorted(bad.items()):
        res.add(Finding(
            "C04", "ESC.escape", o.module.rel, o.qual, f"{o.construct} -> {exc}",
            f"`{o.construct}` may raise {exc} on invalid input and no enclosing handler translates it; it escapes "
            f"loader {c.fctx.qual}" + (f" (via {' > '.join(o.via)})" if o.via else ""),
            o.line,
        ))


# ------------------------------------------------------------------------------------------ collect rule
def collect_rule(repo: Repo, esc_engine: Esc, fn: ast.FunctionDef, module, qual: str, res: CheckResult,
                 prop: str = "C04", rekey=None) -> int:
    """In a function that raises a LoadError-family group built from a list `errors`:
    every handler appending to that list must catch only LoadError subclasses, or assign True to a flag
    such that the group raise is guarded by `if flag: raise <non LoadError group>`.
    Returns number of collecting handlers examined."""
    H = esc_engine.H
    fctx = ctx_for(repo, module, fn)
    # group raise sites
    group_raises = []
    for node in walk_no_nested(fn):
        if isinstance(node, ast.Raise) and isinstance(node.exc, ast.Call):
            names = esc_engine.exc_name_of(node.exc.func, fctx)
            if names and H.is_sub(names[0], "LoadExceptionGroup"):
                group_raises.append((node, names[0]))
    if not group_raises:
        return 0
    # names of lists handed to the group constructors: locals initialised as empty list displays
    local_lists: Set[str] = set()
    for node in walk_no_nested(fn):
        if isinstance(node, ast.Assign) and isinstance(node.value, ast.List) and not node.value.elts:
            for t in node.targets:
                if isinstance(t, ast.Name):
                    local_lists.add(t.id)
    list_names: Set[str] = set()
    raises_by_list: Dict[str, list] = {}
    for node, gname in group_raises:
        for a in node.exc.args[1:] + [k.value for k in node.exc.keywords]:
            for n in ast.walk(a):
                if isinstance(n, ast.Name) and n.id in local_lists:
                    list_names.add(n.id)
                    raises_by_list.setdefault(n.id, []).append((node, gname))
    n_handlers = 0
    for tr in walk_no_nested(fn):
        if not isinstance(tr, ast.Try):
            continue
        for h in tr.handlers:
            appended = None
            for n in walk_no_nested(h):
                if isinstance(n, ast.Call) and isinstance(n.func, ast.Attribute) and n.func.attr in ("append", "extend") \
                        and isinstance(n.func.value, ast.Name) and n.func.value.id in list_names:
                    # does the appended value mention the caught exception?
                    if h.name and any(isinstance(x, ast.Name) and x.id == h.name for a in n.args for x in ast.walk(a)):
                        appended = n
                        appended_list = n.func.value.id
            if appended is None:
                continue
            n_handlers += 1
            hnames = esc_engine.exc_name_of(h.type, fctx)
            only_load = all(H.is_sub(x, "LoadError") for x in hnames)
            res.evaluated(f"collect:{module.rel}:{qual}:{norm(h.type) if h.type else 'bare'}:{appended.lineno}", True)
            if only_load:
                continue
            # must set a flag
            flags = [t.id for st in h.body if isinstance(st, ast.Assign) and isinstance(st.value, ast.Constant)
                     and st.value.value is True for t in st.targets if isinstance(t, ast.Name)]
            ok = False
            for flag in flags:
                if _group_raises_guarded(fn, raises_by_list.get(appended_list, group_raises), flag, esc_engine, fctx):
                    ok = True
            if not ok:
                construct = f"except {norm(h.type) if h.type else ''}: {norm(appended)}"
                f_file, f_qual, f_line = module.rel, qual, h.lineno
                if rekey is not None:
                    f_file, f_qual, f_line, construct = rekey(h, appended, construct)
                res.add(Finding(
                    prop, "ESC.collect-unexpected", f_file, f_qual, construct,
                    "handler collects an exception that is not known to be a LoadError into the list later wrapped in "
                    "a LoadError group, without setting the unexpected-error flag that selects the plain ExceptionGroup: "
                    "a non-LoadError raised below surfaces as (part of) a LoadError",
                    f_line,
                ))
    return n_handlers


def _group_raises_guarded(fn, group_raises, flag: str, esc_engine: Esc, fctx) -> bool:
    """Each LoadError-group raise must be unreachable when `flag` is true: it is preceded in its block (or an
    enclosing block) by `if flag: raise <not LoadError>`, or sits in the else branch of such an if."""
    H = esc_engine.H

    def guard_before(block: List[ast.stmt], target: ast.stmt) -> bool:
        for st in block:
            if st is target:
                return False
            if isinstance(st, ast.If) and _mentions_true(st.test, flag) and st.body and isinstance(st.body[-1], ast.Raise):
                r = st.body[-1]
                names = esc_engine.exc_name_of(r.exc, fctx) if r.exc is not None else ["?"]
                if names and not H.is_sub(names[0], "LoadError"):
                    return True
        return False

    def find_path(block: List[ast.stmt], target: ast.stmt, guarded: bool) -> Optional[bool]:
        for st in block:
            if st is target:
                return guarded or guard_before(block, target)
            g2 = guarded or guard_before(block, st)
            for fld in ("body", "orelse", "finalbody"):
                sub = getattr(st, fld, None)
                if isinstance(sub, list) and sub and isinstance(sub[0], ast.stmt):
                    g3 = g2
                    if isinstance(st, ast.If) and fld == "orelse" and _mentions_true(st.test, flag):
                        g3 = True
                    r = find_path(sub, target, g3)
                    if r is not None:
                        return r
            for h in getattr(st, "handlers", []) or []:
                r = find_path(h.body, target, g2)
                if r is not None:
                    return r
        return None

    for node, _name in group_raises:
        r = find_path(fn.body, node, False)
        if not r:
            return False
    return True


def _mentions_true(test: ast.expr, flag: str) -> bool:
    # `if flag:` or `if flag and ...`
    if isinstance(test, ast.Name):
        return test.id == flag
    if isinstance(test, ast.BoolOp) and isinstance(test.op, ast.And):
        return any(_mentions_true(v, flag) for v in test.values)
    return False


def run(repo: Repo, tier: str, res: CheckResult, seed: int = 0) -> None:
    R = Resolver(repo)
    inv = Inventory(repo, R)
    eng = Esc(repo, R, role="loader")
    loaders = [c for c in inv.closures if c.role == "loader"]
    n_func = n_ext = 0
    for c in loaders:
        if c.kind == "func" and c.fctx is not None and "integrations/" in c.fctx.module.rel:
            # third-party contract (pydantic ValidationError); covered in thorough tier only as information
            continue
        esc_findings(repo, eng, c, res)
        if c.kind == "func" and not c.freevars:
            n_func += 1
        else:
            n_ext += 1
    res.count("ESC.loader-closures", n_func, 50)
    res.count("ESC.raw-loader-registrations", n_ext, 3)

    # collect rule over every function of the provider modules (closures and generator mappers)
    n_collect = 0
    for sm in ("morphing/iterable_provider", "morphing/dict_provider", "morphing/constant_length_tuple_provider",
               "morphing/generic_provider", "morphing/enum_provider", "morphing/concrete_provider"):
        m = repo.mod(sm)
        for node in ast.walk(m.tree):
            if isinstance(node, ast.FunctionDef):
                n_collect += collect_rule(repo, eng, node, m, m.qualname(node), res)
    res.count("ESC.collecting-handlers", n_collect, 8)

    hashing_factories(repo, res)
    memo_hashes_datum(repo, res)
    # generated model loaders
    from .. import genprog
    genprog.c04_checks(repo, tier, res, eng, seed)

    res.coverage["callees_resolved"] = dict(sorted(eng.callees_resolved.items()))
    res.coverage["operations_evaluated"] = eng.ops_evaluated
    res.coverage["trusted_base"] = ["Python ast", "sa/exc_model.py effect table", "data universe of DESIGN.md §0"]
    res.assumptions = list(ASSUMPTIONS)


def memo_hashes_datum(repo: Repo, res: CheckResult) -> None:
    """A functools memo in front of a function that receives the datum hashes the datum BEFORE the function (and its handlers)
    runs: a JSON-shaped unhashable datum (a list, a dict) raises `TypeError: unhashable type` from the cache wrapper and nothing
    translates it. The inventory of memo applications is the one of C20 (MEMO.runtime-function-memoised)."""
    from .c20 import memoised_runtime_functions
    sub = CheckResult("C20")
    memoised_runtime_functions(repo, sub)
    res.evaluated("esc:memo-in-front-of-loader", True)
    for f in sub.findings:
        if f.rule == "MEMO.runtime-function-memoised" and "/morphing/" in f.file:
            res.add(Finding("C04", "ESC.memo-hashes-datum", f.file, f.qualname, f.construct,
                            f"`{f.construct}`: the memo wrapper hashes its argument -- the datum -- before the wrapped function and its "
                            "exception handlers run; an unhashable datum ([1], {'a': 1}) raises TypeError (unhashable type) instead "
                            "of a LoadError", f.line))


def hashing_factories(repo: Repo, res: CheckResult) -> None:
    """The iterable loaders hand the LOADED elements to the container factory. For set / frozenset targets the factory hashes
    them: an element loaded as is (Set[Any]) from JSON-shaped data such as [[1]] is a list, `set(...)` raises TypeError and
    nothing translates it (the escape analysis treats a factory applied to loaded values as internal -- assumption A5 -- so
    this clause is decided here, structurally)."""
    m = repo.mod("morphing/iterable_provider")
    ci = m.classes.get("IterableProvider")
    if ci is None:
        raise AnalysisError("anchor vanished: IterableProvider")
    impl = ci.attrs.get("ABC_TO_IMPL")
    hashing = isinstance(impl, ast.Dict) and any(norm(v) in ("set", "frozenset") for v in impl.values)
    n = 0
    for mname, fn in ci.methods.items():
        if "loader" not in mname:
            continue
        for cl in [f for f in ast.walk(fn) if isinstance(f, ast.FunctionDef) and f is not fn]:
            for c in ast.walk(cl):
                if not (isinstance(c, ast.Call) and isinstance(c.func, ast.Name) and c.func.id == "iter_factory"):
                    continue
                n += 1
                res.evaluated(f"hashing-factory:{ci.name}.{mname}.{cl.name}", True)
                guarded = False
                p = m.parent(c)
                while p is not None and p is not cl:
                    if isinstance(p, ast.Try) and any(h.type is not None and "TypeError" in norm(h.type) for h in p.handlers) \
                            and any(c is x for b in p.body for x in ast.walk(b)):
                        guarded = True
                    p = m.parent(p)
                if hashing and not guarded:
                    res.add(Finding("C04", "ESC.hashing-factory-on-loaded-elements", m.rel, f"{ci.name}.{mname}.{cl.name}",
                                    "iter_factory(<loaded elements>) with a set / frozenset factory",
                                    f"`{norm(c)[:60]}`: for set / frozenset targets the factory hashes the loaded elements; an element "
                                    "loaded as is from [[1]] (Set[Any]) is unhashable and the TypeError of `set(...)` escapes the loader",
                                    c.lineno))
    res.count("ESC.container-factory-applications", n, 4)
