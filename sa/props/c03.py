"""C03 — generated model loaders/dumpers honour the configured outer layout exactly (translation validation)."""
from __future__ import annotations

from ..core import CheckResult, Repo
from .. import genprog

LEVEL = "translation_validation"
EXHAUSTIVE = True
EXPLANATION = (
    "Translation validation of the programs emitted by BuiltinModelLoaderGen / BuiltinModelDumperGen for an enumerated, "
    "bounded family of (shape, crown, extra policy, extra move, debug_trail, strict_coercion): only produce_code runs "
    "(child process), the emitted text is parsed and walked with a def-use state, and compared with the crown given to "
    "the generator: every field is read from / written to exactly its crown path, key-set constants equal the crown's "
    "keys / required keys, extra-policy code matches the policy of each node (forbid: set difference + "
    "ExtraFieldsLoadError; collect: item-wise copy of exactly the unknown keys into a dict created in the body; skip: "
    "nothing), list nodes check their length against len(map), placeholders fill gaps, sieved keys are conditional, "
    "and collected extras contain no structural keys."
)
RULE = ("one evaluation = one emitted program; disagreements_checked = number of oracle comparisons (field paths, key "
        "sets, policy fragments, length checks, written keys)")
ASSUMPTIONS = ["how name_mapping options turn into a crown (overlay merge, name styles) is not decided",
               "family bounds: shapes of 1-4 fields, crowns of depth <= 3, see sa/gen_child.py"]


def run(repo: Repo, tier: str, res: CheckResult, seed: int = 0) -> None:
    n1 = genprog.c03_loader_checks(repo, tier, res, seed)
    n2 = genprog.c03_dumper_checks(repo, tier, res, seed)
    res.count("TV.loader-programs", n1, 300)
    res.count("TV.dumper-programs", n2, 200)
    genprog.c03_layout_checks(repo, tier, res, seed)
    res.assumptions = list(ASSUMPTIONS)
