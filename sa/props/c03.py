"""C03 — generated model loaders/dumpers honour the configured outer layout exactly (translation validation)."""
from __future__ import annotations

import ast

from ..core import AnalysisError, CheckResult, Finding, Repo, norm
from .. import genprog

LEVEL = "translation_validation"
EXHAUSTIVE = True
EXPLANATION = (
    "Translation validation of the programs emitted by BuiltinModelLoaderGen / BuiltinModelDumperGen for an enumerated, "
    "bounded family of (shape, crown, extra policy, extra move, debug_trail, strict_coercion): only produce_code runs "
    "(child process), the emitted text is parsed and walked with a def-use state, and compared with the crown given to "
    "the generator: every field is read from / written to exactly its crown path, key-set constants equal the crown's "
    "keys / required keys, extra-policy code matches the policy of each node (forbid: set difference + "
    "ExtraFieldsLoadError; collect: item-wise copy of exactly the unknown keys into a dict created in the body; skip: "
    "nothing), list nodes check their length against len(map), placeholders fill gaps, sieved keys are conditional, "
    "and collected extras contain no structural keys. Layout pipeline: a real Retort with name_mapping configurations is "
    "asked for loaders/dumpers, the emitted programs are compared with a layout oracle written from the documentation. "
    "Tier S: provide_schema stacks the overlays of ALL ancestors (MRO, not only the direct bases). omit_default must test "
    "the field's value, not the output of its dumper (known finding)."
)
RULE = ("one evaluation = one emitted program; disagreements_checked = number of oracle comparisons (field paths, key "
        "sets, policy fragments, length checks, written keys)")
ASSUMPTIONS = ["how name_mapping options turn into a crown (overlay merge, name styles) is not decided",
               "family bounds: shapes of 1-4 fields, crowns of depth <= 3, see sa/gen_child.py"]


def run(repo: Repo, tier: str, res: CheckResult, seed: int = 0) -> None:
    n1 = genprog.c03_loader_checks(repo, tier, res, seed)
    n2 = genprog.c03_dumper_checks(repo, tier, res, seed)
    res.count("TV.loader-programs", n1, 300)
    res.count("TV.dumper-programs", n2, 200)
    genprog.c03_layout_checks(repo, tier, res, seed)
    overlay_ancestors(repo, res)
    layout_objects_compare_all_fields(repo, res)
    # hidden memos in the layout stage and the generators (shared rule family of C11): a sieve / crown cached under a key
    # that compares the user's default by == serves `0` with the sieve of `False`
    from ..values import Resolver as _Resolver
    from . import c11 as _c11
    _sub = CheckResult("C11")
    _c11.cached_call_sites(repo, _Resolver(repo), _sub)
    res.evaluated("layout:model-codec-memo-keys", True)
    for _f in _sub.findings:
        if _f.rule == "KEY.always-equal" and "/morphing/model/" in _f.file:
            res.add(Finding("C03", "LAYOUT.codec-memo-ignores-layout", _f.file, _f.qualname, _f.construct,
                            "the generated model codec is memoised under a key that ignores the name layout (or another input of the "
                            "generator): a model used under two name mappings in one retort is loaded / dumped with the keys of whichever "
                            "location was compiled first. " + _f.message[:160], _f.line))
    from .. import memo
    memo.check(repo, res, "C03", only=("/morphing/name_layout/", "/morphing/model/", "/provider/overlay_schema"), floors=False)
    res.assumptions = list(ASSUMPTIONS)


def overlay_ancestors(repo: Repo, res: CheckResult) -> None:
    """name_mapping bound to a class applies to its subclasses: provide_schema stacks the overlays of the ancestors. The
    loop that asks for the ancestors' overlays has to walk the whole MRO -- `__bases__` alone loses what is bound to a
    grandparent or to the base of a mixin (map entries: renames, nested paths, skips fall back to the generated key)."""
    m = repo.mod("provider/overlay_schema")
    fn = next((n for n in m.tree.body if isinstance(n, ast.FunctionDef) and n.name == "provide_schema"), None)
    if fn is None:
        raise AnalysisError("anchor vanished: provider/overlay_schema.provide_schema")
    loops = [lp for lp in ast.walk(fn) if isinstance(lp, ast.For) and any(
        isinstance(c, ast.Call) and isinstance(c.func, ast.Attribute) and c.func.attr in ("delegating_provide", "provide", "mandatory_provide")
        and any("OverlayRequest" in norm(a) for a in c.args) for c in ast.walk(lp))]
    if len(loops) != 1:
        raise AnalysisError(f"provide_schema: expected one loop over the ancestors, found {len(loops)}")
    lp = loops[0]
    res.evaluated("overlay:ancestor-traversal", True)
    it = lp.iter
    problem = None
    while True:
        if isinstance(it, ast.Subscript):
            sl = it.slice
            if not (isinstance(sl, ast.Slice) and sl.upper is None and sl.step is None
                    and (sl.lower is None or (isinstance(sl.lower, ast.Constant) and sl.lower.value in (0, 1)))):
                problem = f"the ancestors are cut by `[{norm(sl)}]`"
                break
            it = it.value
        elif isinstance(it, ast.Call) and norm(it.func) in ("reversed", "tuple", "list", "iter") and len(it.args) == 1:
            it = it.args[0]
        else:
            break
    if problem is None:
        if isinstance(it, ast.Call) and isinstance(it.func, ast.Attribute) and it.func.attr == "mro" and not it.args:
            pass
        elif isinstance(it, ast.Attribute) and it.attr == "__mro__":
            pass
        elif isinstance(it, ast.Call) and norm(it.func) in ("getmro", "inspect.getmro"):
            pass
        elif isinstance(it, ast.Attribute) and it.attr in ("__bases__", "__orig_bases__", "__base__"):
            recursive = any(isinstance(c, ast.Call) and norm(c.func) == fn.name for c in ast.walk(lp))
            if not recursive:
                problem = f"only the direct bases (`{norm(it)}`) are asked and the loop does not recurse"
        else:
            raise AnalysisError(f"provide_schema: cannot classify the ancestor iteration `{norm(lp.iter)}`")
    if problem:
        res.add(Finding("C03", "OVERLAY.ancestors-not-transitive", m.rel, "provide_schema", norm(lp.iter),
                        f"{problem}: a name_mapping (map / skip / nested path) bound to a grandparent class or to the base of a "
                        "mixin no longer reaches the model, loader and dumper silently use the generated keys", lp.lineno))


def layout_objects_compare_all_fields(repo: Repo, res: CheckResult) -> None:
    """Crowns and name layouts are arguments of cached factories (the generated loader / dumper is memoised per layout). They
    are frozen dataclasses; a hand-written __eq__ must compare every field the dataclass declares (own and inherited),
    otherwise two layouts of one model that differ in the omitted field (extra_policy: ExtraSkip vs ExtraForbid) share a
    loader -- the model placed at two locations with different extra_in gets the policy of whichever was requested first."""
    n = 0
    for mname in ("morphing/model/crown_definitions", "morphing/name_layout/base"):
        try:
            m = repo.mod(mname)
        except AnalysisError:
            if mname.endswith("crown_definitions"):
                raise
            continue
        for ci in m.classes.values():
            if not any("dataclass" in norm(d) for d in ci.node.decorator_list):
                continue
            fields = []
            for c in reversed(repo.mro(ci)):
                if not any("dataclass" in norm(d) for d in c.node.decorator_list):
                    continue
                for st in c.node.body:
                    if isinstance(st, ast.AnnAssign) and isinstance(st.target, ast.Name) and "ClassVar" not in norm(st.annotation):
                        if st.target.id not in fields:
                            fields.append(st.target.id)
            n += 1
            # a field declared with field(compare=False) is left out of the generated __eq__ all the same
            for c in repo.mro(ci):
                for st in c.node.body:
                    if isinstance(st, ast.AnnAssign) and isinstance(st.value, ast.Call) and any(
                            k.arg == "compare" and isinstance(k.value, ast.Constant) and k.value.value is False for k in st.value.keywords):
                        res.add(Finding("C03", "LAYOUT.eq-omits-field", m.rel, f"{ci.name}.{norm(st.target)}", f"{norm(st.target)}: compare=False",
                                        f"{c.name}.{norm(st.target)} is excluded from comparison (compare=False): layouts of {ci.name} that differ "
                                        "only there are equal cache keys, the program generated for the first is returned for the second",
                                        st.lineno))
            eq = ci.methods.get("__eq__")
            res.evaluated(f"layout-eq:{ci.name}", eq is not None)
            if eq is None:
                continue      # the generated __eq__ compares every field
            read = {x.attr for x in ast.walk(eq) if isinstance(x, ast.Attribute) and isinstance(x.value, ast.Name) and x.value.id == "self"}
            whole = any(isinstance(c, ast.Call) and norm(c.func) in ("astuple", "asdict", "vars", "dataclasses.astuple", "dataclasses.asdict")
                        for c in ast.walk(eq))
            missing = [f for f in fields if f not in read]
            if missing and not whole:
                res.add(Finding("C03", "LAYOUT.eq-omits-field", m.rel, f"{ci.name}.__eq__", ", ".join(missing),
                                f"{ci.name}.__eq__ does not compare {missing}: layouts that differ only there are equal cache keys, the loader "
                                "generated for the first one (its extra policy, its sieves) is returned for the second", eq.lineno))
    res.count("LAYOUT.layout-dataclasses", n, 8)
