"""C11 — results never depend on call history; retorts are immutable (clauses: DESIGN.md 3/C11)."""
from __future__ import annotations

import ast
from typing import Dict, List, Optional, Set, Tuple

from ..core import AnalysisError, CheckResult, ClassInfo, Finding, ModuleInfo, Repo, func_params, norm, walk_no_nested
from ..ted import COLL, ELEM, TCOLL, TELEM, Ted
from ..values import Resolver, ctx_for

LEVEL = "other"
EXHAUSTIVE = True
EXPLANATION = (
    "(1) Cache-key soundness at every mediator.cached_call site: the factory is a bound method of the provider that "
    "neither takes nor mentions mediator/request (its only hidden input is the immutable provider), no argument is an "
    "untyped collection of user values (typed-equality taint from Literal arguments), always-equal wrappers only wrap "
    "the behaviour-neutral code_gen_hook, hash wrappers hash a subset of what they compare. (2) Clone discipline of "
    "every Cloneable subclass: clone blocks assign only to the clone, mutable per-retort containers are created in "
    "_calculate_derived (so a clone never shares them), replace/extend return the clone. (3) Write inventory: every "
    "attribute store outside constructors in retort, mediator and provider classes is an insert into a cache dict "
    "created by _calculate_derived, or listed with a reason; facade caches are keyed by the complete argument tuple. "
    "(4) Hidden memos anywhere in the package (sa/memo.py): every functools cache and every check-then-insert dictionary that "
    "outlives a call is inventoried; the key must contain every parameter the stored value is computed from, must not be "
    "built from user-supplied values compared by == without a type pairing, and must not sit in front of a loader, dumper "
    "or coercer."
)
RULE = "one evaluation = one cached_call site / one attribute store / one clone block; all are non-trivial"
ASSUMPTIONS = [
    "user-supplied stateful providers are outside the property",
    "normalize_type's process-wide lru_cache is keyed by typing's own equality (Literal args typed since 3.9.1)",
]

INIT_METHODS = {"__init__", "_calculate_derived", "__init_subclass__", "__new__", "__set_name__", "__post_init__"}
MUTATORS = {"append", "extend", "insert", "pop", "popitem", "remove", "clear", "update", "setdefault", "sort", "reverse",
            "add", "discard", "appendleft", "extendleft"}
# one named symbol per line, with the reason
STORE_EXCEPTIONS = {
    ("CodeGenAccumulator", "list"): "documented debugging accumulator: collects generated code, never read by providers",
    ("Overlay", "_mergers"): "class-level lazy table of field mergers computed from the class annotations: idempotent",
}


def run(repo: Repo, tier: str, res: CheckResult, seed: int = 0) -> None:
    R = Resolver(repo)
    cached_call_sites(repo, R, res)
    ted_cache_keys(repo, res)
    hash_wrappers(repo, res)
    clone_discipline(repo, res)
    write_inventory(repo, res)
    facade_caches(repo, res)
    caches_not_carried_over(repo, res)
    cache_hits_do_not_skip_validation(repo, res)
    # the process-wide lru_cache of normalize_type is keyed by typing's equality (Union[A, B] == Union[B, A]): it is
    # history-free only if the normal form does not depend on the order/spelling the hint was first seen with
    from .c15 import ordering_rule
    ordering_rule(repo, repo.mod("type_tools/normalize_type"), res, prop="C11")
    # a provider that stores a one-shot iterable consumes it request by request: its answers depend on the call history
    # (shared rule with C10: every construction site of an Or/And/Xor checker passes a re-iterable collection)
    from .c10 import reiterable_sites
    sub = CheckResult("C10")
    reiterable_sites(repo, sub)
    res.evaluated("state:one-shot-iterables", True)
    for f in sub.findings:
        res.add(Finding("C11", "STATE.one-shot-iterator-held", f.file, f.qualname, f.construct,
                        "a predicate checker is built over a one-shot iterable (map/filter/generator) and stored in the "
                        "provider: every routing check consumes items, so which requests matched before decides what matches "
                        "now, and clones made by replace()/extend() share the half-consumed iterator", f.line))
    call_cache_stores_results_only(repo, res)
    # recursion stubs are arguments of cached factories; compared by value, a closure cached by a request that FAILED midway
    # (its stub never bound) is served to the retried request (shared rule with C12: two-phase objects compare by identity)
    from . import c12 as _c12
    sub2 = CheckResult("C12")
    _c12.two_phase(repo, sub2)
    res.evaluated("state:two-phase-identity", True)
    for f in sub2.findings:
        res.add(Finding("C11", "STATE.stub-compared-by-value", f.file, f.qualname, f.construct,
                        "a recursion stub that compares by value lets the call cache hand a closure built for an earlier request -- "
                        "possibly one that failed before its stub was bound -- to a later request: the loader obtained after a failed "
                        "first attempt raises on recursive data although a fresh retort works (" + f.message[:160] + ")", f.line))
    # hidden memos anywhere in the package (functools caches and check-then-insert dictionaries): sa/memo.py
    from .. import memo
    memo.check(repo, res, "C11")
    from .c20 import stateful_closures
    stateful_closures(repo, res, "C11", "STATE.runtime-closure-keeps-state",
                      "the result of a load / dump depends on the calls made before it on the same retort")
    res.assumptions = list(ASSUMPTIONS)


# ------------------------------------------------------------------------------------------ (1) cached_call
def cached_call_sites(repo: Repo, R: Resolver, res: CheckResult) -> None:
    n = 0
    for m in repo.modules.values():
        for node in ast.walk(m.tree):
            if not (isinstance(node, ast.Call) and isinstance(node.func, ast.Attribute) and node.func.attr == "cached_call"):
                continue
            if not node.args:
                continue
            n += 1
            qual = m.qualname(node)
            fac = node.args[0]
            res.evaluated(f"cached_call:{m.rel}:{qual}:{norm(fac)}", True)
            ci = m.enclosing_class(node)
            ok_bound = isinstance(fac, ast.Attribute) and isinstance(fac.value, ast.Name) and fac.value.id == "self"
            if not ok_bound:
                res.add(Finding("C11", "KEY.factory-not-bound-method", m.rel, qual, norm(node)[:160],
                                f"the cached factory `{norm(fac)}` is not a bound method of the provider: a lambda/closure "
                                "can capture the request or the mediator, which are not part of the cache key, so a later "
                                "request with an equal key receives a result computed for another request", node.lineno))
                continue
            if ci is None:
                continue
            meth = repo.find_method(ci, fac.attr)
            if meth is None:
                raise AnalysisError(f"{m.rel}:{qual}: factory {norm(fac)} not found")
            owner, fn = meth
            params = func_params(fn)
            hidden = [p for p in params if p in ("mediator", "request")]
            names = {x.id for x in ast.walk(fn) if isinstance(x, ast.Name)}
            hidden += [x for x in ("mediator", "request") if x in names and x not in params]
            if hidden:
                res.add(Finding("C11", "KEY.factory-uses-request", owner.module.rel, f"{owner.name}.{fn.name}",
                                f"{fn.name}({', '.join(params)})",
                                f"the cached factory reads {sorted(set(hidden))}; the mediator/request are not cache keys "
                                "(requests are compared by the explicit key arguments only)", fn.lineno))
            for a in list(node.args[1:]) + [k.value for k in node.keywords]:
                if isinstance(a, ast.Name) and a.id in ("mediator", "request"):
                    res.add(Finding("C11", "KEY.request-as-key", m.rel, qual, norm(a),
                                    "the whole request/mediator is used as a cache key argument: results become specific "
                                    "to one request location (or unhashable), defeating the key discipline", node.lineno))
            # always-equal wrappers
            for kw in node.keywords:
                if isinstance(kw.value, ast.Call) and norm(kw.value.func) == "AlwaysEqualHashWrapper" \
                        and kw.arg != "code_gen_hook":
                    res.add(Finding("C11", "KEY.always-equal", m.rel, qual, f"{kw.arg}={norm(kw.value)}",
                                    f"argument `{kw.arg}` is wrapped into AlwaysEqualHashWrapper, i.e. excluded from the "
                                    "cache key, although the produced closure depends on it", node.lineno))
            for a in node.args[1:]:
                if isinstance(a, ast.Call) and norm(a.func) == "AlwaysEqualHashWrapper":
                    res.add(Finding("C11", "KEY.always-equal", m.rel, qual, norm(a),
                                    "positional key argument wrapped into AlwaysEqualHashWrapper", node.lineno))
            # every parameter of the factory is supplied by the call (nothing comes from mutable defaults)
            res.sample({"site": f"{m.rel}:{qual}", "factory": f"{owner.name}.{fn.name}", "key_args":
                        [norm(a)[:40] for a in node.args[1:]] + [f"{k.arg}={norm(k.value)[:40]}" for k in node.keywords]},
                       limit=8)
    res.count("KEY.cached_call-sites", n, 44)


def ted_cache_keys(repo: Repo, res: CheckResult) -> None:
    """Literal arguments are values of unknown type: as (part of) a cache key they make Literal[0, 1] and
    Literal[False, True] collide.  Sources: `norm.args` inside providers registered for Literal."""
    m = repo.mod("morphing/generic_provider")
    ci = m.classes.get("LiteralProvider")
    if ci is None:
        raise AnalysisError("anchor vanished: LiteralProvider")
    if not any("Literal" in norm(d) for d in ci.decorators()):
        raise AnalysisError("LiteralProvider is no longer registered for Literal")
    expr_seeds: Dict[Tuple[str, str], Set[str]] = {}
    for name, fn in ci.methods.items():
        # locals that hold the normalised request type (whatever they are called)
        nvars = {norm(a.targets[0]) for a in ast.walk(fn) if isinstance(a, ast.Assign) and isinstance(a.value, ast.Call)
                 and norm(a.value.func) in ("try_normalize_type", "normalize_type") and isinstance(a.targets[0], ast.Name)}
        for node in ast.walk(fn):
            if isinstance(node, ast.Attribute) and node.attr == "args" and isinstance(node.value, ast.Name) \
                    and node.value.id in nvars:
                expr_seeds.setdefault((m.rel, f"{ci.name}.{name}"), set()).add(f"{node.value.id}.args")
    if not expr_seeds:
        raise AnalysisError("TED sources vanished: norm.args in LiteralProvider")
    ted = Ted(repo, [m], {}, expr_seeds)
    ted.run()
    n = 0
    for name, fn in ci.methods.items():
        for node in ast.walk(fn):
            if isinstance(node, ast.Call) and isinstance(node.func, ast.Attribute) and node.func.attr == "cached_call":
                keyargs = [(None, x) for x in node.args[1:]] + [(k.arg, k.value) for k in node.keywords]
                # the key as a whole is type-exact as soon as one component carries all values paired with their types
                typed_site = any(ted.kind_of(a, fn) == TCOLL for _, a in keyargs)
                for label, a in keyargs:
                    k = ted.kind_of(a, fn)
                    n += 1
                    res.evaluated(f"tedkey:{ci.name}.{name}:{label}:{norm(a)}", k is not None)
                    if k in (COLL, ELEM) and not typed_site:
                        res.add(Finding("C11", "KEY.untyped-literal-values", m.rel, f"{ci.name}.{name}",
                                        f"{label}={norm(a)}" if label else norm(a),
                                        f"cache key argument `{norm(a)}` holds Literal arguments compared by plain ==/hash: "
                                        "Literal[0, 1] and Literal[False, True] produce equal keys, so the loader built for "
                                        "the first request on a retort is returned for the second", node.lineno))
    res.count("KEY.literal-key-arguments", n, 5)
    # the same values reach other providers through the cases of a union: `case.args` of a case tested with `origin is Literal`
    k2 = 0
    for mod in repo.modules.values():
        if "/morphing/" not in mod.rel:
            continue
        for fn in [f for f in ast.walk(mod.tree) if isinstance(f, ast.FunctionDef)]:
            assigned = {}
            for a in ast.walk(fn):
                if isinstance(a, ast.Assign) and len(a.targets) == 1 and isinstance(a.targets[0], ast.Name):
                    assigned.setdefault(a.targets[0].id, []).append(a.value)
            def _selects_literal(e_: ast.AST) -> bool:
                return any(isinstance(c, ast.Compare) and len(c.ops) == 1 and isinstance(c.ops[0], (ast.Is, ast.Eq))
                           and isinstance(c.left, ast.Attribute) and c.left.attr == "origin"
                           and norm(c.comparators[0]).split(".")[-1] == "Literal" for c in ast.walk(e_))
            # locals that HOLD a Literal case (`literal_case = next(case for case in norm.args if case.origin is Literal)`)
            lit_locals = {nm for nm, vals in assigned.items() if any(_selects_literal(v) for v in vals)}
            for node in ast.walk(fn):
                if not (isinstance(node, ast.Call) and isinstance(node.func, ast.Attribute) and node.func.attr == "cached_call"):
                    continue
                for a in list(node.args[1:]) + [k.value for k in node.keywords]:
                    exprs = [a] + (assigned.get(a.id, []) if isinstance(a, ast.Name) else [])
                    for e in exprs:
                        lit_vars = lit_locals | {norm(c.left.value) for c in ast.walk(e) if isinstance(c, ast.Compare) and len(c.ops) == 1
                                    and isinstance(c.ops[0], (ast.Is, ast.Eq)) and isinstance(c.left, ast.Attribute) and c.left.attr == "origin"
                                    and norm(c.comparators[0]).split(".")[-1] == "Literal"}
                        raw = [x for x in ast.walk(e) if isinstance(x, ast.Attribute) and x.attr == "args" and norm(x.value) in lit_vars]
                        if not raw:
                            continue
                        k2 += 1
                        res.evaluated(f"tedkey:case-args:{mod.rel}:{mod.qualname(fn)}:{norm(a)[:30]}", True)
                        typed = any(tok in norm(e) for tok in ("type(", "_type_and_value_iter", "TypedLiteral"))
                        if not typed:
                            res.add(Finding("C11", "KEY.untyped-literal-values", mod.rel, mod.qualname(fn), norm(a)[:60],
                                            f"cache key argument `{norm(a)[:40]}` = `{norm(e)[:80]}` carries the arguments of a Literal case as a "
                                            "plain tuple compared by == / hash: Union[Literal[0, 1], X] and Union[Literal[False, True], X] share "
                                            "the entry, the union requested second gets the first one's closure (KeyError / wrong "
                                            "representation when a literal value is dumped)", node.lineno))


def hash_wrappers(repo: Repo, res: CheckResult) -> None:
    m = repo.mod("utils")
    n = 0
    for ci in m.classes.values():
        if not ci.name.endswith("HashWrapper"):
            continue
        n += 1
        res.evaluated(f"wrapper:{ci.name}", True)
        eq = ci.methods.get("__eq__")
        if eq is None:
            raise AnalysisError(f"{ci.name}: no __eq__")
        tests = [c for c in ast.walk(eq) if isinstance(c, ast.Call) and norm(c.func) == "isinstance" and len(c.args) == 2]
        # equality must never be wider than the class family it tests (a wrapper must not equal a different kind)
        rets = [r for r in ast.walk(eq) if isinstance(r, ast.Return) and r.value is not None]
        if ci.name != "AlwaysEqualHashWrapper":
            for r in rets:
                if isinstance(r.value, ast.Constant) and r.value.value is True:
                    res.add(Finding("C11", "WRAPPER.always-true", m.rel, f"{ci.name}.__eq__", norm(r),
                                    f"{ci.name} compares equal unconditionally: distinct key arguments collide",
                                    r.lineno))
            if not any("mapping" in norm(r.value) for r in rets if not (isinstance(r.value, ast.Name)
                                                                        and r.value.id == "NotImplemented")):
                res.add(Finding("C11", "WRAPPER.eq-ignores-content", m.rel, f"{ci.name}.__eq__", norm(eq)[:100],
                                f"{ci.name}.__eq__ no longer compares the wrapped mapping", eq.lineno))
    res.count("WRAPPER.classes", n, 3)


# ------------------------------------------------------------------------------------------ (2) clone discipline
def _mutable_container(e: ast.expr) -> bool:
    if isinstance(e, (ast.Dict, ast.List, ast.Set, ast.ListComp, ast.DictComp, ast.SetComp)):
        return True
    if isinstance(e, ast.Call) and norm(e.func) in ("dict", "list", "set", "defaultdict", "collections.defaultdict",
                                                    "OrderedDict", "deque", "WeakKeyDictionary", "WeakValueDictionary"):
        return True
    return False


def clone_discipline(repo: Repo, res: CheckResult) -> None:
    clonables = [ci for ci in repo.all_classes() if repo.is_subclass(ci, "Cloneable") and ci.name != "Cloneable"]
    n_blocks = 0
    n_attrs = 0
    for ci in clonables:
        m = ci.module
        # (a) mutable containers live in _calculate_derived
        for mname, fn in ci.methods.items():
            for node in walk_no_nested(fn, include_root=False):
                if isinstance(node, (ast.Assign, ast.AnnAssign)) and node.value is not None:
                    targets = node.targets if isinstance(node, ast.Assign) else [node.target]
                    for t in targets:
                        if isinstance(t, ast.Attribute) and isinstance(t.value, ast.Name) and t.value.id == "self" \
                                and _mutable_container(node.value):
                            n_attrs += 1
                            res.evaluated(f"clone:mutable:{ci.name}.{mname}:{t.attr}", True)
                            if mname != "_calculate_derived":
                                res.add(Finding("C11", "CLONE.mutable-outside-derived", m.rel, f"{ci.name}.{mname}", norm(node),
                                                f"mutable per-retort container `self.{t.attr}` is created in {mname}, not in "
                                                "_calculate_derived: replace()/extend() make a shallow copy, so the clone "
                                                "shares it with the original (a loader cached under the old options is "
                                                "served by the new retort and vice versa)", node.lineno))
        # (b) clone blocks
        for mname, fn in ci.methods.items():
            for node in walk_no_nested(fn, include_root=False):
                if isinstance(node, ast.With) and any("_clone()" in norm(it.context_expr) for it in node.items):
                    n_blocks += 1
                    var = next((norm(it.optional_vars) for it in node.items if it.optional_vars is not None), None)
                    res.evaluated(f"clone:block:{ci.name}.{mname}", True)
                    for sub in ast.walk(node):
                        if isinstance(sub, (ast.Assign, ast.AugAssign, ast.AnnAssign)):
                            targets = sub.targets if isinstance(sub, ast.Assign) else [sub.target]
                            for t in targets:
                                base = t
                                while isinstance(base, ast.Subscript):
                                    base = base.value
                                if isinstance(base, ast.Attribute):
                                    root = base.value
                                    direct = base is t
                                    if not (isinstance(root, ast.Name) and root.id == var and direct):
                                        res.add(Finding("C11", "CLONE.store-not-on-clone", m.rel, f"{ci.name}.{mname}", norm(sub),
                                                        "inside a clone block only plain attributes of the clone may be "
                                                        "rebound; this store reaches state shared with the original retort",
                                                        sub.lineno))
                        if isinstance(sub, ast.Call) and isinstance(sub.func, ast.Attribute) and sub.func.attr in MUTATORS:
                            b = sub.func.value
                            while isinstance(b, (ast.Subscript, ast.Attribute)) and not (
                                    isinstance(b, ast.Attribute) and isinstance(b.value, ast.Name)):
                                b = b.value
                            if isinstance(b, ast.Attribute) and isinstance(b.value, ast.Name) and b.value.id in (var, "self"):
                                res.add(Finding("C11", "CLONE.in-place-mutation", m.rel, f"{ci.name}.{mname}", norm(sub)[:120],
                                                "in-place mutation of an object reachable from the (shallow) clone also "
                                                "changes the original retort", sub.lineno))
                    # the method returns the clone
                    rets = [r for r in walk_no_nested(fn) if isinstance(r, ast.Return) and r.value is not None]
                    if not rets or not all(norm(r.value) == var for r in rets):
                        res.add(Finding("C11", "CLONE.returns-clone", m.rel, f"{ci.name}.{mname}",
                                        "; ".join(norm(r) for r in rets) or "no return",
                                        f"{mname}() must return the modified clone and leave `self` untouched", fn.lineno))
    # Cloneable._clone: copy, yield, recompute derived state of the COPY
    m = repo.mod("utils")
    cl = m.classes.get("Cloneable")
    if cl is None or "_clone" not in cl.methods:
        raise AnalysisError("anchor vanished: Cloneable._clone")
    fn = cl.methods["_clone"]
    res.evaluated("clone:_clone", True)
    copies = [n for n in ast.walk(fn) if isinstance(n, ast.Assign) and isinstance(n.value, ast.Call)
              and norm(n.value.func) in ("copy", "copy.copy") and norm(n.value.args[0]) == "self"]
    ok = False
    if copies:
        v = norm(copies[0].targets[0])
        yields = [y for y in ast.walk(fn) if isinstance(y, ast.Yield) and y.value is not None and norm(y.value) == v]
        derived = [c for c in ast.walk(fn) if isinstance(c, ast.Call) and norm(c.func) == f"{v}._calculate_derived"]
        ok = bool(yields) and bool(derived) and derived[0].lineno > yields[0].lineno
    if not ok:
        res.add(Finding("C11", "CLONE.protocol", m.rel, "Cloneable._clone", norm(fn)[:160],
                        "_clone must copy self, yield the copy and afterwards recompute the derived state of the copy "
                        "(fresh caches, routers built from the clone's recipe)", fn.lineno))
    res.count("CLONE.blocks", n_blocks, 4)
    res.count("CLONE.mutable-attributes", n_attrs, 3)


# ------------------------------------------------------------------------------------------ (3) write inventory
def write_inventory(repo: Repo, res: CheckResult) -> None:
    n = 0
    for ci in repo.all_classes():
        lifetime = None
        if repo.is_subclass(ci, "Cloneable"):
            lifetime = "retort"
        elif repo.is_subclass(ci, "Provider"):
            lifetime = "provider"
        elif repo.is_subclass(ci, "Mediator") or repo.is_subclass(ci, "RequestBus") or repo.is_subclass(ci, "RequestRouter"):
            lifetime = "mediator"
        elif ci.name in ("Overlay",) or repo.is_subclass(ci, "Overlay"):
            lifetime = "class-level"
        if lifetime is None:
            continue
        m = ci.module
        derived_caches = _derived_dicts(repo, ci)
        for mname, fn in ci.methods.items():
            if mname in INIT_METHODS:
                continue
            in_clone_blocks: Set[int] = set()
            for w in walk_no_nested(fn, include_root=False):
                if isinstance(w, ast.With) and any("_clone()" in norm(it.context_expr) for it in w.items):
                    in_clone_blocks |= {id(x) for x in ast.walk(w)}
            al = attr_aliases(fn)
            for node in _nodes_including_closures(fn):
                store = _store_target(node, al)
                if store is None:
                    continue
                root, attr, is_item, text = store
                if root not in ("self", "cls"):
                    if id(node) in in_clone_blocks:
                        n += 1
                        res.evaluated(f"store:{ci.name}.{mname}:{text}", True)
                    continue
                n += 1
                res.evaluated(f"store:{ci.name}.{mname}:{text}", True)
                if (ci.name, attr) in STORE_EXCEPTIONS or any((b.name, attr) in STORE_EXCEPTIONS for b in repo.mro(ci)):
                    continue
                if is_item and attr in derived_caches:
                    continue  # insert into a per-retort cache created by _calculate_derived
                if lifetime == "mediator" and is_item and attr == "_call_cache":
                    continue  # the retort's call cache handed to the mediator: insert-only
                res.add(Finding("C11", "WRITE.unclassified-store", m.rel, f"{ci.name}.{mname}", text,
                                f"{lifetime}-lifetime object is modified after construction (`{text}`): later requests "
                                "observe state left by earlier ones; only inserts into the caches created by "
                                "_calculate_derived are allowed", getattr(node, "lineno", 0)))
    res.count("WRITE.stores", n, 8)


def _nodes_including_closures(fn: ast.AST):
    yield from ast.walk(fn)


def param_attr_aliases(ci: ClassInfo) -> Dict[str, Dict[str, Tuple[str, str]]]:
    """method -> {parameter: (self, attribute)} for parameters that receive an attribute of self from a sibling method
    (`self._get(self._loader_cache, tp, ...)`): inside the callee the parameter IS that attribute"""
    out: Dict[str, Dict[str, Tuple[str, str]]] = {}
    for fn in ci.methods.values():
        for c in ast.walk(fn):
            if not (isinstance(c, ast.Call) and isinstance(c.func, ast.Attribute) and isinstance(c.func.value, ast.Name)
                    and c.func.value.id == "self" and c.func.attr in ci.methods):
                continue
            callee = ci.methods[c.func.attr]
            ps = [a.arg for a in callee.args.posonlyargs + callee.args.args][1:]
            for i, a in enumerate(c.args):
                if i < len(ps) and isinstance(a, ast.Attribute) and isinstance(a.value, ast.Name) and a.value.id == "self":
                    out.setdefault(c.func.attr, {})[ps[i]] = ("self", a.attr)
            for kw in c.keywords:
                if kw.arg and isinstance(kw.value, ast.Attribute) and isinstance(kw.value.value, ast.Name) and kw.value.value.id == "self":
                    out.setdefault(c.func.attr, {})[kw.arg] = ("self", kw.value.attr)
    return out


def attr_aliases(fn: ast.AST) -> Dict[str, Tuple[str, str]]:
    """locals that are plain aliases of an attribute of self / cls: `call_cache = self._call_cache`"""
    out: Dict[str, Tuple[str, str]] = {}
    for n in ast.walk(fn):
        if isinstance(n, ast.Assign) and len(n.targets) == 1 and isinstance(n.targets[0], ast.Name) \
                and isinstance(n.value, ast.Attribute) and isinstance(n.value.value, ast.Name) and n.value.value.id in ("self", "cls"):
            out[n.targets[0].id] = (n.value.value.id, n.value.attr)
    return out


def _store_target(node: ast.AST, aliases: Optional[Dict[str, Tuple[str, str]]] = None) -> Optional[Tuple[str, str, bool, str]]:
    """(root name, attribute, is item store / mutation, text) for stores through an attribute of a name (or through a
    local alias of such an attribute when `aliases` is given)"""
    aliases = aliases or {}
    targets: List[ast.expr] = []
    if isinstance(node, ast.Assign):
        targets = list(node.targets)
    elif isinstance(node, (ast.AugAssign, ast.AnnAssign)):
        if isinstance(node, ast.AnnAssign) and node.value is None:
            return None
        targets = [node.target]
    elif isinstance(node, ast.Delete):
        targets = list(node.targets)
    elif isinstance(node, ast.Call) and isinstance(node.func, ast.Attribute) and node.func.attr in MUTATORS:
        b = node.func.value
        is_item = True
        while isinstance(b, ast.Subscript):
            b = b.value
        if isinstance(b, ast.Attribute) and isinstance(b.value, ast.Name):
            return b.value.id, b.attr, True, norm(node)[:100]
        if isinstance(b, ast.Name) and b.id in aliases:
            return aliases[b.id][0], aliases[b.id][1], True, norm(node)[:100]
        return None
    for t in targets:
        base = t
        is_item = False
        while isinstance(base, ast.Subscript):
            base = base.value
            is_item = True
        if isinstance(base, ast.Attribute) and isinstance(base.value, ast.Name):
            return base.value.id, base.attr, is_item, norm(node)[:100]
        if is_item and isinstance(base, ast.Name) and base.id in aliases:
            return aliases[base.id][0], aliases[base.id][1], True, norm(node)[:100]
    return None


def _derived_dicts(repo: Repo, ci: ClassInfo) -> Set[str]:
    out: Set[str] = set()
    for c in repo.mro(ci):
        fn = c.methods.get("_calculate_derived")
        if fn is None:
            continue
        for node in ast.walk(fn):
            if isinstance(node, (ast.Assign, ast.AnnAssign)) and node.value is not None:
                targets = node.targets if isinstance(node, ast.Assign) else [node.target]
                for t in targets:
                    if isinstance(t, ast.Attribute) and isinstance(t.value, ast.Name) and t.value.id == "self" \
                            and isinstance(node.value, ast.Dict) and not node.value.keys:
                        out.add(t.attr)
                    # an empty instance of a dict subclass of the package is a derived table as well (C12 judges its methods)
                    if isinstance(t, ast.Attribute) and isinstance(t.value, ast.Name) and t.value.id == "self" \
                            and dict_subclass_instance(repo, c.module, node.value) is not None:
                        out.add(t.attr)
    return out


def dict_subclass_instance(repo: Repo, m, value) -> Optional[ClassInfo]:
    """`C()` where C is a class of the package that subclasses dict (or defines __setitem__)"""
    if not (isinstance(value, ast.Call) and not value.args and not value.keywords and isinstance(value.func, (ast.Name, ast.Attribute))):
        return None
    r = repo.resolve_expr_static(m, value.func)
    if r is None or r.kind != "class" or r.cls is None:
        return None
    for b in repo.mro(r.cls):
        if "__setitem__" in b.methods or any(norm(x).split("[")[0] in ("dict", "Dict", "OrderedDict", "defaultdict", "UserDict")
                                             for x in b.node.bases):
            return r.cls
    return None


# ------------------------------------------------------------------------------------------ (4) facade caches
def facade_caches(repo: Repo, res: CheckResult) -> None:
    """get_loader/get_dumper/get_converter: lookup key == insert key == the complete tuple of parameters that reach the
    maker; the cached value is what the maker returned for exactly these parameters."""
    n = 0
    for short in ("morphing/facade/retort", "conversion/facade/retort"):
        m = repo.mod(short)
        for ci in m.classes.values():
            for mname, fn in ci.methods.items():
                subs_load = [s for s in ast.walk(fn) if isinstance(s, ast.Subscript) and isinstance(s.ctx, ast.Load)
                             and isinstance(s.value, ast.Attribute) and s.value.attr.endswith("_cache")]
                subs_store = [s for s in ast.walk(fn) if isinstance(s, ast.Subscript) and isinstance(s.ctx, ast.Store)
                              and isinstance(s.value, ast.Attribute) and s.value.attr.endswith("_cache")]
                if not subs_store:
                    continue
                n += 1
                res.evaluated(f"facade-cache:{ci.name}.{mname}", True)
                st = subs_store[0]
                qual = f"{ci.name}.{mname}"
                if not subs_load or any(norm(s.slice) != norm(st.slice) or norm(s.value) != norm(st.value) for s in subs_load):
                    res.add(Finding("C11", "FACADE.key-mismatch", m.rel, qual, norm(st),
                                    "cache lookup and cache insert use different keys or different caches", st.lineno))
                    continue
                assign = m.parent(st)
                if not isinstance(assign, ast.Assign) or not isinstance(assign.value, ast.Name):
                    raise AnalysisError(f"{qual}: unexpected cache insert shape")
                val = assign.value.id
                makers = [a for a in ast.walk(fn) if isinstance(a, ast.Assign) and isinstance(a.targets[0], ast.Name)
                          and a.targets[0].id == val and isinstance(a.value, ast.Call)]
                if len(makers) != 1:
                    raise AnalysisError(f"{qual}: cannot find the maker call")
                mk = makers[0].value
                key_expr = st.slice
                if isinstance(key_expr, ast.Name):
                    bound = [a for a in ast.walk(fn) if isinstance(a, ast.Assign) and len(a.targets) == 1
                             and isinstance(a.targets[0], ast.Name) and a.targets[0].id == key_expr.id]
                    if len(bound) == 1:
                        key_expr = bound[0].value
                fparams = {a for a in func_params(fn) if a != "self"}
                # something COMPUTED FROM a parameter in place of the parameter (repr(tp), tp.__name__); other components next to
                # the parameters (self._mode) do no harm
                proj = [c for c in ast.walk(key_expr)
                        if (isinstance(c, ast.Call) and any(isinstance(x, ast.Name) and x.id in fparams for a in c.args for x in ast.walk(a)))
                        or (isinstance(c, ast.Attribute) and isinstance(c.value, ast.Name) and c.value.id in fparams)]
                if proj:
                    res.add(Finding("C11", "FACADE.key-projects-parameter", m.rel, qual, f"key {norm(key_expr)[:80]}",
                                    f"the cache key `{norm(key_expr)[:80]}` is computed FROM the parameters ({norm(proj[0])[:40]}) instead of "
                                    "being the parameters: two different requests with the same projection (same repr, same name ...) "
                                    "share one compiled function", st.lineno))
                key_names = {x.id for x in ast.walk(key_expr) if isinstance(x, ast.Name)}
                maker_names = {x.id for a in list(mk.args) + [k.value for k in mk.keywords] for x in ast.walk(a)
                               if isinstance(x, ast.Name)}
                missing = maker_names - key_names - {"self"}
                if missing:
                    res.add(Finding("C11", "FACADE.key-incomplete", m.rel, qual, f"key {norm(st.slice)} vs {norm(mk)}",
                                    f"the maker depends on {sorted(missing)} which is not part of the cache key: a later "
                                    "call with another value gets the result built for the first one", st.lineno))
                # the maker must be a method of the same retort object that owns the cache
                if norm(mk.func).split(".")[0] != norm(st.value).split(".")[0]:
                    res.add(Finding("C11", "FACADE.foreign-cache", m.rel, qual, f"{norm(st.value)} <- {norm(mk.func)}",
                                    "the value is produced by one retort and cached in another", st.lineno))
    res.count("FACADE.caches", n, 3)


def call_cache_stores_results_only(repo: Repo, res: CheckResult) -> None:
    """The call cache memoises RESULTS of factories. An outcome that later code modifies must not be stored: a CannotProvide is
    annotated in place by the request bus (location notes) and aggregated into reports, so a remembered refusal accumulates the
    notes of every earlier failed request (the report for B names A's fields) and makes refusals sticky although the world
    changed (a mapping registered after the first failure). Every store into the cache must store the value bound to the
    factory call."""
    mm = repo.mod("retort/builtin_mediator")
    ci = mm.classes.get("BuiltinMediator")
    fn = ci.methods.get("cached_call") if ci is not None else None
    if fn is None:
        raise AnalysisError("anchor vanished: BuiltinMediator.cached_call")
    fparam = func_params(fn)[1]
    res.evaluated("call-cache:results-only", True)
    result_names = {t.id for st in ast.walk(fn) if isinstance(st, ast.Assign) and isinstance(st.value, ast.Call)
                    and isinstance(st.value.func, ast.Name) and st.value.func.id == fparam for t in st.targets if isinstance(t, ast.Name)}
    for st in ast.walk(fn):
        if isinstance(st, ast.Assign) and any(isinstance(t, ast.Subscript) and norm(t.value) == "self._call_cache" for t in st.targets):
            v = st.value
            ok = (isinstance(v, ast.Name) and v.id in result_names) or (
                isinstance(v, ast.Call) and isinstance(v.func, ast.Name) and v.func.id == fparam)
            in_handler = any(isinstance(p, ast.ExceptHandler) for p in _parents_of(mm, st, fn))
            if not ok or in_handler:
                res.add(Finding("C11", "CACHE.non-result-memoised", mm.rel, "BuiltinMediator.cached_call", norm(st)[:100],
                                f"`{norm(st)[:80]}` stores something else than the factory's result"
                                + (" (inside an exception handler: a failure is remembered)" if in_handler else "") +
                                ": a remembered CannotProvide is annotated in place by every request that hits it, so the error report of "
                                "a request depends on the requests that failed before it, and the refusal outlives its cause",
                                st.lineno))


def _parents_of(m: ModuleInfo, node: ast.AST, stop: ast.AST):
    p = m.parent(node)
    while p is not None and p is not stop:
        yield p
        p = m.parent(p)


def caches_not_carried_over(repo: Repo, res: CheckResult, prop: str = "C11", rule: str = "FACADE.cache-carried-to-clone",
                            consequence: str = "") -> None:
    """The per-retort memos (`_loader_cache`, `_dumper_cache`, `_simple_converter_cache`, `_call_cache`) are keyed by the type
    (the request) only; what they hold was compiled under the options and the recipe of the retort that owns them. A retort
    derived by replace() / extend() therefore starts with EMPTY memos (they are created in `_calculate_derived`). Any other
    method that binds a memo of another retort object, or merges one memo into another, lets functions compiled under one set
    of options (strict_coercion, debug_trail, recipe) answer for a retort with different ones -- which of the two retorts was
    used first then decides the behaviour of both."""
    n = 0
    for ci in repo.all_classes():
        if not (repo.is_subclass(ci, "BaseRetort") or ci.name == "BaseRetort"):
            continue
        for mname, fn in ci.methods.items():
            n += 1
            res.evaluated(f"cache-carry:{ci.name}.{mname}", True)
            for x in ast.walk(fn):
                bad = None
                if isinstance(x, (ast.Assign, ast.AugAssign, ast.AnnAssign)):
                    targets = x.targets if isinstance(x, ast.Assign) else [x.target]
                    for t in targets:
                        if isinstance(t, ast.Attribute) and t.attr.endswith("_cache"):
                            val = x.value
                            # an empty literal or a constructor called without positional arguments (an empty container of any
                            # class; keyword arguments configure it, they do not fill it)
                            fresh = val is None or (isinstance(val, ast.Dict) and not val.keys) or (
                                isinstance(val, ast.Call) and not val.args and not any(k.arg is None for k in val.keywords))
                            if isinstance(x, ast.AugAssign) or not fresh:
                                bad = x
                if isinstance(x, ast.Call) and isinstance(x.func, ast.Attribute) and x.func.attr in ("update", "__ior__") \
                        and isinstance(x.func.value, ast.Attribute) and x.func.value.attr.endswith("_cache"):
                    bad = x
                if bad is not None:
                    res.add(Finding(prop, rule, ci.module.rel, f"{ci.name}.{mname}", norm(bad)[:100],
                                    f"`{norm(bad)[:90]}`: a per-retort memo is bound to / filled from existing entries instead of starting "
                                    "empty: the entries were compiled under the options and recipe of the retort that made them and are "
                                    "keyed by the type alone" + (": " + consequence if consequence else ""), bad.lineno))
    res.count("FACADE.retort-methods", n, 20)


def cache_hits_do_not_skip_validation(repo: Repo, res: CheckResult) -> None:
    """A facade method that refuses some calls (raise under a test of the ARGUMENTS) must refuse them whatever the retort has
    done before: a return taken on a cache hit in front of the refusal makes the outcome of the call depend on whether an
    earlier call filled the cache (dump(Box(...)) without a type is an error on a fresh retort and an answer after
    get_dumper(Box))."""
    n = 0
    for short in ("morphing/facade/retort", "conversion/facade/retort"):
        m = repo.mod(short)
        for ci in m.classes.values():
            for mname, fn in ci.methods.items():
                raises = [r for r in walk_no_nested(fn) if isinstance(r, ast.Raise) and r.exc is not None]
                if not raises:
                    continue
                cache_names = set()
                for a in walk_no_nested(fn):
                    if isinstance(a, ast.Assign) and len(a.targets) == 1 and isinstance(a.targets[0], ast.Name) and any(
                            isinstance(x, ast.Attribute) and x.attr.endswith("_cache") for x in ast.walk(a.value)):
                        cache_names.add(a.targets[0].id)
                n += 1
                res.evaluated(f"cache-hit-before-refusal:{ci.name}.{mname}", True)
                last_raise = max(r.lineno for r in raises)
                for cond in [x for x in walk_no_nested(fn) if isinstance(x, ast.If)]:
                    reads_cache = any((isinstance(x, ast.Name) and x.id in cache_names) or (isinstance(x, ast.Attribute) and x.attr.endswith("_cache"))
                                      for x in ast.walk(cond.test))
                    rets = [r for st in cond.body for r in ast.walk(st) if isinstance(r, ast.Return)]
                    if reads_cache and rets and rets[0].lineno < last_raise:
                        res.add(Finding("C11", "FACADE.cache-hit-skips-refusal", m.rel, f"{ci.name}.{mname}", norm(cond.test)[:100],
                                        f"`if {norm(cond.test)[:60]}: {norm(rets[0])[:40]}` answers from the cache BEFORE the method reaches "
                                        "a refusal of its arguments: the same call is an error on a fresh retort and an answer after an "
                                        "earlier call has filled the cache", cond.lineno))
    res.count("FACADE.refusing-methods", n, 2)
